//! Small scenarios over the simulator's primitives, meant to be run under Miri
//! (`cargo +nightly miri run -p dstsim --example miri_smoke`): scoped threads (the one `unsafe`
//! block of the crate extends a scope reference), channels incl. rendezvous, locks, condvars,
//! a task that panics, a scope whose closure unwinds, park/unpark, a barrier, a deadlock that is
//! torn down.
use dstsim::shim::std::sync::{mpsc, Arc, Condvar, Mutex};
use dstsim::shim::std::thread;

fn main() {
    dstsim::install_panic_hook();
    for seed in 0..6u64 {
        let cfg = dstsim::Config { sched_seed: seed, max_steps: 20_000, ..dstsim::Config::default() };
        // scoped threads borrowing the stack + mutex + condvar
        let out = dstsim::run(cfg.clone(), || {
            let q = Mutex::new(Vec::new());
            let cv = Condvar::new();
            let mut local = 0u32;
            thread::scope(|s| {
                s.spawn(|| {
                    for i in 0..3 {
                        q.lock().unwrap().push(i);
                        cv.notify_one();
                    }
                });
                let mut g = q.lock().unwrap();
                while g.len() < 3 {
                    g = cv.wait(g).unwrap();
                }
                local = g.iter().sum();
            });
            local
        });
        assert!(matches!(out.result, dstsim::RunResult::Done(3)));
        // channels: unbounded, bounded, rendezvous; a worker that panics; join
        let out = dstsim::run(cfg.clone(), || {
            let (tx, rx) = mpsc::channel::<u32>();
            let (stx, srx) = mpsc::sync_channel::<u32>(0);
            let h = thread::spawn(move || {
                tx.send(1).unwrap();
                stx.send(2).unwrap();
                let _ = stx.try_send(3);
            });
            let p = thread::spawn(|| {
                let v: Arc<Mutex<u8>> = Arc::new(Mutex::new(0));
                let _g = v.lock().unwrap();
                std::panic::resume_unwind(Box::new(()));
            });
            let a = rx.recv().unwrap();
            let b = srx.recv().unwrap();
            h.join().unwrap();
            (a + b, p.join().is_err())
        });
        assert!(matches!(out.result, dstsim::RunResult::Done((3, true))));
        // the closure of a scope unwinds while a scoped thread waits to hand over a value on a
        // rendezvous channel: the receiver dies with the closure, the worker's send fails, the
        // scope ends (this used to stop the simulation for real: the implicit join of the scope
        // was skipped on unwinding and the real scope parked with the baton in hand)
        let out = dstsim::run(cfg.clone(), || {
            let (tx, rx) = mpsc::sync_channel::<u32>(0);
            let r = std::panic::catch_unwind(std::panic::AssertUnwindSafe(|| {
                thread::scope(|s| {
                    let rx = rx;
                    s.spawn(move || tx.send(7).is_err());
                    let _first = rx.try_recv();
                    std::panic::resume_unwind(Box::new(()));
                })
            }));
            r.is_err()
        });
        assert!(matches!(out.result, dstsim::RunResult::Done(true)), "{:?}", out.result.kind());
        // park / unpark: a token given before the park is consumed by it; a worker parked on a
        // flag is released by the flag + unpark; a timed park ends by its deadline; a barrier
        // of three has exactly one leader
        let out = dstsim::run(cfg.clone(), || {
            use dstsim::shim::std::sync::atomic::{AtomicBool, Ordering};
            use dstsim::shim::std::sync::Barrier;
            thread::current().unpark();
            thread::park();
            let flag = Arc::new(AtomicBool::new(false));
            let f2 = flag.clone();
            let w = thread::spawn(move || {
                let mut parks = 0u32;
                while !f2.load(Ordering::SeqCst) {
                    thread::park();
                    parks += 1;
                }
                parks
            });
            thread::park_timeout(std::time::Duration::from_millis(5));
            flag.store(true, Ordering::SeqCst);
            w.thread().unpark();
            let parks = w.join().unwrap();
            let b = Arc::new(Barrier::new(3));
            let hs: Vec<_> = (0..2)
                .map(|_| {
                    let b = b.clone();
                    thread::spawn(move || b.wait().is_leader())
                })
                .collect();
            let mut leaders = u32::from(b.wait().is_leader());
            for h in hs {
                leaders += u32::from(h.join().unwrap());
            }
            (parks <= 1, leaders)
        });
        assert!(matches!(out.result, dstsim::RunResult::Done((true, 1))), "{:?}", out.result.kind());
        // a task parked for ever is a deadlock, reported as such
        let out = dstsim::run(cfg.clone(), || {
            let h = thread::spawn(|| thread::park());
            let _ = h.join();
        });
        assert!(matches!(out.result, dstsim::RunResult::Deadlock(_)), "{:?}", out.result.kind());
        // a deadlock is detected and torn down (every task unwinds)
        let out = dstsim::run(cfg, || {
            let (tx, rx) = mpsc::channel::<u8>();
            let h = thread::spawn(move || {
                let _keep = tx;
                let (_t2, r2) = mpsc::channel::<u8>();
                let _ = r2.recv();
            });
            let _ = rx.recv();
            let _ = h.join();
        });
        assert!(matches!(out.result, dstsim::RunResult::Deadlock(_)));
    }
    println!("miri_smoke ok");
}
