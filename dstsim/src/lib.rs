//! dstsim — a small deterministic-simulation runtime.
//!
//! Tasks are real OS threads that are released one at a time ("baton"): a task
//! runs real code until it reaches an intercepted operation (spawn, join,
//! channel send/recv/try_recv, sleep, ...), where the scheduler — driven by a
//! seeded PRNG or by an explicit decision trace — decides who runs next.
//! Exactly one task of a simulation is ever unparked, so code between yield
//! points runs without races and *who runs* is the only thing that is not real.
//!
//! Every intercepted operation is an event of the recorded history with a
//! global sequence number (its index in the event log).

use std::any::Any;
use std::cell::{Cell, RefCell};
use std::collections::VecDeque;
use std::panic::{AssertUnwindSafe, catch_unwind, resume_unwind};
use std::sync::{Arc, Condvar, Mutex, MutexGuard};

pub mod shim;
pub mod simfs;

pub type TaskId = usize;
pub type ChanId = usize;

// ---------------------------------------------------------------------------
// PRNG streams
// ---------------------------------------------------------------------------

/// splitmix64 step.
pub fn mix64(mut z: u64) -> u64 {
    z = z.wrapping_add(0x9E3779B97F4A7C15);
    z = (z ^ (z >> 30)).wrapping_mul(0xBF58476D1CE4E5B9);
    z = (z ^ (z >> 27)).wrapping_mul(0x94D049BB133111EB);
    z ^ (z >> 31)
}

/// Stateless keyed hash: the value of stream `seed` at coordinates `keys`.
pub fn keyed(seed: u64, keys: &[u64]) -> u64 {
    let mut h = mix64(seed ^ 0xD6E8FEB86659FD93);
    for &k in keys {
        h = mix64(h ^ mix64(k.wrapping_add(0x2545F4914F6CDD1D)));
    }
    h
}

/// A small sequential PRNG (splitmix64) used for every simulator decision.
#[derive(Clone, Debug)]
pub struct Stream(pub u64);

impl Stream {
    pub fn new(seed: u64, key: &str) -> Stream {
        let mut h = seed;
        for b in key.bytes() {
            h = mix64(h ^ u64::from(b));
        }
        Stream(mix64(h))
    }
    pub fn next(&mut self) -> u64 {
        self.0 = self.0.wrapping_add(0x9E3779B97F4A7C15);
        let mut z = self.0;
        z = (z ^ (z >> 30)).wrapping_mul(0xBF58476D1CE4E5B9);
        z = (z ^ (z >> 27)).wrapping_mul(0x94D049BB133111EB);
        z ^ (z >> 31)
    }
    /// Uniform in 0..n (n > 0).
    pub fn below(&mut self, n: u64) -> u64 {
        debug_assert!(n > 0);
        ((u128::from(self.next()) * u128::from(n)) >> 64) as u64
    }
    pub fn range(&mut self, lo: u64, hi_incl: u64) -> u64 {
        lo + self.below(hi_incl - lo + 1)
    }
    pub fn chance(&mut self, num: u64, den: u64) -> bool {
        self.below(den) < num
    }
    pub fn f64(&mut self) -> f64 {
        (self.next() >> 11) as f64 / (1u64 << 53) as f64
    }
    pub fn pick<'a, T>(&mut self, xs: &'a [T]) -> &'a T {
        &xs[self.below(xs.len() as u64) as usize]
    }
}

// ---------------------------------------------------------------------------
// Configuration / results
// ---------------------------------------------------------------------------

#[derive(Clone, Debug, PartialEq)]
pub enum Strategy {
    /// uniform choice among runnable tasks
    Uniform,
    /// continue the current task with probability p/1000, else uniform
    Sticky(u32),
    /// per-task speed drawn log-uniformly (ratio <= 30): slow and fast nodes
    Weighted,
    /// random tasks become unschedulable for 10..2000 steps: stalled nodes
    Stall,
    /// PCT-like: random priorities, `d` change points; demotion after 200 consecutive steps
    Pct(u32),
    /// round-robin (also what every strategy turns into in the fair phase)
    RoundRobin,
}

impl Strategy {
    pub fn name(&self) -> String {
        match self {
            Strategy::Uniform => "uniform".into(),
            Strategy::Sticky(p) => format!("sticky{}", p),
            Strategy::Weighted => "weighted".into(),
            Strategy::Stall => "stall".into(),
            Strategy::Pct(d) => format!("pct{}", d),
            Strategy::RoundRobin => "rr".into(),
        }
    }
    pub fn parse(s: &str) -> Option<Strategy> {
        Some(match s {
            "uniform" => Strategy::Uniform,
            "weighted" => Strategy::Weighted,
            "stall" => Strategy::Stall,
            "rr" => Strategy::RoundRobin,
            _ if s.starts_with("sticky") => Strategy::Sticky(s[6..].parse().ok()?),
            _ if s.starts_with("pct") => Strategy::Pct(s[3..].parse().ok()?),
            _ => return None,
        })
    }
}

#[derive(Clone, Copy, Debug, PartialEq)]
pub enum ClockProfile {
    /// 0..2 microseconds per step
    Fine,
    /// 0..2 milliseconds per step
    Coarse,
    /// coarse, and one step in 300 jumps by 1 s .. 3 h (clock jump / stalled process)
    Jumpy,
}

impl ClockProfile {
    pub fn name(&self) -> &'static str {
        match self {
            ClockProfile::Fine => "fine",
            ClockProfile::Coarse => "coarse",
            ClockProfile::Jumpy => "jumpy",
        }
    }
    pub fn parse(s: &str) -> Option<ClockProfile> {
        Some(match s {
            "fine" => ClockProfile::Fine,
            "coarse" => ClockProfile::Coarse,
            "jumpy" => ClockProfile::Jumpy,
            _ => return None,
        })
    }
}

#[derive(Clone, Debug)]
pub struct Config {
    /// seed of the schedule stream
    pub sched_seed: u64,
    /// seed of the clock stream
    pub clock_seed: u64,
    /// seed of the entropy stream (what `rand::rng()` returns inside tasks)
    pub entropy_seed: u64,
    pub strategy: Strategy,
    pub clock: ClockProfile,
    /// what `num_cpus::get()` returns inside the simulation
    pub num_cpus: usize,
    /// hard bound on scheduling steps
    pub max_steps: u64,
    /// explicit decision trace (task id per choice point); after it is exhausted:
    /// continue the current task if runnable, else the lowest runnable id
    pub replay: Option<Vec<u32>>,
    /// stop-phase rule: the first send on a *bounded* channel by the root after its last
    /// spawn is the "stop event"; a drawn 0..=stop_delay_max steps later the scheduler turns
    /// round-robin and the root must spawn again or return within `stop_bound` steps.
    pub stop_rule: bool,
    pub stop_delay_max: u64,
    pub stop_bound: u64,
    /// number of simulated pool tasks used by the rayon shim
    pub par_tasks: usize,
    /// keep the event log (false: only its hash and counters)
    pub keep_events: bool,
}

impl Default for Config {
    fn default() -> Config {
        Config {
            sched_seed: 1,
            clock_seed: 2,
            entropy_seed: 3,
            strategy: Strategy::Uniform,
            clock: ClockProfile::Coarse,
            num_cpus: 2,
            max_steps: 400_000,
            replay: None,
            stop_rule: false,
            stop_delay_max: 2000,
            stop_bound: 100_000,
            par_tasks: 2,
            keep_events: true,
        }
    }
}

#[derive(Clone, Debug, PartialEq)]
pub enum Ev {
    Spawn { child: TaskId },
    /// `elem`: size in bytes of one message
    ChanNew { chan: ChanId, cap: Option<usize>, elem: usize },
    Send { chan: ChanId, seq: u64 },
    SendFail { chan: ChanId },
    Recv { chan: ChanId, from: TaskId, seq: u64 },
    RecvDisc { chan: ChanId },
    TryRecvOk { chan: ChanId, from: TaskId, seq: u64 },
    TryRecvEmpty { chan: ChanId },
    TryRecvDisc { chan: ChanId },
    SenderDrop { chan: ChanId, left: usize },
    ReceiverDrop { chan: ChanId },
    Join { target: TaskId, panicked: bool },
    Finish { panicked: bool },
    Now { ns: u64 },
    Sleep { ns: u64 },
    Yield,
    Rng,
    NumCpus { n: usize },
    CtrlC,
    StopEvent { fair_at: u64, deadline: u64 },
    User { tag: &'static str, vals: Vec<i64> },
}

#[derive(Clone, Debug, PartialEq)]
pub struct Event {
    pub step: u64,
    pub task: TaskId,
    pub t_ns: u64,
    pub ev: Ev,
}

#[derive(Clone, Debug, PartialEq)]
pub enum TaskEnd {
    Returned,
    /// panic injected by the simulator (`inject_panic`)
    InjectedPanic,
    /// any other panic: message and location
    Panicked(String),
    /// still alive when the simulation ended
    Unfinished(String),
}

#[derive(Clone, Debug)]
pub struct TaskInfo {
    pub id: TaskId,
    pub parent: Option<TaskId>,
    pub end: TaskEnd,
    pub steps: u64,
}

#[derive(Debug)]
pub enum RunResult<T> {
    /// root returned this value
    Done(T),
    /// no runnable task while some task is unfinished
    Deadlock(String),
    /// a step bound was exceeded (global or stop-phase)
    StepBound(String),
    /// the root task panicked (message)
    RootPanicked(String),
}

impl<T> RunResult<T> {
    pub fn kind(&self) -> &'static str {
        match self {
            RunResult::Done(_) => "done",
            RunResult::Deadlock(_) => "deadlock",
            RunResult::StepBound(_) => "step-bound",
            RunResult::RootPanicked(_) => "root-panicked",
        }
    }
}

#[derive(Debug)]
pub struct Outcome<T> {
    pub result: RunResult<T>,
    /// tasks not finished when the root returned (only meaningful for `Done`/`RootPanicked`)
    pub leaked: Vec<TaskId>,
    pub events: Vec<Event>,
    pub trace: Vec<u32>,
    pub clock_ns: u64,
    pub steps: u64,
    pub tasks: Vec<TaskInfo>,
    pub event_hash: u64,
    pub n_events: u64,
    /// number of decision points with at least two candidates
    pub choice_points: u64,
    /// number of `rand::rng()` calls made inside the simulation
    pub rng_calls: u64,
}

// ---------------------------------------------------------------------------
// Scheduler state
// ---------------------------------------------------------------------------

#[derive(Clone, Debug, PartialEq)]
enum TState {
    Runnable,
    BlockedRecv(ChanId),
    /// blocked in recv with a deadline on the simulated clock (recv_timeout)
    BlockedRecvUntil(ChanId, u64),
    BlockedSend(ChanId),
    BlockedJoin(TaskId),
    /// waiting for a simulated Mutex / RwLock
    BlockedLock(usize),
    /// waiting on a simulated Condvar (optional deadline on the simulated clock)
    BlockedCond(usize, Option<u64>),
    /// sleeping until a deadline (recv_timeout and friends)
    BlockedUntil(u64),
    /// in `thread::park` / `park_timeout` (optional deadline), waiting for its token
    BlockedPark(Option<u64>),
    Finished,
}

struct Task {
    state: TState,
    cv: Arc<Condvar>,
    parent: Option<TaskId>,
    end: Option<TaskEnd>,
    steps: u64,
    weight: u64,
    priority: u64,
    stalled_until: u64,
    rng_calls: u64,
    /// the token of `thread::park` / `Thread::unpark`
    park_token: bool,
    /// set when a timed wait ended by its deadline
    timed_out: bool,
    /// decisions in a row at which the task was runnable and another one was chosen
    passed_over: u64,
}

#[derive(Default)]
struct LockState {
    writer: Option<TaskId>,
    readers: usize,
}

struct Chan {
    cap: Option<usize>,
    /// metadata of queued messages: (sender task, per-sender sequence number)
    q: VecDeque<(TaskId, u64)>,
    senders: usize,
    receiver_alive: bool,
    /// per-sender counters
    sent: Vec<(TaskId, u64)>,
}

#[derive(Clone, Debug)]
enum Abort {
    Deadlock(String),
    StepBound(String),
    RootDone,
}

struct Sched {
    cfg: Config,
    tasks: Vec<Task>,
    chans: Vec<Chan>,
    /// simulated locks and condition variables, registered by address at first use
    locks: Vec<LockState>,
    lock_ids: Vec<(usize, usize)>,
    cond_ids: Vec<(usize, usize)>,
    current: TaskId,
    step: u64,
    clock_ns: u64,
    sched_rng: Stream,
    clock_rng: Stream,
    replay_pos: usize,
    trace: Vec<u32>,
    choice_points: u64,
    events: Vec<Event>,
    n_events: u64,
    hash: u64,
    aborted: Option<Abort>,
    consecutive: u64,
    /// extra steps granted for timed waits that expired (see `wake_expired`)
    wait_credit: u64,
    // stop phase
    stop_active: bool,
    fair_at: u64,
    stop_deadline: u64,
    // PCT change points
    pct_points: Vec<u64>,
    next_low_priority: u64,
}

pub(crate) struct Shared {
    sched: Mutex<Sched>,
    os_handles: Mutex<Vec<std::thread::JoinHandle<()>>>,
    sim_no: u64,
}

/// private unwinding payload used to tear a simulation down
struct SimAbort;

/// payload of a simulator-injected panic
pub struct InjectedPanic;

thread_local! {
    static CUR: RefCell<Option<(Arc<Shared>, TaskId)>> = const { RefCell::new(None) };
    static QUIET: Cell<bool> = const { Cell::new(false) };
    static LAST_PANIC: RefCell<Option<String>> = const { RefCell::new(None) };
}

static SIM_COUNTER: std::sync::atomic::AtomicU64 = std::sync::atomic::AtomicU64::new(0);

pub(crate) fn current() -> Option<(Arc<Shared>, TaskId)> {
    CUR.with(|c| c.borrow().clone())
}

/// True when the calling thread is a task of a running simulation.
pub fn in_sim() -> bool {
    CUR.with(|c| c.borrow().is_some())
}

/// Task id of the calling task (None outside a simulation).
pub fn task_id() -> Option<TaskId> {
    CUR.with(|c| c.borrow().as_ref().map(|x| x.1))
}

/// Install (once) a panic hook that is silent for simulated tasks and for threads that
/// asked for quiet, and records message + location for the task bookkeeping.
pub fn install_panic_hook() {
    static ONCE: std::sync::Once = std::sync::Once::new();
    ONCE.call_once(|| {
        let default = std::panic::take_hook();
        std::panic::set_hook(Box::new(move |info| {
            let msg = if let Some(s) = info.payload().downcast_ref::<&str>() {
                (*s).to_string()
            } else if let Some(s) = info.payload().downcast_ref::<String>() {
                s.clone()
            } else if info.payload().is::<InjectedPanic>() {
                "<injected>".to_string()
            } else {
                "<non-string payload>".to_string()
            };
            let loc = info
                .location()
                .map(|l| format!("{}:{}", l.file(), l.line()))
                .unwrap_or_default();
            LAST_PANIC.with(|p| *p.borrow_mut() = Some(format!("{} @ {}", msg, loc)));
            let quiet = QUIET.with(|q| q.get()) || in_sim();
            if !quiet {
                default(info);
            }
        }));
    });
}

/// Run `f` with the default panic message suppressed on this thread.
pub fn quiet<R>(f: impl FnOnce() -> R) -> R {
    let old = QUIET.with(|q| q.replace(true));
    let r = f();
    QUIET.with(|q| q.set(old));
    r
}

pub fn take_last_panic() -> Option<String> {
    LAST_PANIC.with(|p| p.borrow_mut().take())
}

fn payload_to_end(p: &(dyn Any + Send)) -> TaskEnd {
    let last = take_last_panic();
    if p.is::<InjectedPanic>() {
        TaskEnd::InjectedPanic
    } else {
        let loc = last.unwrap_or_else(|| {
            if let Some(s) = p.downcast_ref::<&str>() {
                (*s).to_string()
            } else if let Some(s) = p.downcast_ref::<String>() {
                s.clone()
            } else {
                "<non-string payload>".into()
            }
        });
        TaskEnd::Panicked(loc)
    }
}

fn fnv(h: &mut u64, x: u64) {
    for b in x.to_le_bytes() {
        *h ^= u64::from(b);
        *h = h.wrapping_mul(0x100000001b3);
    }
}

impl Sched {
    fn log(&mut self, task: TaskId, ev: Ev) {
        if self.aborted.is_some() {
            return;
        }
        // hash
        let mut h = self.hash;
        fnv(&mut h, self.step);
        fnv(&mut h, task as u64);
        fnv(&mut h, self.clock_ns);
        match &ev {
            Ev::Spawn { child } => {
                fnv(&mut h, 1);
                fnv(&mut h, *child as u64)
            }
            Ev::ChanNew { chan, cap, .. } => {
                fnv(&mut h, 2);
                fnv(&mut h, *chan as u64);
                fnv(&mut h, cap.map_or(u64::MAX, |c| c as u64))
            }
            Ev::Send { chan, seq } => {
                fnv(&mut h, 3);
                fnv(&mut h, *chan as u64);
                fnv(&mut h, *seq)
            }
            Ev::SendFail { chan } => {
                fnv(&mut h, 4);
                fnv(&mut h, *chan as u64)
            }
            Ev::Recv { chan, from, seq } => {
                fnv(&mut h, 5);
                fnv(&mut h, *chan as u64);
                fnv(&mut h, *from as u64);
                fnv(&mut h, *seq)
            }
            Ev::RecvDisc { chan } => {
                fnv(&mut h, 6);
                fnv(&mut h, *chan as u64)
            }
            Ev::TryRecvOk { chan, from, seq } => {
                fnv(&mut h, 7);
                fnv(&mut h, *chan as u64);
                fnv(&mut h, *from as u64);
                fnv(&mut h, *seq)
            }
            Ev::TryRecvEmpty { chan } => {
                fnv(&mut h, 8);
                fnv(&mut h, *chan as u64)
            }
            Ev::TryRecvDisc { chan } => {
                fnv(&mut h, 9);
                fnv(&mut h, *chan as u64)
            }
            Ev::SenderDrop { chan, left } => {
                fnv(&mut h, 10);
                fnv(&mut h, *chan as u64);
                fnv(&mut h, *left as u64)
            }
            Ev::ReceiverDrop { chan } => {
                fnv(&mut h, 11);
                fnv(&mut h, *chan as u64)
            }
            Ev::Join { target, panicked } => {
                fnv(&mut h, 12);
                fnv(&mut h, *target as u64);
                fnv(&mut h, u64::from(*panicked))
            }
            Ev::Finish { panicked } => {
                fnv(&mut h, 13);
                fnv(&mut h, u64::from(*panicked))
            }
            Ev::Now { ns } => {
                fnv(&mut h, 14);
                fnv(&mut h, *ns)
            }
            Ev::Sleep { ns } => {
                fnv(&mut h, 15);
                fnv(&mut h, *ns)
            }
            Ev::Yield => fnv(&mut h, 16),
            Ev::Rng => fnv(&mut h, 17),
            Ev::NumCpus { n } => {
                fnv(&mut h, 18);
                fnv(&mut h, *n as u64)
            }
            Ev::CtrlC => fnv(&mut h, 19),
            Ev::StopEvent { fair_at, deadline } => {
                fnv(&mut h, 20);
                fnv(&mut h, *fair_at);
                fnv(&mut h, *deadline)
            }
            Ev::User { tag, vals } => {
                fnv(&mut h, 21);
                for b in tag.bytes() {
                    fnv(&mut h, u64::from(b));
                }
                for v in vals {
                    fnv(&mut h, *v as u64);
                }
            }
        }
        self.hash = h;
        self.n_events += 1;
        if self.cfg.keep_events {
            self.events.push(Event {
                step: self.step,
                task,
                t_ns: self.clock_ns,
                ev,
            });
        }
    }

    fn advance_clock(&mut self) {
        let d = match self.cfg.clock {
            ClockProfile::Fine => self.clock_rng.below(2_000),
            ClockProfile::Coarse => self.clock_rng.below(2_000_000),
            ClockProfile::Jumpy => {
                if self.clock_rng.chance(1, 300) {
                    // 1 s .. 3 h
                    self.clock_rng.range(1_000_000_000, 10_800_000_000_000)
                } else {
                    self.clock_rng.below(2_000_000)
                }
            }
        };
        self.clock_ns = self.clock_ns.saturating_add(d);
    }

    fn fair_now(&self) -> bool {
        self.stop_active && self.step >= self.fair_at
    }

    /// Decide who runs next among `cands` (non-empty, sorted ascending).
    fn choose(&mut self, cands: &[TaskId]) -> TaskId {
        let cur = self.current;
        if cands.len() == 1 {
            return cands[0];
        }
        self.choice_points += 1;
        let rr = |cands: &[TaskId]| *cands.iter().find(|&&t| t > cur).unwrap_or(&cands[0]);
        let pick = if let Some(tr) = self.cfg.replay.as_ref() {
            // explicit trace; once it is exhausted (or names a task that cannot run) the
            // fallback is round-robin, so that any edited trace still gives a fair schedule
            if self.replay_pos < tr.len() {
                let want = tr[self.replay_pos] as usize;
                self.replay_pos += 1;
                if cands.contains(&want) { want } else { rr(cands) }
            } else {
                rr(cands)
            }
        } else if self.fair_now() || self.cfg.strategy == Strategy::RoundRobin {
            // round robin: first candidate with id > current, else the lowest
            *cands.iter().find(|&&t| t > cur).unwrap_or(&cands[0])
        } else {
            match self.cfg.strategy.clone() {
                Strategy::Uniform | Strategy::RoundRobin => {
                    cands[self.sched_rng.below(cands.len() as u64) as usize]
                }
                Strategy::Sticky(p) => {
                    if cands.contains(&cur) && self.sched_rng.below(1000) < u64::from(p) {
                        cur
                    } else {
                        cands[self.sched_rng.below(cands.len() as u64) as usize]
                    }
                }
                Strategy::Weighted => {
                    let total: u64 = cands.iter().map(|&t| self.tasks[t].weight).sum();
                    let mut x = self.sched_rng.below(total);
                    let mut sel = cands[0];
                    for &t in cands {
                        let w = self.tasks[t].weight;
                        if x < w {
                            sel = t;
                            break;
                        }
                        x -= w;
                    }
                    sel
                }
                Strategy::Stall => {
                    if self.sched_rng.chance(1, 50) {
                        let victim = cands[self.sched_rng.below(cands.len() as u64) as usize];
                        let len = self.sched_rng.range(10, 2000);
                        self.tasks[victim].stalled_until = self.step + len;
                    }
                    let step = self.step;
                    let awake: Vec<TaskId> = cands
                        .iter()
                        .copied()
                        .filter(|&t| self.tasks[t].stalled_until <= step)
                        .collect();
                    let pool: &[TaskId] = if awake.is_empty() { cands } else { &awake };
                    pool[self.sched_rng.below(pool.len() as u64) as usize]
                }
                Strategy::Pct(_) => {
                    // aging: a task that has been runnable and passed over 300 times in a row
                    // runs now. Without it two higher-priority tasks that hand work back and
                    // forth (neither ever runs 200 steps in a row) starve everybody else for
                    // ever, which no real scheduler does — a false step-bound alarm on a rewrite
                    // with a source/sink thread pair per worker.
                    if let Some(&starved) = cands.iter().filter(|&&t| self.tasks[t].passed_over >= 300).max_by_key(|&&t| (self.tasks[t].passed_over, std::cmp::Reverse(t))) {
                        self.note_pick(cands, starved);
                        self.trace.push(starved as u32);
                        return starved;
                    }
                    if self.pct_points.contains(&self.step) || self.consecutive >= 200 {
                        // demote the current task below everything else
                        self.next_low_priority = self.next_low_priority.saturating_sub(1);
                        let lp = self.next_low_priority;
                        if cur < self.tasks.len() {
                            self.tasks[cur].priority = lp;
                        }
                    }
                    *cands
                        .iter()
                        .max_by_key(|&&t| (self.tasks[t].priority, std::cmp::Reverse(t)))
                        .unwrap()
                }
            }
        };
        self.note_pick(cands, pick);
        self.trace.push(pick as u32);
        pick
    }

    /// bookkeeping for the aging rule: how often in a row a runnable task was not chosen
    fn note_pick(&mut self, cands: &[TaskId], pick: TaskId) {
        for &t in cands {
            if t == pick {
                self.tasks[t].passed_over = 0;
            } else {
                self.tasks[t].passed_over += 1;
            }
        }
    }

    fn runnable(&self) -> Vec<TaskId> {
        self.tasks
            .iter()
            .enumerate()
            .filter(|(_, t)| t.state == TState::Runnable)
            .map(|(i, _)| i)
            .collect()
    }

    fn describe_blocked(&self) -> String {
        let mut s = String::new();
        for (i, t) in self.tasks.iter().enumerate() {
            let d = match &t.state {
                TState::Runnable => "runnable".to_string(),
                TState::Finished => continue,
                TState::BlockedRecv(c) => {
                    format!("blocked in recv(chan#{}; live senders: {})", c, self.chans[*c].senders)
                }
                TState::BlockedSend(c) => format!("blocked in send(chan#{} full)", c),
                TState::BlockedRecvUntil(c, d) => format!("blocked in recv_timeout(chan#{}, until {} ns)", c, d),
                TState::BlockedJoin(t) => format!("blocked in join(task {})", t),
                TState::BlockedLock(l) => format!("blocked on lock#{} (held by {:?}, {} readers)", l, self.locks[*l].writer, self.locks[*l].readers),
                TState::BlockedCond(c, d) => format!("waiting on condvar#{}{}", c, if d.is_some() { " (timed)" } else { "" }),
                TState::BlockedUntil(d) => format!("sleeping until {} ns", d),
                TState::BlockedPark(d) => format!("parked{}", if d.is_some() { " (timed)" } else { "" }),
            };
            if !s.is_empty() {
                s.push_str("; ");
            }
            s.push_str(&format!("task {} {}", i, d));
        }
        s
    }

    fn new_task(&mut self, parent: Option<TaskId>) -> TaskId {
        let id = self.tasks.len();
        // weights: log-uniform in [1, 30] (scaled by 1000)
        let w = (1000.0 * (30.0f64).powf(self.sched_rng.f64())) as u64;
        let priority = 1_000_000 + self.sched_rng.below(1_000_000);
        self.tasks.push(Task {
            state: TState::Runnable,
            cv: Arc::new(Condvar::new()),
            parent,
            end: None,
            steps: 0,
            weight: w.max(1),
            priority,
            stalled_until: 0,
            rng_calls: 0,
            park_token: false,
            timed_out: false,
            passed_over: 0,
        });
        id
    }

    fn deadline_of(t: &Task) -> Option<u64> {
        match t.state {
            TState::BlockedCond(_, Some(d)) | TState::BlockedUntil(d) | TState::BlockedRecvUntil(_, d) | TState::BlockedPark(Some(d)) => Some(d),
            _ => None,
        }
    }

    /// timed waits whose deadline has passed become runnable (timed out)
    fn wake_expired(&mut self) {
        let now = self.clock_ns;
        let mut expired = 0u64;
        for t in self.tasks.iter_mut() {
            if let Some(d) = Sched::deadline_of(t) {
                if d <= now {
                    t.state = TState::Runnable;
                    t.timed_out = true;
                    expired += 1;
                }
            }
        }
        // A timed wait that runs out is waiting, not work: every expiry extends the step
        // budgets by what one iteration of a polling loop costs. Otherwise a design that polls
        // with timeouts (a collector that waits 50 ms at a time for a decoder that takes an
        // hour of simulated time) would hit the step bound without being stuck — a false alarm
        // on a rewrite with a polling collector. The extension is capped, so a loop that polls
        // for ever for something that never happens still ends in a step-bound report.
        let credit = (expired * 12).min(self.cfg.max_steps.saturating_mul(60).saturating_sub(self.wait_credit));
        self.wait_credit += credit;
        if self.stop_active {
            self.stop_deadline += credit;
        }
    }

    /// nothing is runnable: jump the clock to the earliest deadline, if there is one
    fn jump_to_next_deadline(&mut self) -> bool {
        let d = self.tasks.iter().filter_map(Sched::deadline_of).min();
        match d {
            Some(d) => {
                self.clock_ns = self.clock_ns.max(d);
                self.wake_expired();
                true
            }
            None => false,
        }
    }

    fn lock_id(&mut self, addr: usize) -> usize {
        if let Some((_, id)) = self.lock_ids.iter().find(|(a, _)| *a == addr) {
            return *id;
        }
        let id = self.locks.len();
        self.locks.push(LockState::default());
        self.lock_ids.push((addr, id));
        id
    }

    fn cond_id(&mut self, addr: usize) -> usize {
        if let Some((_, id)) = self.cond_ids.iter().find(|(a, _)| *a == addr) {
            return *id;
        }
        let id = self.cond_ids.len();
        self.cond_ids.push((addr, id));
        id
    }

    fn wake_all(&self) {
        for t in &self.tasks {
            t.cv.notify_all();
        }
    }
}

impl Shared {
    fn lock(&self) -> MutexGuard<'_, Sched> {
        match self.sched.lock() {
            Ok(g) => g,
            Err(p) => p.into_inner(),
        }
    }
}

fn unwind_abort() -> ! {
    resume_unwind(Box::new(SimAbort))
}

/// Core: account one scheduling step, pick the next task and hand the baton over.
/// `me_runnable` tells whether the caller stays in the runnable set. Returns with the lock
/// held and the caller owning the baton again. Unwinds with `SimAbort` when the simulation
/// is being torn down.
fn reschedule<'a>(sh: &'a Shared, mut g: MutexGuard<'a, Sched>, me: TaskId) -> MutexGuard<'a, Sched> {
    if g.aborted.is_some() {
        drop(g);
        if std::thread::panicking() {
            // already unwinding (a Drop impl reached a yield point): do nothing
            return sh.lock();
        }
        unwind_abort();
    }
    g.step += 1;
    g.tasks[me].steps += 1;
    g.advance_clock();
    if g.step > g.cfg.max_steps + g.wait_credit {
        let msg = format!("global step bound {} exceeded; {}", g.cfg.max_steps, g.describe_blocked());
        g.aborted = Some(Abort::StepBound(msg));
        g.wake_all();
        drop(g);
        if std::thread::panicking() {
            // a Drop impl of an unwinding task reached a yield point: no second panic
            return sh.lock();
        }
        unwind_abort();
    }
    if g.stop_active && g.step > g.stop_deadline {
        let msg = format!(
            "no progress within {} fair steps after the stop event; {}",
            g.stop_deadline - g.fair_at,
            g.describe_blocked()
        );
        g.aborted = Some(Abort::StepBound(msg));
        g.wake_all();
        drop(g);
        if std::thread::panicking() {
            // a Drop impl of an unwinding task reached a yield point: no second panic
            return sh.lock();
        }
        unwind_abort();
    }
    g.wake_expired();
    let mut cands = g.runnable();
    if cands.is_empty() && g.jump_to_next_deadline() {
        cands = g.runnable();
    }
    if cands.is_empty() {
        let msg = g.describe_blocked();
        g.aborted = Some(Abort::Deadlock(msg));
        g.wake_all();
        drop(g);
        if std::thread::panicking() {
            // a Drop impl of an unwinding task reached a yield point: no second panic
            return sh.lock();
        }
        unwind_abort();
    }
    let next = g.choose(&cands);
    if next == me {
        g.consecutive += 1;
        return g;
    }
    g.consecutive = 0;
    g.current = next;
    g.tasks[next].cv.notify_all();
    let cv = g.tasks[me].cv.clone();
    loop {
        g = match cv.wait(g) {
            Ok(g) => g,
            Err(p) => p.into_inner(),
        };
        if g.aborted.is_some() {
            drop(g);
            if std::thread::panicking() {
                return sh.lock();
            }
            unwind_abort();
        }
        if g.current == me {
            return g;
        }
    }
}

/// A plain yield point: the caller stays runnable.
pub(crate) fn yield_point(sh: &Arc<Shared>, me: TaskId, ev: Ev) {
    let mut g = sh.lock();
    g.log(me, ev);
    let g = reschedule(sh, g, me);
    drop(g);
}

// ---------------------------------------------------------------------------
// Public API used by harness-owned stubs running inside tasks
// ---------------------------------------------------------------------------

/// Yield to the scheduler.
pub fn yield_now() {
    if let Some((sh, me)) = current() {
        yield_point(&sh, me, Ev::Yield);
    }
}

/// Advance the simulated clock by `ns` and yield.
pub fn sleep_ns(ns: u64) {
    if let Some((sh, me)) = current() {
        if ns == 0 {
            yield_point(&sh, me, Ev::Sleep { ns });
        } else {
            // the task is not runnable until the simulated clock reaches its deadline; the clock
            // moves with the other tasks' steps and jumps when nothing else can run
            sim_sleep_until(&sh, me, ns);
        }
    }
}

/// Current simulated time in nanoseconds (not an event, does not advance the clock).
pub fn peek_clock_ns() -> u64 {
    match current() {
        Some((sh, _)) => sh.lock().clock_ns,
        None => 0,
    }
}

/// Append a user event to the recorded history.
pub fn emit(tag: &'static str, vals: Vec<i64>) {
    if let Some((sh, me)) = current() {
        let mut g = sh.lock();
        g.log(me, Ev::User { tag, vals });
    }
}

/// Leave the stop phase (the root calls this when the code under test has returned and only
/// harness-side draining remains).
pub fn end_stop_phase() {
    if let Some((sh, _)) = current() {
        let mut g = sh.lock();
        g.stop_active = false;
    }
}

/// Panic with the simulator's injected-fault payload.
pub fn inject_panic() -> ! {
    std::panic::panic_any(InjectedPanic)
}

/// Number of simulated pool tasks for the rayon shim.
pub(crate) fn par_tasks() -> usize {
    match current() {
        Some((sh, _)) => sh.lock().cfg.par_tasks.max(1),
        None => 1,
    }
}

/// Draw from the schedule stream (used by shims that need a simulator-side decision).
pub(crate) fn sched_draw(n: u64) -> u64 {
    match current() {
        Some((sh, _)) => {
            let mut g = sh.lock();
            if g.cfg.replay.is_some() { 0 } else { g.sched_rng.below(n) }
        }
        None => 0,
    }
}

// ---------------------------------------------------------------------------
// Tasks
// ---------------------------------------------------------------------------

pub(crate) struct JoinSlot<T>(pub Mutex<Option<std::thread::Result<T>>>);

pub(crate) struct SimJoin<T> {
    pub(crate) sh: Arc<Shared>,
    pub(crate) target: TaskId,
    pub(crate) slot: Arc<JoinSlot<T>>,
}

/// body run by every non-root task thread
fn task_main<T: Send + 'static>(
    sh: Arc<Shared>,
    id: TaskId,
    slot: Arc<JoinSlot<T>>,
    f: impl FnOnce() -> T,
) {
    CUR.with(|c| *c.borrow_mut() = Some((sh.clone(), id)));
    // wait for the baton
    {
        let mut g = sh.lock();
        let cv = g.tasks[id].cv.clone();
        loop {
            if g.aborted.is_some() {
                g.tasks[id].state = TState::Finished;
                g.tasks[id].end = Some(TaskEnd::Unfinished("never started".into()));
                drop(g);
                CUR.with(|c| *c.borrow_mut() = None);
                return;
            }
            if g.current == id {
                break;
            }
            g = match cv.wait(g) {
                Ok(g) => g,
                Err(p) => p.into_inner(),
            };
        }
    }
    let r = catch_unwind(AssertUnwindSafe(f));
    let (end, res): (TaskEnd, Option<std::thread::Result<T>>) = match r {
        Ok(v) => (TaskEnd::Returned, Some(Ok(v))),
        Err(p) => {
            if p.is::<SimAbort>() {
                (TaskEnd::Unfinished("torn down".into()), None)
            } else {
                (payload_to_end(&*p), Some(Err(p)))
            }
        }
    };
    let panicked = matches!(end, TaskEnd::InjectedPanic | TaskEnd::Panicked(_));
    if let Some(res) = res {
        *slot.0.lock().unwrap_or_else(|p| p.into_inner()) = Some(res);
    }
    let mut g = sh.lock();
    if g.aborted.is_some() {
        g.tasks[id].state = TState::Finished;
        if g.tasks[id].end.is_none() {
            g.tasks[id].end = Some(match end {
                TaskEnd::Unfinished(_) => TaskEnd::Unfinished(String::new()),
                e => e,
            });
        }
        drop(g);
        CUR.with(|c| *c.borrow_mut() = None);
        return;
    }
    g.log(id, Ev::Finish { panicked });
    g.tasks[id].state = TState::Finished;
    g.tasks[id].end = Some(end);
    for t in g.tasks.iter_mut() {
        if t.state == TState::BlockedJoin(id) {
            t.state = TState::Runnable;
        }
    }
    // hand the baton on
    g.step += 1;
    g.advance_clock();
    g.wake_expired();
    let mut cands = g.runnable();
    if cands.is_empty() && g.jump_to_next_deadline() {
        cands = g.runnable();
    }
    if cands.is_empty() {
        let msg = g.describe_blocked();
        g.aborted = Some(Abort::Deadlock(msg));
        g.wake_all();
    } else {
        let next = g.choose(&cands);
        g.consecutive = 0;
        g.current = next;
        g.tasks[next].cv.notify_all();
    }
    drop(g);
    CUR.with(|c| *c.borrow_mut() = None);
}

pub(crate) fn sim_spawn<F, T>(sh: &Arc<Shared>, me: TaskId, f: F) -> SimJoin<T>
where
    F: FnOnce() -> T + Send + 'static,
    T: Send + 'static,
{
    // spawn is a yield point for the parent (before it takes effect)
    {
        let g = sh.lock();
        let g = reschedule(sh, g, me);
        drop(g);
    }
    let slot = Arc::new(JoinSlot(Mutex::new(None)));
    let id;
    {
        let mut g = sh.lock();
        id = g.new_task(Some(me));
        g.log(me, Ev::Spawn { child: id });
        if me == 0 && g.stop_active {
            // the root starts a new phase of work: leave the stop phase
            g.stop_active = false;
        }
    }
    let sh2 = sh.clone();
    let slot2 = slot.clone();
    let fs = simfs::current();
    let h = std::thread::Builder::new()
        .name(format!("dstsim-{}-{}", sh.sim_no, id))
        .stack_size(2 * 1024 * 1024)
        .spawn(move || {
            simfs::set(fs);
            task_main(sh2, id, slot2, f)
        })
        .expect("cannot spawn OS thread for simulated task");
    sh.os_handles.lock().unwrap().push(h);
    SimJoin {
        sh: sh.clone(),
        target: id,
        slot,
    }
}

/// Spawn a simulated task whose closure may borrow from the caller's stack.
/// The caller MUST `sim_join` it before the borrowed data goes out of scope; the OS thread is
/// additionally reaped by `scope`.
pub(crate) fn sim_spawn_scoped<'scope, 'env, F, T>(
    scope: &'scope std::thread::Scope<'scope, 'env>,
    sh: &Arc<Shared>,
    me: TaskId,
    f: F,
) -> SimJoin<T>
where
    F: FnOnce() -> T + Send + 'scope,
    T: Send + 'static,
{
    {
        let g = sh.lock();
        let g = reschedule(sh, g, me);
        drop(g);
    }
    let slot = Arc::new(JoinSlot(Mutex::new(None)));
    let id;
    {
        let mut g = sh.lock();
        id = g.new_task(Some(me));
        g.log(me, Ev::Spawn { child: id });
    }
    let sh2 = sh.clone();
    let slot2 = slot.clone();
    let fs = simfs::current();
    std::thread::Builder::new()
        .name(format!("dstsim-{}-{}", sh.sim_no, id))
        .spawn_scoped(scope, move || {
            simfs::set(fs);
            task_main(sh2, id, slot2, f)
        })
        .expect("cannot spawn OS thread for simulated task");
    SimJoin {
        sh: sh.clone(),
        target: id,
        slot,
    }
}

pub(crate) fn sim_join<T>(j: SimJoin<T>) -> std::thread::Result<T> {
    let (sh, me) = match current() {
        Some(x) if Arc::ptr_eq(&x.0, &j.sh) => x,
        _ => {
            // joined from outside its simulation (after the run): result if it is there
            let r = j.slot.0.lock().unwrap_or_else(|p| p.into_inner()).take();
            return r.unwrap_or_else(|| Err(Box::new("task did not finish inside the simulation")));
        }
    };
    let mut g = sh.lock();
    g = reschedule(&sh, g, me);
    loop {
        if g.tasks[j.target].state == TState::Finished {
            let panicked = matches!(
                g.tasks[j.target].end,
                Some(TaskEnd::InjectedPanic) | Some(TaskEnd::Panicked(_))
            );
            g.log(me, Ev::Join { target: j.target, panicked });
            drop(g);
            let r = j.slot.0.lock().unwrap_or_else(|p| p.into_inner()).take();
            return r.expect("finished task left no result");
        }
        g.tasks[me].state = TState::BlockedJoin(j.target);
        g = reschedule(&sh, g, me);
        // woken: state was set back to Runnable by the finishing task
        g.tasks[me].state = TState::Runnable;
        if g.aborted.is_some() {
            return Err(Box::new("simulation torn down"));
        }
    }
}

// ---------------------------------------------------------------------------
// Channels (metadata here, typed payload in shim.rs)
// ---------------------------------------------------------------------------

pub(crate) fn chan_new(sh: &Arc<Shared>, me: TaskId, cap: Option<usize>, elem: usize) -> ChanId {
    let mut g = sh.lock();
    let id = g.chans.len();
    g.chans.push(Chan {
        cap,
        q: VecDeque::new(),
        senders: 1,
        receiver_alive: true,
        sent: Vec::new(),
    });
    g.log(me, Ev::ChanNew { chan: id, cap, elem });
    id
}

#[allow(dead_code)]
pub(crate) enum SendOutcome {
    Full,
    Sent,
    Disconnected,
}

/// `push` is called with the scheduler lock held, exactly when the message is enqueued.
pub(crate) fn chan_send(sh: &Arc<Shared>, chan: ChanId, push: impl FnOnce()) -> SendOutcome {
    chan_send_full(sh, chan, true, push, |_| {})
}

/// `blocking = false` is `try_send` (`SendOutcome::Full` instead of waiting).
/// `withdraw(i)` is called with the scheduler lock held when a rendezvous send (capacity 0)
/// fails because the receiver went away while the message was still waiting to be taken: it
/// must take the payload at index `i` of the payload queue back.
pub(crate) fn chan_send_full(sh: &Arc<Shared>, chan: ChanId, blocking: bool, push: impl FnOnce(), withdraw: impl FnOnce(usize)) -> SendOutcome {
    let me = match current() {
        Some(x) if Arc::ptr_eq(&x.0, sh) => x.1,
        _ => {
            // outside the simulation (before/after the run): no scheduling, best effort
            let mut g = sh.lock();
            if !g.chans[chan].receiver_alive {
                return SendOutcome::Disconnected;
            }
            g.chans[chan].q.push_back((usize::MAX, 0));
            push();
            return SendOutcome::Sent;
        }
    };
    let mut g = sh.lock();
    g = reschedule(sh, g, me);
    loop {
        if !g.chans[chan].receiver_alive {
            g.log(me, Ev::SendFail { chan });
            return SendOutcome::Disconnected;
        }
        let rendezvous = g.chans[chan].cap == Some(0);
        let full = match g.chans[chan].cap {
            // rendezvous: a blocking send may always offer its message (and then waits until it
            // is taken); a try_send succeeds only if the receiver is waiting right now
            Some(0) => !blocking && !(g.chans[chan].q.is_empty() && g.tasks.iter().any(|t| t.state == TState::BlockedRecv(chan) || matches!(t.state, TState::BlockedRecvUntil(c, _) if c == chan))),
            Some(c) => g.chans[chan].q.len() >= c,
            None => false,
        };
        if full && !blocking {
            g.log(me, Ev::User { tag: "try-send-full", vals: vec![chan as i64] });
            return SendOutcome::Full;
        }
        if !full {
            let seq = {
                let ch = &mut g.chans[chan];
                match ch.sent.iter_mut().find(|(t, _)| *t == me) {
                    Some((_, n)) => {
                        *n += 1;
                        *n - 1
                    }
                    None => {
                        ch.sent.push((me, 1));
                        0
                    }
                }
            };
            g.chans[chan].q.push_back((me, seq));
            push();
            // stop-phase rule
            if g.cfg.stop_rule && me == 0 && g.chans[chan].cap.is_some() && !g.stop_active {
                let delay = if g.cfg.replay.is_some() {
                    // explicit trace: never an earlier deadline than the run it came from
                    g.cfg.stop_delay_max
                } else {
                    let m = g.cfg.stop_delay_max;
                    g.sched_rng.below(m + 1)
                };
                g.stop_active = true;
                g.fair_at = g.step + delay;
                g.stop_deadline = g.fair_at + g.cfg.stop_bound;
                let (fair_at, deadline) = (g.fair_at, g.stop_deadline);
                g.log(me, Ev::StopEvent { fair_at, deadline });
            }
            g.log(me, Ev::Send { chan, seq });
            for t in g.tasks.iter_mut() {
                if t.state == TState::BlockedRecv(chan) || matches!(t.state, TState::BlockedRecvUntil(c, _) if c == chan) {
                    t.state = TState::Runnable;
                }
            }
            if rendezvous && blocking {
                // the send returns only once the message has been taken; if the receiver goes
                // away first, the message comes back with the error
                let mut withdraw = Some(withdraw);
                loop {
                    let pos = g.chans[chan].q.iter().position(|&(t, s)| t == me && s == seq);
                    let Some(pos) = pos else { return SendOutcome::Sent };
                    if !g.chans[chan].receiver_alive || g.aborted.is_some() {
                        g.chans[chan].q.remove(pos);
                        if let Some(w) = withdraw.take() {
                            w(pos);
                        }
                        g.log(me, Ev::SendFail { chan });
                        return SendOutcome::Disconnected;
                    }
                    g.tasks[me].state = TState::BlockedSend(chan);
                    g = reschedule(sh, g, me);
                    g.tasks[me].state = TState::Runnable;
                }
            }
            return SendOutcome::Sent;
        }
        g.tasks[me].state = TState::BlockedSend(chan);
        g = reschedule(sh, g, me);
        g.tasks[me].state = TState::Runnable;
        if g.aborted.is_some() {
            return SendOutcome::Disconnected;
        }
    }
}

pub(crate) enum RecvOutcome {
    Got,
    Disconnected,
    Empty,
}

/// `pop` is called with the scheduler lock held, exactly when a message is dequeued.
pub(crate) fn chan_recv(sh: &Arc<Shared>, chan: ChanId, blocking: bool, pop: impl FnOnce()) -> RecvOutcome {
    chan_recv_deadline(sh, chan, blocking, None, pop)
}

/// `timeout_ns`: give up (RecvOutcome::Empty) once that much simulated time has passed.
pub(crate) fn chan_recv_deadline(sh: &Arc<Shared>, chan: ChanId, blocking: bool, timeout_ns: Option<u64>, pop: impl FnOnce()) -> RecvOutcome {
    let me = match current() {
        Some(x) if Arc::ptr_eq(&x.0, sh) => x.1,
        _ => {
            let mut g = sh.lock();
            return if g.chans[chan].q.pop_front().is_some() {
                pop();
                RecvOutcome::Got
            } else if g.chans[chan].senders == 0 {
                RecvOutcome::Disconnected
            } else {
                RecvOutcome::Empty
            };
        }
    };
    let mut g = sh.lock();
    g = reschedule(sh, g, me);
    let deadline = timeout_ns.map(|d| g.clock_ns.saturating_add(d));
    loop {
        if let Some((from, seq)) = g.chans[chan].q.pop_front() {
            pop();
            if blocking {
                g.log(me, Ev::Recv { chan, from, seq });
            } else {
                g.log(me, Ev::TryRecvOk { chan, from, seq });
            }
            if g.chans[chan].cap.is_some() {
                for t in g.tasks.iter_mut() {
                    if t.state == TState::BlockedSend(chan) {
                        t.state = TState::Runnable;
                    }
                }
            }
            return RecvOutcome::Got;
        }
        if g.chans[chan].senders == 0 {
            if blocking {
                g.log(me, Ev::RecvDisc { chan });
            } else {
                g.log(me, Ev::TryRecvDisc { chan });
            }
            return RecvOutcome::Disconnected;
        }
        if !blocking {
            g.log(me, Ev::TryRecvEmpty { chan });
            return RecvOutcome::Empty;
        }
        if let Some(d) = deadline {
            if g.clock_ns >= d {
                g.log(me, Ev::User { tag: "recv-timeout", vals: vec![chan as i64] });
                return RecvOutcome::Empty;
            }
            g.tasks[me].state = TState::BlockedRecvUntil(chan, d);
        } else {
            g.tasks[me].state = TState::BlockedRecv(chan);
        }
        g = reschedule(sh, g, me);
        g.tasks[me].state = TState::Runnable;
        g.tasks[me].timed_out = false;
        if g.aborted.is_some() {
            return RecvOutcome::Disconnected;
        }
    }
}

pub(crate) fn chan_sender_clone(sh: &Arc<Shared>, chan: ChanId) {
    let mut g = sh.lock();
    g.chans[chan].senders += 1;
}

pub(crate) fn chan_sender_drop(sh: &Arc<Shared>, chan: ChanId) {
    let me = current().filter(|x| Arc::ptr_eq(&x.0, sh)).map(|x| x.1);
    let mut g = sh.lock();
    g.chans[chan].senders -= 1;
    let left = g.chans[chan].senders;
    if let Some(me) = me {
        g.log(me, Ev::SenderDrop { chan, left });
    }
    if left == 0 {
        for t in g.tasks.iter_mut() {
            if t.state == TState::BlockedRecv(chan) || matches!(t.state, TState::BlockedRecvUntil(c, _) if c == chan) {
                t.state = TState::Runnable;
            }
        }
    }
}

pub(crate) fn chan_receiver_drop(sh: &Arc<Shared>, chan: ChanId) {
    let me = current().filter(|x| Arc::ptr_eq(&x.0, sh)).map(|x| x.1);
    let mut g = sh.lock();
    g.chans[chan].receiver_alive = false;
    if let Some(me) = me {
        g.log(me, Ev::ReceiverDrop { chan });
    }
    for t in g.tasks.iter_mut() {
        if t.state == TState::BlockedSend(chan) {
            t.state = TState::Runnable;
        }
    }
}

// ---------------------------------------------------------------------------
// Locks, condition variables, timed waits
// ---------------------------------------------------------------------------

/// Acquire a simulated lock (exclusive or shared); a yield point. Returns the lock id, or
/// None when the simulation is being torn down (the caller then just takes the real lock).
pub(crate) fn sim_lock(sh: &Arc<Shared>, me: TaskId, addr: usize, shared: bool, try_only: bool) -> Result<Option<usize>, ()> {
    let mut g = sh.lock();
    g = reschedule(sh, g, me);
    loop {
        if g.aborted.is_some() {
            return Ok(None);
        }
        let id = g.lock_id(addr);
        let free = if shared { g.locks[id].writer.is_none() } else { g.locks[id].writer.is_none() && g.locks[id].readers == 0 };
        if free {
            if shared {
                g.locks[id].readers += 1;
            } else {
                g.locks[id].writer = Some(me);
            }
            g.log(me, Ev::User { tag: "lock", vals: vec![id as i64, i64::from(shared)] });
            return Ok(Some(id));
        }
        if try_only {
            g.log(me, Ev::User { tag: "try-lock-busy", vals: vec![id as i64] });
            return Err(());
        }
        g.tasks[me].state = TState::BlockedLock(id);
        g = reschedule(sh, g, me);
        g.tasks[me].state = TState::Runnable;
    }
}

/// Release a simulated lock (never a yield point: runs in Drop).
pub(crate) fn sim_unlock(sh: &Arc<Shared>, id: usize, shared: bool) {
    let me = current().filter(|x| Arc::ptr_eq(&x.0, sh)).map(|x| x.1);
    let mut g = sh.lock();
    if shared {
        g.locks[id].readers = g.locks[id].readers.saturating_sub(1);
    } else {
        g.locks[id].writer = None;
    }
    if let Some(me) = me {
        g.log(me, Ev::User { tag: "unlock", vals: vec![id as i64, i64::from(shared)] });
    }
    for t in g.tasks.iter_mut() {
        if t.state == TState::BlockedLock(id) {
            t.state = TState::Runnable;
        }
    }
}

/// Wait on a condition variable: atomically release lock `lock_id`, block until notified
/// (or until `timeout_ns` of simulated time), re-acquire. Returns true if it timed out.
pub(crate) fn sim_cond_wait(sh: &Arc<Shared>, me: TaskId, cond_addr: usize, lock_id: usize, timeout_ns: Option<u64>) -> bool {
    let mut g = sh.lock();
    let cid = g.cond_id(cond_addr);
    // release the mutex
    g.locks[lock_id].writer = None;
    for t in g.tasks.iter_mut() {
        if t.state == TState::BlockedLock(lock_id) {
            t.state = TState::Runnable;
        }
    }
    let deadline = timeout_ns.map(|d| g.clock_ns.saturating_add(d));
    g.log(me, Ev::User { tag: "cond-wait", vals: vec![cid as i64, lock_id as i64] });
    g.tasks[me].timed_out = false;
    g.tasks[me].state = TState::BlockedCond(cid, deadline);
    g = reschedule(sh, g, me);
    let timed_out = g.tasks[me].timed_out;
    g.tasks[me].timed_out = false;
    g.tasks[me].state = TState::Runnable;
    // re-acquire
    loop {
        if g.aborted.is_some() {
            return timed_out;
        }
        if g.locks[lock_id].writer.is_none() && g.locks[lock_id].readers == 0 {
            g.locks[lock_id].writer = Some(me);
            return timed_out;
        }
        g.tasks[me].state = TState::BlockedLock(lock_id);
        g = reschedule(sh, g, me);
        g.tasks[me].state = TState::Runnable;
    }
}

pub(crate) fn sim_cond_notify(sh: &Arc<Shared>, me: TaskId, cond_addr: usize, all: bool) {
    let mut g = sh.lock();
    g = reschedule(sh, g, me);
    let cid = g.cond_id(cond_addr);
    g.log(me, Ev::User { tag: "cond-notify", vals: vec![cid as i64, i64::from(all)] });
    let waiters: Vec<TaskId> = g.tasks.iter().enumerate().filter(|(_, t)| matches!(t.state, TState::BlockedCond(c, _) if c == cid)).map(|(i, _)| i).collect();
    if waiters.is_empty() {
        return;
    }
    if all {
        for w in waiters {
            g.tasks[w].state = TState::Runnable;
        }
    } else {
        // which waiter wakes is the simulator's choice
        let k = if g.cfg.replay.is_some() { 0 } else { g.sched_rng.below(waiters.len() as u64) as usize };
        g.tasks[waiters[k]].state = TState::Runnable;
    }
}

/// Block the caller until the simulated clock reaches now + ns, unless `until` tasks make it
/// runnable earlier (used by recv_timeout). Returns true if the deadline was reached.
pub(crate) fn sim_sleep_until(sh: &Arc<Shared>, me: TaskId, ns: u64) {
    let mut g = sh.lock();
    let d = g.clock_ns.saturating_add(ns);
    g.log(me, Ev::Sleep { ns });
    g.tasks[me].state = TState::BlockedUntil(d);
    g = reschedule(sh, g, me);
    g.tasks[me].state = TState::Runnable;
    g.tasks[me].timed_out = false;
}

/// `thread::park` / `park_timeout`: consume the token if it is there, else wait for `unpark`
/// (or the deadline on the simulated clock).
pub(crate) fn sim_park(sh: &Arc<Shared>, me: TaskId, timeout_ns: Option<u64>) {
    let mut g = sh.lock();
    g.log(me, Ev::User { tag: "park", vals: Vec::new() });
    if !g.tasks[me].park_token {
        let d = timeout_ns.map(|ns| g.clock_ns.saturating_add(ns));
        g.tasks[me].state = TState::BlockedPark(d);
    }
    g = reschedule(sh, g, me);
    g.tasks[me].state = TState::Runnable;
    g.tasks[me].park_token = false;
    g.tasks[me].timed_out = false;
}

/// `Thread::unpark` on the thread of a simulated task.
pub(crate) fn sim_unpark(sh: &Arc<Shared>, me: TaskId, target: TaskId) {
    let mut g = sh.lock();
    g.log(me, Ev::User { tag: "unpark", vals: vec![target as i64] });
    if target < g.tasks.len() && g.tasks[target].state != TState::Finished {
        g.tasks[target].park_token = true;
        if matches!(g.tasks[target].state, TState::BlockedPark(_)) {
            g.tasks[target].state = TState::Runnable;
        }
    }
    let g = reschedule(sh, g, me);
    drop(g);
}

/// Wait (at simulation level) until `target` has finished; no result is taken.
pub(crate) fn sim_wait_finished(sh: &Arc<Shared>, me: TaskId, target: TaskId) {
    let mut g = sh.lock();
    g = reschedule(sh, g, me);
    loop {
        if g.aborted.is_some() || g.tasks[target].state == TState::Finished {
            return;
        }
        g.tasks[me].state = TState::BlockedJoin(target);
        g = reschedule(sh, g, me);
        g.tasks[me].state = TState::Runnable;
    }
}

/// A plain yield point for shim operations that have no other effect (atomics, hints).
pub(crate) fn yield_if_sim(tag: &'static str) {
    if let Some((sh, me)) = current() {
        yield_point(&sh, me, Ev::User { tag, vals: Vec::new() });
    }
}

// ---------------------------------------------------------------------------
// Clock / entropy / misc seams
// ---------------------------------------------------------------------------

pub(crate) fn sim_now(sh: &Arc<Shared>, me: TaskId) -> u64 {
    let mut g = sh.lock();
    // every reading advances the clock a little, so two readings are never forced equal
    g.advance_clock();
    let ns = g.clock_ns;
    g.log(me, Ev::Now { ns });
    ns
}

pub(crate) fn sim_rng_seed(sh: &Arc<Shared>, me: TaskId) -> u64 {
    let mut g = sh.lock();
    // The i-th call of `rand::rng()` in the simulation gets the i-th stream. (It used to be
    // keyed by the calling task's id: two runs of the same workload then drew different frames
    // as soon as one of them had one auxiliary thread more — a false "mapping" alarm of C20 on
    // a rewrite that splits the progress thread of `ber` in two.)
    g.tasks[me].rng_calls += 1;
    let n = g.tasks.iter().map(|t| t.rng_calls).sum::<u64>() - 1;
    g.log(me, Ev::Rng);
    keyed(g.cfg.entropy_seed, &[n])
}

pub(crate) fn sim_num_cpus(sh: &Arc<Shared>, me: TaskId) -> usize {
    let mut g = sh.lock();
    let n = g.cfg.num_cpus;
    g.log(me, Ev::NumCpus { n });
    n
}

pub(crate) fn sim_ctrlc(sh: &Arc<Shared>, me: TaskId) {
    let mut g = sh.lock();
    g.log(me, Ev::CtrlC);
}

// ---------------------------------------------------------------------------
// Running a simulation
// ---------------------------------------------------------------------------

/// Run `root` as task 0 of a new simulation on the calling thread.
pub fn run<T>(cfg: Config, root: impl FnOnce() -> T) -> Outcome<T> {
    install_panic_hook();
    assert!(!in_sim(), "nested simulations are not supported");
    let sim_no = SIM_COUNTER.fetch_add(1, std::sync::atomic::Ordering::Relaxed);
    let mut sched = Sched {
        sched_rng: Stream::new(cfg.sched_seed, "schedule"),
        clock_rng: Stream::new(cfg.clock_seed, "clock"),
        cfg,
        tasks: Vec::new(),
        chans: Vec::new(),
        locks: Vec::new(),
        lock_ids: Vec::new(),
        cond_ids: Vec::new(),
        current: 0,
        step: 0,
        clock_ns: 1_000_000_000,
        replay_pos: 0,
        trace: Vec::new(),
        choice_points: 0,
        events: Vec::new(),
        n_events: 0,
        hash: 0xcbf29ce484222325,
        aborted: None,
        consecutive: 0,
        wait_credit: 0,
        stop_active: false,
        fair_at: 0,
        stop_deadline: 0,
        pct_points: Vec::new(),
        next_low_priority: 999_999,
    };
    if let Strategy::Pct(d) = sched.cfg.strategy {
        for _ in 0..d {
            let p = sched.sched_rng.below(3000);
            sched.pct_points.push(p);
        }
    }
    sched.new_task(None);
    let sh = Arc::new(Shared {
        sched: Mutex::new(sched),
        os_handles: Mutex::new(Vec::new()),
        sim_no,
    });
    CUR.with(|c| *c.borrow_mut() = Some((sh.clone(), 0)));
    let r = quiet(|| catch_unwind(AssertUnwindSafe(root)));
    // tear down
    let mut root_panic = None;
    let value = match r {
        Ok(v) => Some(v),
        Err(p) => {
            if !p.is::<SimAbort>() {
                root_panic = Some(match payload_to_end(&*p) {
                    TaskEnd::InjectedPanic => "<injected panic>".to_string(),
                    TaskEnd::Panicked(m) => m,
                    _ => String::new(),
                });
            }
            None
        }
    };
    let leaked: Vec<TaskId>;
    let abort_reason;
    {
        let mut g = sh.lock();
        leaked = g
            .tasks
            .iter()
            .enumerate()
            .skip(1)
            .filter(|(_, t)| t.state != TState::Finished)
            .map(|(i, _)| i)
            .collect();
        abort_reason = g.aborted.clone();
        if g.aborted.is_none() {
            g.log(0, Ev::Finish { panicked: root_panic.is_some() });
            g.aborted = Some(Abort::RootDone);
        }
        // describe where unfinished tasks are
        let descr: Vec<(usize, String)> = g
            .tasks
            .iter()
            .enumerate()
            .filter(|(_, t)| t.state != TState::Finished)
            .map(|(i, t)| (i, format!("{:?}", t.state)))
            .collect();
        for (i, d) in descr {
            if i != 0 && g.tasks[i].end.is_none() {
                g.tasks[i].end = Some(TaskEnd::Unfinished(d));
            }
        }
        g.tasks[0].state = TState::Finished;
        g.tasks[0].end = Some(match &root_panic {
            Some(m) => TaskEnd::Panicked(m.clone()),
            None => TaskEnd::Returned,
        });
        g.wake_all();
    }
    CUR.with(|c| *c.borrow_mut() = None);
    // reap OS threads
    loop {
        let h = sh.os_handles.lock().unwrap().pop();
        match h {
            Some(h) => {
                let _ = h.join();
            }
            None => break,
        }
    }
    let mut g = sh.lock();
    let result = match (abort_reason, value, root_panic) {
        (Some(Abort::Deadlock(m)), _, _) => RunResult::Deadlock(m),
        (Some(Abort::StepBound(m)), _, _) => RunResult::StepBound(m),
        (_, Some(v), _) => RunResult::Done(v),
        (_, None, Some(m)) => RunResult::RootPanicked(m),
        (_, None, None) => RunResult::RootPanicked("root unwound without reason".into()),
    };
    let tasks = g
        .tasks
        .iter()
        .enumerate()
        .map(|(i, t)| TaskInfo {
            id: i,
            parent: t.parent,
            end: t.end.clone().unwrap_or(TaskEnd::Unfinished(String::new())),
            steps: t.steps,
        })
        .collect();
    Outcome {
        result,
        leaked,
        events: std::mem::take(&mut g.events),
        trace: std::mem::take(&mut g.trace),
        clock_ns: g.clock_ns,
        steps: g.step,
        tasks,
        event_hash: g.hash,
        n_events: g.n_events,
        choice_points: g.choice_points,
        rng_calls: g.tasks.iter().map(|t| t.rng_calls).sum(),
    }
}
