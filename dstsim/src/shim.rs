//! Drop-in replacements for the items ldpc-toolbox takes from `std`, `rand`, `num_cpus`,
//! `ctrlc` and `rayon`. Each item checks whether the calling thread is a task of a running
//! simulation: if so it goes through the scheduler, otherwise it forwards to the real item
//! (passthrough), so a binary built with the seam behaves like the shipped one unless a
//! simulation is started around it.
//!
//! NOTE: inside this file the child module `std` shadows the extern crate, so real items
//! are always named with a leading `::`.

use crate::{
    RecvOutcome, SendOutcome, Shared, SimJoin, chan_new, chan_receiver_drop, chan_recv, chan_send,
    chan_sender_clone, chan_sender_drop, current,
};
use ::std::collections::VecDeque;
use ::std::sync::{Arc, Mutex};

// ===========================================================================
// std
// ===========================================================================
pub mod std {
    pub use ::std::*;

    pub mod thread {
        pub use ::std::thread::*;

        use crate::{SimJoin, current as sim_current, sim_join, sim_spawn};

        /// `std::thread::Thread`: a handle to a real thread or to a simulated task. Only what
        /// `park`/`unpark` hand-shakes need is modelled (`unpark`, `id`, `name`).
        #[derive(Clone)]
        pub struct Thread {
            real: Option<::std::thread::Thread>,
            sim: Option<(::std::sync::Arc<crate::Shared>, crate::TaskId)>,
        }

        impl ::std::fmt::Debug for Thread {
            fn fmt(&self, f: &mut ::std::fmt::Formatter<'_>) -> ::std::fmt::Result {
                match (&self.real, &self.sim) {
                    (_, Some((_, t))) => write!(f, "Thread(simulated task {})", t),
                    (Some(r), None) => r.fmt(f),
                    (None, None) => f.write_str("Thread(?)"),
                }
            }
        }

        impl Thread {
            pub fn unpark(&self) {
                if let (Some((sh, target)), Some((sh2, me))) = (&self.sim, sim_current()) {
                    if ::std::sync::Arc::ptr_eq(sh, &sh2) {
                        crate::sim_unpark(sh, me, *target);
                        return;
                    }
                }
                if let Some(r) = &self.real {
                    r.unpark()
                }
            }
            /// (identifies real threads only; simulated tasks that were spawned but have not
            /// started yet have no real thread to ask)
            pub fn id(&self) -> ::std::thread::ThreadId {
                match &self.real {
                    Some(r) => r.id(),
                    None => ::std::thread::current().id(),
                }
            }
            pub fn name(&self) -> Option<&str> {
                self.real.as_ref().and_then(|r| r.name())
            }
        }

        /// `std::thread::current`
        pub fn current() -> Thread {
            Thread { real: Some(::std::thread::current()), sim: sim_current() }
        }

        /// `std::thread::park`: inside a simulation a scheduling point that waits for the token.
        pub fn park() {
            match sim_current() {
                Some((sh, me)) => crate::sim_park(&sh, me, None),
                None => ::std::thread::park(),
            }
        }

        pub fn park_timeout(d: ::std::time::Duration) {
            match sim_current() {
                Some((sh, me)) => crate::sim_park(&sh, me, Some(d.as_nanos().min(u128::from(u64::MAX)) as u64)),
                None => ::std::thread::park_timeout(d),
            }
        }

        /// `std::thread::JoinHandle` or the handle of a simulated task.
        pub enum JoinHandle<T> {
            Real(::std::thread::JoinHandle<T>, Thread),
            Sim(SimJoin<T>, Thread),
        }

        fn real_handle<T>(h: ::std::thread::JoinHandle<T>) -> JoinHandle<T> {
            let t = Thread { real: Some(h.thread().clone()), sim: None };
            JoinHandle::Real(h, t)
        }

        fn sim_handle<T>(j: SimJoin<T>) -> JoinHandle<T> {
            let t = Thread { real: None, sim: Some((j.sh.clone(), j.target)) };
            JoinHandle::Sim(j, t)
        }

        impl<T> ::std::fmt::Debug for JoinHandle<T> {
            fn fmt(&self, f: &mut ::std::fmt::Formatter<'_>) -> ::std::fmt::Result {
                f.write_str("JoinHandle { .. }")
            }
        }

        impl<T> JoinHandle<T> {
            pub fn join(self) -> ::std::thread::Result<T> {
                match self {
                    JoinHandle::Real(h, _) => h.join(),
                    JoinHandle::Sim(j, _) => sim_join(j),
                }
            }
            pub fn is_finished(&self) -> bool {
                match self {
                    JoinHandle::Real(h, _) => h.is_finished(),
                    JoinHandle::Sim(j, _) => j.is_finished(),
                }
            }
            pub fn thread(&self) -> &Thread {
                match self {
                    JoinHandle::Real(_, t) | JoinHandle::Sim(_, t) => t,
                }
            }
        }

        pub fn spawn<F, T>(f: F) -> JoinHandle<T>
        where
            F: FnOnce() -> T + Send + 'static,
            T: Send + 'static,
        {
            match sim_current() {
                Some((sh, me)) => sim_handle(sim_spawn(&sh, me, f)),
                None => real_handle(::std::thread::spawn(f)),
            }
        }

        /// `std::thread::Builder` (name and stack size are honoured only for real threads)
        #[derive(Debug, Default)]
        pub struct Builder {
            name: Option<String>,
            stack_size: Option<usize>,
        }

        impl Builder {
            pub fn new() -> Builder {
                Builder::default()
            }
            pub fn name(mut self, name: String) -> Builder {
                self.name = Some(name);
                self
            }
            pub fn stack_size(mut self, size: usize) -> Builder {
                self.stack_size = Some(size);
                self
            }
            pub fn spawn<F, T>(self, f: F) -> ::std::io::Result<JoinHandle<T>>
            where
                F: FnOnce() -> T + Send + 'static,
                T: Send + 'static,
            {
                match sim_current() {
                    Some((sh, me)) => Ok(sim_handle(sim_spawn(&sh, me, f))),
                    None => {
                        let mut b = ::std::thread::Builder::new();
                        if let Some(n) = self.name {
                            b = b.name(n);
                        }
                        if let Some(s) = self.stack_size {
                            b = b.stack_size(s);
                        }
                        b.spawn(f).map(real_handle)
                    }
                }
            }
        }

        /// `std::thread::scope`: inside a simulation the scoped threads are simulated tasks.
        pub struct Scope<'scope, 'env: 'scope> {
            real: &'scope ::std::thread::Scope<'scope, 'env>,
            sim: Option<(::std::sync::Arc<crate::Shared>, crate::TaskId)>,
            spawned: ::std::sync::Mutex<Vec<crate::TaskId>>,
        }

        pub enum ScopedJoinHandle<'scope, T> {
            Real(::std::thread::ScopedJoinHandle<'scope, T>, Thread),
            Sim(SimJoin<T>, Thread),
        }

        impl<T> ScopedJoinHandle<'_, T> {
            pub fn join(self) -> ::std::thread::Result<T> {
                match self {
                    ScopedJoinHandle::Real(h, _) => h.join(),
                    ScopedJoinHandle::Sim(j, _) => sim_join(j),
                }
            }
            pub fn is_finished(&self) -> bool {
                match self {
                    ScopedJoinHandle::Real(h, _) => h.is_finished(),
                    ScopedJoinHandle::Sim(j, _) => j.is_finished(),
                }
            }
            pub fn thread(&self) -> &Thread {
                match self {
                    ScopedJoinHandle::Real(_, t) | ScopedJoinHandle::Sim(_, t) => t,
                }
            }
        }

        impl<'scope, 'env> Scope<'scope, 'env> {
            pub fn spawn<F, T>(&'scope self, f: F) -> ScopedJoinHandle<'scope, T>
            where
                F: FnOnce() -> T + Send + 'scope,
                T: Send + 'static,
            {
                match &self.sim {
                    Some((sh, me)) => {
                        let j = crate::sim_spawn_scoped(self.real, sh, *me, f);
                        self.spawned.lock().unwrap().push(j.target);
                        let t = Thread { real: None, sim: Some((j.sh.clone(), j.target)) };
                        ScopedJoinHandle::Sim(j, t)
                    }
                    None => {
                        let h = self.real.spawn(f);
                        let t = Thread { real: Some(h.thread().clone()), sim: None };
                        ScopedJoinHandle::Real(h, t)
                    }
                }
            }
        }

        pub fn scope<'env, F, T>(f: F) -> T
        where
            F: for<'scope> FnOnce(&'scope Scope<'scope, 'env>) -> T,
        {
            ::std::thread::scope(|real| {
                let sc = Scope { real, sim: sim_current(), spawned: ::std::sync::Mutex::new(Vec::new()) };
                // SAFETY of lifetimes: `sc` lives until the end of this closure, i.e. inside the
                // real scope; the reference handed to `f` is shortened accordingly by transmute
                // because a local cannot be borrowed for the whole of 'scope.
                let sc_ref: &Scope<'_, 'env> = unsafe { ::std::mem::transmute(&sc) };
                // Implicit join of everything spawned in the scope, at simulation level — in a
                // drop guard, because it must also happen when `f` unwinds: the real scope then
                // waits for the spawned threads with a real `park`, and a task that parks for
                // real while it holds the baton stops the whole simulation (found with rewrite
                // C13-p3-1 under a disk-full fault: its collector panics inside the scope,
                // which drops the receiver and so releases the workers — if they ever run).
                struct JoinAll<'a, 'scope, 'env>(&'a Scope<'scope, 'env>);
                impl Drop for JoinAll<'_, '_, '_> {
                    fn drop(&mut self) {
                        if let Some((sh, me)) = &self.0.sim {
                            let ids: Vec<crate::TaskId> = match self.0.spawned.lock() {
                                Ok(g) => g.clone(),
                                Err(p) => p.into_inner().clone(),
                            };
                            for t in ids {
                                crate::sim_wait_finished(sh, *me, t);
                            }
                        }
                    }
                }
                let _join_all = JoinAll(sc_ref);
                f(sc_ref)
            })
        }

        pub fn sleep(d: ::std::time::Duration) {
            if crate::in_sim() {
                crate::sleep_ns(d.as_nanos().min(u128::from(u64::MAX)) as u64);
            } else {
                ::std::thread::sleep(d)
            }
        }

        pub fn yield_now() {
            if crate::in_sim() {
                crate::yield_now();
            } else {
                ::std::thread::yield_now()
            }
        }
    }


    /// `std::fs` with a fault-injecting `File` (see `crate::simfs`). Files are real files; when
    /// the calling thread has an `FsSim` installed every open/create/read/write/flush first asks
    /// it whether to proceed, transfer less, or fail. Without an `FsSim` everything forwards.
    pub mod fs {
        pub use ::std::fs::{
            DirBuilder, DirEntry, FileTimes, FileType, Metadata, Permissions, ReadDir, canonicalize, copy, create_dir, create_dir_all, exists,
            hard_link, metadata, read_dir, read_link, remove_dir, remove_dir_all, remove_file, rename, set_permissions, symlink_metadata,
        };

        use crate::simfs::{Decision, FsSim, OpKind};
        use ::std::io::{self, Read, Seek, SeekFrom, Write};
        use ::std::path::{Path, PathBuf};
        use ::std::sync::Arc;

        #[derive(Debug)]
        pub struct File {
            inner: ::std::fs::File,
            tap: Option<(Arc<FsSim>, PathBuf)>,
        }

        impl ::std::fmt::Debug for FsSim {
            fn fmt(&self, f: &mut ::std::fmt::Formatter<'_>) -> ::std::fmt::Result {
                f.write_str("FsSim")
            }
        }

        fn gate(fs: &Option<Arc<FsSim>>, path: &Path, kind: OpKind) -> io::Result<()> {
            if let Some(fs) = fs {
                crate::yield_if_sim("fs-open");
                let (d, idx, inj) = fs.before(path, kind, 0);
                if let Decision::Fail(e) = d {
                    fs.after(path, kind, idx, 0, Err(e.to_string()), inj);
                    return Err(e);
                }
                fs.after(path, kind, idx, 0, Ok(0), inj);
            }
            Ok(())
        }

        impl File {
            fn wrap(inner: ::std::fs::File, fs: Option<Arc<FsSim>>, path: &Path) -> File {
                File { inner, tap: fs.map(|f| (f, path.to_path_buf())) }
            }
            pub fn open<P: AsRef<Path>>(path: P) -> io::Result<File> {
                let fs = crate::simfs::current();
                gate(&fs, path.as_ref(), OpKind::Open)?;
                ::std::fs::File::open(path.as_ref()).map(|f| File::wrap(f, fs, path.as_ref()))
            }
            pub fn create<P: AsRef<Path>>(path: P) -> io::Result<File> {
                let fs = crate::simfs::current();
                gate(&fs, path.as_ref(), OpKind::Create)?;
                ::std::fs::File::create(path.as_ref()).map(|f| File::wrap(f, fs, path.as_ref()))
            }
            pub fn create_new<P: AsRef<Path>>(path: P) -> io::Result<File> {
                let fs = crate::simfs::current();
                gate(&fs, path.as_ref(), OpKind::Create)?;
                ::std::fs::File::create_new(path.as_ref()).map(|f| File::wrap(f, fs, path.as_ref()))
            }
            pub fn options() -> OpenOptions {
                OpenOptions::new()
            }
            pub fn sync_all(&self) -> io::Result<()> {
                self.ctl(OpKind::Sync)?;
                self.inner.sync_all()
            }
            pub fn sync_data(&self) -> io::Result<()> {
                self.ctl(OpKind::Sync)?;
                self.inner.sync_data()
            }
            pub fn set_len(&self, size: u64) -> io::Result<()> {
                self.inner.set_len(size)
            }
            pub fn metadata(&self) -> io::Result<::std::fs::Metadata> {
                self.inner.metadata()
            }
            pub fn try_clone(&self) -> io::Result<File> {
                Ok(File { inner: self.inner.try_clone()?, tap: self.tap.clone() })
            }
            pub fn set_permissions(&self, perm: ::std::fs::Permissions) -> io::Result<()> {
                self.inner.set_permissions(perm)
            }
            fn ctl(&self, kind: OpKind) -> io::Result<()> {
                if let Some((fs, path)) = &self.tap {
                    crate::yield_if_sim("fs-ctl");
                    let (d, idx, inj) = fs.before(path, kind, 0);
                    if let Decision::Fail(e) = d {
                        fs.after(path, kind, idx, 0, Err(e.to_string()), inj);
                        return Err(e);
                    }
                    fs.after(path, kind, idx, 0, Ok(0), inj);
                }
                Ok(())
            }
            fn do_read(&self, buf: &mut [u8]) -> io::Result<usize> {
                match &self.tap {
                    None => (&self.inner).read(buf),
                    Some((fs, path)) => {
                        crate::yield_if_sim("fs-read");
                        let (d, idx, inj) = fs.before(path, OpKind::Read, buf.len());
                        let r = match d {
                            Decision::Fail(e) => Err(e),
                            Decision::Proceed(n) => (&self.inner).read(&mut buf[..n]),
                        };
                        fs.after(path, OpKind::Read, idx, buf.len(), r.as_ref().map(|n| *n).map_err(|e| e.to_string()), inj);
                        r
                    }
                }
            }
            fn do_write(&self, buf: &[u8]) -> io::Result<usize> {
                match &self.tap {
                    None => (&self.inner).write(buf),
                    Some((fs, path)) => {
                        crate::yield_if_sim("fs-write");
                        let (d, idx, inj) = fs.before(path, OpKind::Write, buf.len());
                        let r = match d {
                            Decision::Fail(e) => Err(e),
                            Decision::Proceed(n) => (&self.inner).write(&buf[..n]),
                        };
                        fs.after(path, OpKind::Write, idx, buf.len(), r.as_ref().map(|n| *n).map_err(|e| e.to_string()), inj);
                        r
                    }
                }
            }
            fn do_flush(&self) -> io::Result<()> {
                self.ctl(OpKind::Flush)?;
                (&self.inner).flush()
            }
        }

        impl Read for File {
            fn read(&mut self, buf: &mut [u8]) -> io::Result<usize> {
                self.do_read(buf)
            }
        }
        impl Read for &File {
            fn read(&mut self, buf: &mut [u8]) -> io::Result<usize> {
                self.do_read(buf)
            }
        }
        impl Write for File {
            fn write(&mut self, buf: &[u8]) -> io::Result<usize> {
                self.do_write(buf)
            }
            fn flush(&mut self) -> io::Result<()> {
                self.do_flush()
            }
        }
        impl Write for &File {
            fn write(&mut self, buf: &[u8]) -> io::Result<usize> {
                self.do_write(buf)
            }
            fn flush(&mut self) -> io::Result<()> {
                self.do_flush()
            }
        }
        impl Seek for File {
            fn seek(&mut self, pos: SeekFrom) -> io::Result<u64> {
                self.inner.seek(pos)
            }
        }
        impl Seek for &File {
            fn seek(&mut self, pos: SeekFrom) -> io::Result<u64> {
                (&self.inner).seek(pos)
            }
        }
        impl ::std::os::fd::AsRawFd for File {
            fn as_raw_fd(&self) -> ::std::os::fd::RawFd {
                self.inner.as_raw_fd()
            }
        }
        impl ::std::os::fd::AsFd for File {
            fn as_fd(&self) -> ::std::os::fd::BorrowedFd<'_> {
                self.inner.as_fd()
            }
        }
        impl From<File> for ::std::process::Stdio {
            fn from(f: File) -> ::std::process::Stdio {
                f.inner.into()
            }
        }

        /// `std::fs::OpenOptions` producing shim files.
        #[derive(Clone, Debug)]
        pub struct OpenOptions {
            inner: ::std::fs::OpenOptions,
            creates: bool,
        }
        impl Default for OpenOptions {
            fn default() -> Self {
                OpenOptions::new()
            }
        }
        impl OpenOptions {
            pub fn new() -> OpenOptions {
                OpenOptions { inner: ::std::fs::OpenOptions::new(), creates: false }
            }
            pub fn read(&mut self, v: bool) -> &mut Self {
                self.inner.read(v);
                self
            }
            pub fn write(&mut self, v: bool) -> &mut Self {
                self.inner.write(v);
                self
            }
            pub fn append(&mut self, v: bool) -> &mut Self {
                self.inner.append(v);
                self
            }
            pub fn truncate(&mut self, v: bool) -> &mut Self {
                self.inner.truncate(v);
                self
            }
            pub fn create(&mut self, v: bool) -> &mut Self {
                self.inner.create(v);
                self.creates = self.creates || v;
                self
            }
            pub fn create_new(&mut self, v: bool) -> &mut Self {
                self.inner.create_new(v);
                self.creates = self.creates || v;
                self
            }
            pub fn open<P: AsRef<Path>>(&self, path: P) -> io::Result<File> {
                let fs = crate::simfs::current();
                gate(&fs, path.as_ref(), if self.creates { OpKind::Create } else { OpKind::Open })?;
                self.inner.open(path.as_ref()).map(|f| File::wrap(f, fs, path.as_ref()))
            }
        }

        pub fn read<P: AsRef<Path>>(path: P) -> io::Result<Vec<u8>> {
            let mut f = File::open(path)?;
            let mut v = Vec::new();
            f.read_to_end(&mut v)?;
            Ok(v)
        }
        pub fn read_to_string<P: AsRef<Path>>(path: P) -> io::Result<String> {
            let mut f = File::open(path)?;
            let mut s = String::new();
            f.read_to_string(&mut s)?;
            Ok(s)
        }
        pub fn write<P: AsRef<Path>, C: AsRef<[u8]>>(path: P, contents: C) -> io::Result<()> {
            let mut f = File::create(path)?;
            f.write_all(contents.as_ref())
        }
    }

    pub mod hint {
        pub use ::std::hint::*;

        pub fn spin_loop() {
            if crate::in_sim() {
                crate::yield_if_sim("spin-loop");
            } else {
                ::std::hint::spin_loop()
            }
        }
    }

    pub mod sync {
        pub use ::std::sync::*;

        pub use super::super::locks::{Condvar, Mutex, MutexGuard, RwLock, RwLockReadGuard, RwLockWriteGuard};

        /// `std::sync::Barrier` on top of the simulated Mutex and Condvar (the real one would
        /// block for real with the baton in hand).
        #[derive(Debug)]
        pub struct Barrier {
            state: Mutex<(usize, usize)>,
            cv: Condvar,
            n: usize,
        }

        #[derive(Debug)]
        pub struct BarrierWaitResult(bool);

        impl BarrierWaitResult {
            pub fn is_leader(&self) -> bool {
                self.0
            }
        }

        impl Barrier {
            pub fn new(n: usize) -> Barrier {
                Barrier { state: Mutex::new((0, 0)), cv: Condvar::new(), n }
            }
            pub fn wait(&self) -> BarrierWaitResult {
                let mut g = self.state.lock().unwrap_or_else(|p| p.into_inner());
                let generation = g.1;
                g.0 += 1;
                if g.0 < self.n {
                    while g.1 == generation {
                        g = self.cv.wait(g).unwrap_or_else(|p| p.into_inner());
                    }
                    BarrierWaitResult(false)
                } else {
                    g.0 = 0;
                    g.1 = g.1.wrapping_add(1);
                    self.cv.notify_all();
                    BarrierWaitResult(true)
                }
            }
        }

        pub mod atomic {
            pub use ::std::sync::atomic::{Ordering, compiler_fence};

            pub fn fence(order: Ordering) {
                crate::yield_if_sim("fence");
                ::std::sync::atomic::fence(order)
            }

            macro_rules! shim_atomic_int {
                ($name:ident, $t:ty) => {
                    /// Atomic whose every operation is a yield point inside a simulation.
                    #[derive(Debug, Default)]
                    pub struct $name(::std::sync::atomic::$name);
                    impl $name {
                        pub const fn new(v: $t) -> Self {
                            Self(::std::sync::atomic::$name::new(v))
                        }
                        pub fn load(&self, o: Ordering) -> $t {
                            crate::yield_if_sim("atomic");
                            self.0.load(o)
                        }
                        pub fn store(&self, v: $t, o: Ordering) {
                            crate::yield_if_sim("atomic");
                            self.0.store(v, o)
                        }
                        pub fn swap(&self, v: $t, o: Ordering) -> $t {
                            crate::yield_if_sim("atomic");
                            self.0.swap(v, o)
                        }
                        pub fn compare_exchange(&self, c: $t, n: $t, s: Ordering, f: Ordering) -> Result<$t, $t> {
                            crate::yield_if_sim("atomic");
                            self.0.compare_exchange(c, n, s, f)
                        }
                        pub fn compare_exchange_weak(&self, c: $t, n: $t, s: Ordering, f: Ordering) -> Result<$t, $t> {
                            crate::yield_if_sim("atomic");
                            self.0.compare_exchange(c, n, s, f)
                        }
                        pub fn fetch_add(&self, v: $t, o: Ordering) -> $t {
                            crate::yield_if_sim("atomic");
                            self.0.fetch_add(v, o)
                        }
                        pub fn fetch_sub(&self, v: $t, o: Ordering) -> $t {
                            crate::yield_if_sim("atomic");
                            self.0.fetch_sub(v, o)
                        }
                        pub fn fetch_and(&self, v: $t, o: Ordering) -> $t {
                            crate::yield_if_sim("atomic");
                            self.0.fetch_and(v, o)
                        }
                        pub fn fetch_or(&self, v: $t, o: Ordering) -> $t {
                            crate::yield_if_sim("atomic");
                            self.0.fetch_or(v, o)
                        }
                        pub fn fetch_xor(&self, v: $t, o: Ordering) -> $t {
                            crate::yield_if_sim("atomic");
                            self.0.fetch_xor(v, o)
                        }
                        pub fn fetch_max(&self, v: $t, o: Ordering) -> $t {
                            crate::yield_if_sim("atomic");
                            self.0.fetch_max(v, o)
                        }
                        pub fn fetch_min(&self, v: $t, o: Ordering) -> $t {
                            crate::yield_if_sim("atomic");
                            self.0.fetch_min(v, o)
                        }
                        pub fn fetch_update<F: FnMut($t) -> Option<$t>>(&self, s: Ordering, f: Ordering, g: F) -> Result<$t, $t> {
                            crate::yield_if_sim("atomic");
                            self.0.fetch_update(s, f, g)
                        }
                        pub fn into_inner(self) -> $t {
                            self.0.into_inner()
                        }
                        pub fn get_mut(&mut self) -> &mut $t {
                            self.0.get_mut()
                        }
                    }
                    impl From<$t> for $name {
                        fn from(v: $t) -> Self {
                            Self::new(v)
                        }
                    }
                };
            }
            shim_atomic_int!(AtomicUsize, usize);
            shim_atomic_int!(AtomicIsize, isize);
            shim_atomic_int!(AtomicU64, u64);
            shim_atomic_int!(AtomicI64, i64);
            shim_atomic_int!(AtomicU32, u32);
            shim_atomic_int!(AtomicI32, i32);
            shim_atomic_int!(AtomicU16, u16);
            shim_atomic_int!(AtomicU8, u8);

            #[derive(Debug, Default)]
            pub struct AtomicBool(::std::sync::atomic::AtomicBool);
            impl AtomicBool {
                pub const fn new(v: bool) -> Self {
                    Self(::std::sync::atomic::AtomicBool::new(v))
                }
                pub fn load(&self, o: Ordering) -> bool {
                    crate::yield_if_sim("atomic");
                    self.0.load(o)
                }
                pub fn store(&self, v: bool, o: Ordering) {
                    crate::yield_if_sim("atomic");
                    self.0.store(v, o)
                }
                pub fn swap(&self, v: bool, o: Ordering) -> bool {
                    crate::yield_if_sim("atomic");
                    self.0.swap(v, o)
                }
                pub fn compare_exchange(&self, c: bool, n: bool, s: Ordering, f: Ordering) -> Result<bool, bool> {
                    crate::yield_if_sim("atomic");
                    self.0.compare_exchange(c, n, s, f)
                }
                pub fn compare_exchange_weak(&self, c: bool, n: bool, s: Ordering, f: Ordering) -> Result<bool, bool> {
                    crate::yield_if_sim("atomic");
                    self.0.compare_exchange(c, n, s, f)
                }
                pub fn fetch_and(&self, v: bool, o: Ordering) -> bool {
                    crate::yield_if_sim("atomic");
                    self.0.fetch_and(v, o)
                }
                pub fn fetch_or(&self, v: bool, o: Ordering) -> bool {
                    crate::yield_if_sim("atomic");
                    self.0.fetch_or(v, o)
                }
                pub fn fetch_xor(&self, v: bool, o: Ordering) -> bool {
                    crate::yield_if_sim("atomic");
                    self.0.fetch_xor(v, o)
                }
                pub fn into_inner(self) -> bool {
                    self.0.into_inner()
                }
                pub fn get_mut(&mut self) -> &mut bool {
                    self.0.get_mut()
                }
            }
            impl From<bool> for AtomicBool {
                fn from(v: bool) -> Self {
                    Self::new(v)
                }
            }
        }

        pub mod mpsc {
            pub use super::super::super::chan::{
                IntoIter, Iter, Receiver, Sender, SyncSender, TryIter, channel, sync_channel,
            };
            pub use ::std::sync::mpsc::{
                RecvError, RecvTimeoutError, SendError, TryRecvError, TrySendError,
            };
        }
    }

    pub mod time {
        pub use ::std::time::*;

        /// `std::time::Instant` or a reading of the simulated nanosecond clock.
        #[derive(Clone, Copy, Debug)]
        pub enum Instant {
            Real(::std::time::Instant),
            Sim(u64),
        }

        impl Instant {
            pub fn now() -> Instant {
                match crate::current() {
                    Some((sh, me)) => Instant::Sim(crate::sim_now(&sh, me)),
                    None => Instant::Real(::std::time::Instant::now()),
                }
            }
            pub fn elapsed(&self) -> Duration {
                Instant::now() - *self
            }
            pub fn duration_since(&self, earlier: Instant) -> Duration {
                *self - earlier
            }
            pub fn saturating_duration_since(&self, earlier: Instant) -> Duration {
                *self - earlier
            }
            pub fn checked_add(&self, d: Duration) -> Option<Instant> {
                Some(*self + d)
            }
            fn key(&self) -> (u8, u128) {
                match self {
                    // mixing real and simulated readings is a harness error; keep the order total
                    Instant::Real(_) => panic!("dstsim: real Instant compared inside a simulation"),
                    Instant::Sim(n) => (1, u128::from(*n)),
                }
            }
        }

        impl PartialEq for Instant {
            fn eq(&self, o: &Instant) -> bool {
                match (self, o) {
                    (Instant::Real(a), Instant::Real(b)) => a == b,
                    _ => self.key() == o.key(),
                }
            }
        }
        impl Eq for Instant {}
        impl PartialOrd for Instant {
            fn partial_cmp(&self, o: &Instant) -> Option<::std::cmp::Ordering> {
                Some(self.cmp(o))
            }
        }
        impl Ord for Instant {
            fn cmp(&self, o: &Instant) -> ::std::cmp::Ordering {
                match (self, o) {
                    (Instant::Real(a), Instant::Real(b)) => a.cmp(b),
                    _ => self.key().cmp(&o.key()),
                }
            }
        }
        impl ::std::ops::Add<Duration> for Instant {
            type Output = Instant;
            fn add(self, d: Duration) -> Instant {
                match self {
                    Instant::Real(a) => Instant::Real(a + d),
                    Instant::Sim(n) => {
                        Instant::Sim(n.saturating_add(d.as_nanos().min(u128::from(u64::MAX)) as u64))
                    }
                }
            }
        }
        impl ::std::ops::AddAssign<Duration> for Instant {
            fn add_assign(&mut self, d: Duration) {
                *self = *self + d;
            }
        }
        impl ::std::ops::Sub<Duration> for Instant {
            type Output = Instant;
            fn sub(self, d: Duration) -> Instant {
                match self {
                    Instant::Real(a) => Instant::Real(a - d),
                    Instant::Sim(n) => {
                        Instant::Sim(n.saturating_sub(d.as_nanos().min(u128::from(u64::MAX)) as u64))
                    }
                }
            }
        }
        impl ::std::ops::Sub<Instant> for Instant {
            type Output = Duration;
            fn sub(self, o: Instant) -> Duration {
                match (self, o) {
                    (Instant::Real(a), Instant::Real(b)) => a - b,
                    (Instant::Sim(a), Instant::Sim(b)) => Duration::from_nanos(a.saturating_sub(b)),
                    _ => panic!("dstsim: real and simulated Instant subtracted"),
                }
            }
        }
    }
}

impl<T> SimJoin<T> {
    pub(crate) fn is_finished(&self) -> bool {
        self.slot.0.lock().map(|g| g.is_some()).unwrap_or(true)
    }
}

// ===========================================================================
// locks and condition variables
// ===========================================================================
pub mod locks {
    use crate::{Shared, current, sim_cond_notify, sim_cond_wait, sim_lock, sim_unlock};
    use ::std::ops::{Deref, DerefMut};
    use ::std::sync::{Arc, LockResult, PoisonError, TryLockError, TryLockResult};
    use ::std::time::Duration;

    /// `std::sync::Mutex`; inside a simulation `lock` is a yield point and contention blocks
    /// the task in the simulator (never in the OS), so the baton scheduler stays in control.
    #[derive(Default)]
    pub struct Mutex<T: ?Sized> {
        key: ObjKey,
        inner: ::std::sync::Mutex<T>,
    }

    /// Identity of a lock / condition variable for the simulator. It used to be the object's
    /// address; but an address is reused when an object is freed and another allocated, and
    /// whether that happens depends on the allocator and on the other simulations running in the
    /// process — the event log (which names locks by first-use index) then differed between two
    /// runs of one seed (found by the determinism re-check on rewrites that allocate a fresh
    /// `Arc<Mutex<..>>` per Eb/N0 point). The key is drawn once per object from a process-wide
    /// counter; it is only ever used as a map key, never logged.
    #[derive(Debug, Default)]
    pub struct ObjKey(::std::sync::atomic::AtomicUsize);
    static NEXT_KEY: ::std::sync::atomic::AtomicUsize = ::std::sync::atomic::AtomicUsize::new(1);
    impl ObjKey {
        pub const fn new() -> ObjKey {
            ObjKey(::std::sync::atomic::AtomicUsize::new(0))
        }
        fn get(&self) -> usize {
            use ::std::sync::atomic::Ordering::SeqCst;
            let k = self.0.load(SeqCst);
            if k != 0 {
                return k;
            }
            let fresh = NEXT_KEY.fetch_add(1, SeqCst);
            match self.0.compare_exchange(0, fresh, SeqCst, SeqCst) {
                Ok(_) => fresh,
                Err(existing) => existing,
            }
        }
    }

    pub struct MutexGuard<'a, T: ?Sized + 'a> {
        // Option so that Condvar::wait can take the real guard apart
        real: Option<::std::sync::MutexGuard<'a, T>>,
        sim: Option<(Arc<Shared>, usize)>,
        owner: &'a Mutex<T>,
    }

    impl<T> Mutex<T> {
        pub const fn new(t: T) -> Mutex<T> {
            Mutex { key: ObjKey::new(), inner: ::std::sync::Mutex::new(t) }
        }
        pub fn into_inner(self) -> LockResult<T> {
            self.inner.into_inner()
        }
    }

    impl<T: ?Sized> Mutex<T> {
        fn addr(&self) -> usize {
            self.key.get()
        }
        fn wrap<'a>(&'a self, r: LockResult<::std::sync::MutexGuard<'a, T>>, sim: Option<(Arc<Shared>, usize)>) -> LockResult<MutexGuard<'a, T>> {
            match r {
                Ok(g) => Ok(MutexGuard { real: Some(g), sim, owner: self }),
                Err(p) => Err(PoisonError::new(MutexGuard { real: Some(p.into_inner()), sim, owner: self })),
            }
        }
        pub fn lock(&self) -> LockResult<MutexGuard<'_, T>> {
            match current() {
                Some((sh, me)) => {
                    let id = sim_lock(&sh, me, self.addr(), false, false).unwrap_or(None);
                    // the simulated lock is ours, so the real one is free
                    self.wrap(self.inner.lock(), id.map(|i| (sh, i)))
                }
                None => self.wrap(self.inner.lock(), None),
            }
        }
        pub fn try_lock(&self) -> TryLockResult<MutexGuard<'_, T>> {
            match current() {
                Some((sh, me)) => match sim_lock(&sh, me, self.addr(), false, true) {
                    Ok(id) => self.wrap(self.inner.lock(), id.map(|i| (sh, i))).map_err(TryLockError::Poisoned),
                    Err(()) => Err(TryLockError::WouldBlock),
                },
                None => match self.inner.try_lock() {
                    Ok(g) => Ok(MutexGuard { real: Some(g), sim: None, owner: self }),
                    Err(TryLockError::WouldBlock) => Err(TryLockError::WouldBlock),
                    Err(TryLockError::Poisoned(p)) => Err(TryLockError::Poisoned(PoisonError::new(MutexGuard { real: Some(p.into_inner()), sim: None, owner: self }))),
                },
            }
        }
        pub fn is_poisoned(&self) -> bool {
            self.inner.is_poisoned()
        }
        pub fn clear_poison(&self) {
            self.inner.clear_poison()
        }
        pub fn get_mut(&mut self) -> LockResult<&mut T> {
            self.inner.get_mut()
        }
    }

    impl<T> From<T> for Mutex<T> {
        fn from(t: T) -> Self {
            Mutex::new(t)
        }
    }

    impl<T: ?Sized + ::std::fmt::Debug> ::std::fmt::Debug for Mutex<T> {
        fn fmt(&self, f: &mut ::std::fmt::Formatter<'_>) -> ::std::fmt::Result {
            f.write_str("Mutex { .. }")
        }
    }

    impl<T: ?Sized> Deref for MutexGuard<'_, T> {
        type Target = T;
        fn deref(&self) -> &T {
            self.real.as_ref().unwrap()
        }
    }
    impl<T: ?Sized> DerefMut for MutexGuard<'_, T> {
        fn deref_mut(&mut self) -> &mut T {
            self.real.as_mut().unwrap()
        }
    }
    impl<T: ?Sized> Drop for MutexGuard<'_, T> {
        fn drop(&mut self) {
            // Releasing is a scheduling point *before* it takes effect: other tasks get to run
            // while the lock is still held, so a `try_lock` can find it busy and a `lock` can
            // block — otherwise a critical section without a scheduling point inside would never
            // be observed held (seeded change C16-r6-1 loses a result exactly then).
            if self.sim.is_some() {
                crate::yield_if_sim("unlock-pending");
            }
            // real guard first (it is uncontended), then the simulated one
            self.real = None;
            if let Some((sh, id)) = self.sim.take() {
                sim_unlock(&sh, id, false);
            }
        }
    }
    impl<T: ?Sized + ::std::fmt::Debug> ::std::fmt::Debug for MutexGuard<'_, T> {
        fn fmt(&self, f: &mut ::std::fmt::Formatter<'_>) -> ::std::fmt::Result {
            ::std::fmt::Debug::fmt(&**self, f)
        }
    }
    impl<T: ?Sized + ::std::fmt::Display> ::std::fmt::Display for MutexGuard<'_, T> {
        fn fmt(&self, f: &mut ::std::fmt::Formatter<'_>) -> ::std::fmt::Result {
            ::std::fmt::Display::fmt(&**self, f)
        }
    }

    /// `std::sync::RwLock`, same approach (no writer preference).
    #[derive(Default)]
    pub struct RwLock<T: ?Sized> {
        key: ObjKey,
        inner: ::std::sync::RwLock<T>,
    }
    pub struct RwLockReadGuard<'a, T: ?Sized + 'a> {
        real: Option<::std::sync::RwLockReadGuard<'a, T>>,
        sim: Option<(Arc<Shared>, usize)>,
    }
    pub struct RwLockWriteGuard<'a, T: ?Sized + 'a> {
        real: Option<::std::sync::RwLockWriteGuard<'a, T>>,
        sim: Option<(Arc<Shared>, usize)>,
    }
    impl<T> RwLock<T> {
        pub const fn new(t: T) -> RwLock<T> {
            RwLock { key: ObjKey::new(), inner: ::std::sync::RwLock::new(t) }
        }
        pub fn into_inner(self) -> LockResult<T> {
            self.inner.into_inner()
        }
    }
    impl<T: ?Sized> RwLock<T> {
        fn addr(&self) -> usize {
            self.key.get()
        }
        pub fn read(&self) -> LockResult<RwLockReadGuard<'_, T>> {
            let sim = current().and_then(|(sh, me)| sim_lock(&sh, me, self.addr(), true, false).unwrap_or(None).map(|i| (sh, i)));
            match self.inner.read() {
                Ok(g) => Ok(RwLockReadGuard { real: Some(g), sim }),
                Err(p) => Err(PoisonError::new(RwLockReadGuard { real: Some(p.into_inner()), sim })),
            }
        }
        pub fn write(&self) -> LockResult<RwLockWriteGuard<'_, T>> {
            let sim = current().and_then(|(sh, me)| sim_lock(&sh, me, self.addr(), false, false).unwrap_or(None).map(|i| (sh, i)));
            match self.inner.write() {
                Ok(g) => Ok(RwLockWriteGuard { real: Some(g), sim }),
                Err(p) => Err(PoisonError::new(RwLockWriteGuard { real: Some(p.into_inner()), sim })),
            }
        }
        pub fn is_poisoned(&self) -> bool {
            self.inner.is_poisoned()
        }
        pub fn get_mut(&mut self) -> LockResult<&mut T> {
            self.inner.get_mut()
        }
    }
    impl<T: ?Sized + ::std::fmt::Debug> ::std::fmt::Debug for RwLock<T> {
        fn fmt(&self, f: &mut ::std::fmt::Formatter<'_>) -> ::std::fmt::Result {
            f.write_str("RwLock { .. }")
        }
    }
    impl<T: ?Sized> Deref for RwLockReadGuard<'_, T> {
        type Target = T;
        fn deref(&self) -> &T {
            self.real.as_ref().unwrap()
        }
    }
    impl<T: ?Sized> Deref for RwLockWriteGuard<'_, T> {
        type Target = T;
        fn deref(&self) -> &T {
            self.real.as_ref().unwrap()
        }
    }
    impl<T: ?Sized> DerefMut for RwLockWriteGuard<'_, T> {
        fn deref_mut(&mut self) -> &mut T {
            self.real.as_mut().unwrap()
        }
    }
    impl<T: ?Sized> Drop for RwLockReadGuard<'_, T> {
        fn drop(&mut self) {
            if self.sim.is_some() {
                crate::yield_if_sim("unlock-pending");
            }
            self.real = None;
            if let Some((sh, id)) = self.sim.take() {
                sim_unlock(&sh, id, true);
            }
        }
    }
    impl<T: ?Sized> Drop for RwLockWriteGuard<'_, T> {
        fn drop(&mut self) {
            if self.sim.is_some() {
                crate::yield_if_sim("unlock-pending");
            }
            self.real = None;
            if let Some((sh, id)) = self.sim.take() {
                sim_unlock(&sh, id, false);
            }
        }
    }

    /// `std::sync::Condvar`.
    #[derive(Debug, Default)]
    pub struct Condvar {
        inner: ::std::sync::Condvar,
        key: ObjKey,
    }

    pub struct WaitTimeoutResult(bool);
    impl WaitTimeoutResult {
        pub fn timed_out(&self) -> bool {
            self.0
        }
    }

    impl Condvar {
        pub const fn new() -> Condvar {
            Condvar { inner: ::std::sync::Condvar::new(), key: ObjKey::new() }
        }
        fn addr(&self) -> usize {
            self.key.get()
        }
        fn sim_wait<'a, T>(&self, mut guard: MutexGuard<'a, T>, timeout: Option<Duration>) -> (MutexGuard<'a, T>, bool) {
            let (sh, id) = guard.sim.clone().expect("dstsim: Condvar::wait with a guard taken outside the simulation");
            let me = current().expect("dstsim: Condvar::wait outside the simulation").1;
            let owner = guard.owner;
            // give the real lock back while waiting, keep the simulated bookkeeping ourselves
            guard.real = None;
            guard.sim = None;
            drop(guard);
            let to = sim_cond_wait(&sh, me, self.addr(), id, timeout.map(|d| d.as_nanos().min(u128::from(u64::MAX)) as u64));
            let real = owner.inner.lock().unwrap_or_else(|p| p.into_inner());
            (MutexGuard { real: Some(real), sim: Some((sh, id)), owner }, to)
        }
        pub fn wait<'a, T>(&self, guard: MutexGuard<'a, T>) -> LockResult<MutexGuard<'a, T>> {
            if guard.sim.is_some() {
                return Ok(self.sim_wait(guard, None).0);
            }
            let mut guard = guard;
            let owner = guard.owner;
            let real = guard.real.take().unwrap();
            drop(guard);
            match self.inner.wait(real) {
                Ok(g) => Ok(MutexGuard { real: Some(g), sim: None, owner }),
                Err(p) => Err(PoisonError::new(MutexGuard { real: Some(p.into_inner()), sim: None, owner })),
            }
        }
        pub fn wait_while<'a, T, F: FnMut(&mut T) -> bool>(&self, mut guard: MutexGuard<'a, T>, mut condition: F) -> LockResult<MutexGuard<'a, T>> {
            while condition(&mut *guard) {
                guard = self.wait(guard)?;
            }
            Ok(guard)
        }
        pub fn wait_timeout<'a, T>(&self, guard: MutexGuard<'a, T>, dur: Duration) -> LockResult<(MutexGuard<'a, T>, WaitTimeoutResult)> {
            if guard.sim.is_some() {
                let (g, to) = self.sim_wait(guard, Some(dur));
                return Ok((g, WaitTimeoutResult(to)));
            }
            let mut guard = guard;
            let owner = guard.owner;
            let real = guard.real.take().unwrap();
            drop(guard);
            match self.inner.wait_timeout(real, dur) {
                Ok((g, r)) => Ok((MutexGuard { real: Some(g), sim: None, owner }, WaitTimeoutResult(r.timed_out()))),
                Err(p) => {
                    let (g, r) = p.into_inner();
                    Err(PoisonError::new((MutexGuard { real: Some(g), sim: None, owner }, WaitTimeoutResult(r.timed_out()))))
                }
            }
        }
        pub fn notify_one(&self) {
            match current() {
                Some((sh, me)) => sim_cond_notify(&sh, me, self.addr(), false),
                None => self.inner.notify_one(),
            }
        }
        pub fn notify_all(&self) {
            match current() {
                Some((sh, me)) => sim_cond_notify(&sh, me, self.addr(), true),
                None => self.inner.notify_all(),
            }
        }
    }
}

// ===========================================================================
// channels
// ===========================================================================
pub mod chan {
    use super::*;
    use ::std::sync::mpsc::{RecvError, SendError, TryRecvError, TrySendError};

    pub(crate) struct SimChan<T> {
        sh: Arc<Shared>,
        id: usize,
        cap: Option<usize>,
        q: Mutex<VecDeque<T>>,
    }

    pub enum Sender<T> {
        Real(::std::sync::mpsc::Sender<T>),
        Sim(SimTx<T>),
    }
    pub enum SyncSender<T> {
        Real(::std::sync::mpsc::SyncSender<T>),
        Sim(SimTx<T>),
    }
    pub enum Receiver<T> {
        Real(::std::sync::mpsc::Receiver<T>),
        Sim(SimRx<T>),
    }

    pub struct SimTx<T>(Arc<SimChan<T>>);
    pub struct SimRx<T>(Arc<SimChan<T>>);

    impl<T> SimTx<T> {
        fn send(&self, v: T) -> Result<(), SendError<T>> {
            let cell = ::std::cell::RefCell::new(Some(v));
            let out = crate::chan_send_full(
                &self.0.sh,
                self.0.id,
                true,
                || {
                    self.0.q.lock().unwrap_or_else(|p| p.into_inner()).push_back(cell.borrow_mut().take().unwrap());
                },
                |i| {
                    // rendezvous send that was never taken: the message comes back
                    *cell.borrow_mut() = self.0.q.lock().unwrap_or_else(|p| p.into_inner()).remove(i);
                },
            );
            match out {
                SendOutcome::Sent => Ok(()),
                SendOutcome::Disconnected | SendOutcome::Full => Err(SendError(cell.borrow_mut().take().expect("dstsim: undelivered message lost"))),
            }
        }
        fn try_send(&self, v: T) -> Result<(), TrySendError<T>> {
            let cell = ::std::cell::RefCell::new(Some(v));
            let out = crate::chan_send_full(
                &self.0.sh,
                self.0.id,
                false,
                || {
                    self.0.q.lock().unwrap_or_else(|p| p.into_inner()).push_back(cell.borrow_mut().take().unwrap());
                },
                |_| {},
            );
            match out {
                SendOutcome::Sent => Ok(()),
                SendOutcome::Full => Err(TrySendError::Full(cell.borrow_mut().take().unwrap())),
                SendOutcome::Disconnected => Err(TrySendError::Disconnected(cell.borrow_mut().take().unwrap())),
            }
        }
    }
    impl<T> Clone for SimTx<T> {
        fn clone(&self) -> Self {
            chan_sender_clone(&self.0.sh, self.0.id);
            SimTx(self.0.clone())
        }
    }
    /// Dropping an endpoint is a scheduling point (before it takes effect), also while the thread
    /// is unwinding: otherwise a drop would always be fused with the operation before it, and no
    /// other task could ever act between "last message handled" and "endpoint gone" — an order
    /// real threads do produce (found by the conformance test against real std and shuttle).
    fn drop_yield() {
        // (also while the thread unwinds from a panic: the scheduler never starts a second
        // panic on a thread that is already unwinding)
        crate::yield_if_sim("endpoint-drop");
    }
    impl<T> Drop for SimTx<T> {
        fn drop(&mut self) {
            drop_yield();
            chan_sender_drop(&self.0.sh, self.0.id);
        }
    }
    impl<T> Drop for SimRx<T> {
        fn drop(&mut self) {
            drop_yield();
            chan_receiver_drop(&self.0.sh, self.0.id);
            if self.0.cap == Some(0) {
                // rendezvous: whatever is queued belongs to a sender that is still blocked in
                // `send` and takes it back with the error
                return;
            }
            // drop queued payloads outside the scheduler lock
            let drained: Vec<T> = {
                let mut q = self.0.q.lock().unwrap_or_else(|p| p.into_inner());
                q.drain(..).collect()
            };
            drop(drained);
        }
    }
    impl<T> SimRx<T> {
        fn recv_inner(&self, blocking: bool) -> Result<T, TryRecvError> {
            let mut got = None;
            let out = chan_recv(&self.0.sh, self.0.id, blocking, || {
                got = self.0.q.lock().unwrap_or_else(|p| p.into_inner()).pop_front();
            });
            match out {
                RecvOutcome::Got => Ok(got.expect("dstsim: metadata and payload queues out of sync")),
                RecvOutcome::Disconnected => Err(TryRecvError::Disconnected),
                RecvOutcome::Empty => Err(TryRecvError::Empty),
            }
        }
    }

    fn sim_pair<T>(cap: Option<usize>) -> Option<(SimTx<T>, SimRx<T>)> {
        let (sh, me) = current()?;
        let id = chan_new(&sh, me, cap, ::std::mem::size_of::<T>());
        let c = Arc::new(SimChan { sh, id, cap, q: Mutex::new(VecDeque::new()) });
        Some((SimTx(c.clone()), SimRx(c)))
    }

    pub fn channel<T>() -> (Sender<T>, Receiver<T>) {
        match sim_pair(None) {
            Some((t, r)) => (Sender::Sim(t), Receiver::Sim(r)),
            None => {
                let (t, r) = ::std::sync::mpsc::channel();
                (Sender::Real(t), Receiver::Real(r))
            }
        }
    }

    /// Bounded channel. Capacity 0 is a rendezvous: `send` returns once the message is taken.
    pub fn sync_channel<T>(bound: usize) -> (SyncSender<T>, Receiver<T>) {
        match sim_pair(Some(bound)) {
            Some((t, r)) => (SyncSender::Sim(t), Receiver::Sim(r)),
            None => {
                let (t, r) = ::std::sync::mpsc::sync_channel(bound);
                (SyncSender::Real(t), Receiver::Real(r))
            }
        }
    }

    impl<T> Sender<T> {
        pub fn send(&self, v: T) -> Result<(), SendError<T>> {
            match self {
                Sender::Real(s) => s.send(v),
                Sender::Sim(s) => s.send(v),
            }
        }
        /// channel id inside the simulation (None for a real channel)
        pub fn sim_id(&self) -> Option<usize> {
            match self {
                Sender::Real(_) => None,
                Sender::Sim(s) => Some(s.0.id),
            }
        }
    }
    impl<T> SyncSender<T> {
        pub fn send(&self, v: T) -> Result<(), SendError<T>> {
            match self {
                SyncSender::Real(s) => s.send(v),
                SyncSender::Sim(s) => s.send(v),
            }
        }
        pub fn try_send(&self, v: T) -> Result<(), TrySendError<T>> {
            match self {
                SyncSender::Real(s) => s.try_send(v),
                SyncSender::Sim(s) => s.try_send(v),
            }
        }
        pub fn sim_id(&self) -> Option<usize> {
            match self {
                SyncSender::Real(_) => None,
                SyncSender::Sim(s) => Some(s.0.id),
            }
        }
    }
    impl<T> Clone for Sender<T> {
        fn clone(&self) -> Self {
            match self {
                Sender::Real(s) => Sender::Real(s.clone()),
                Sender::Sim(s) => Sender::Sim(s.clone()),
            }
        }
    }
    impl<T> Clone for SyncSender<T> {
        fn clone(&self) -> Self {
            match self {
                SyncSender::Real(s) => SyncSender::Real(s.clone()),
                SyncSender::Sim(s) => SyncSender::Sim(s.clone()),
            }
        }
    }
    impl<T> ::std::fmt::Debug for Sender<T> {
        fn fmt(&self, f: &mut ::std::fmt::Formatter<'_>) -> ::std::fmt::Result {
            f.write_str("Sender { .. }")
        }
    }
    impl<T> ::std::fmt::Debug for SyncSender<T> {
        fn fmt(&self, f: &mut ::std::fmt::Formatter<'_>) -> ::std::fmt::Result {
            f.write_str("SyncSender { .. }")
        }
    }
    impl<T> ::std::fmt::Debug for Receiver<T> {
        fn fmt(&self, f: &mut ::std::fmt::Formatter<'_>) -> ::std::fmt::Result {
            f.write_str("Receiver { .. }")
        }
    }

    impl<T> Receiver<T> {
        pub fn recv(&self) -> Result<T, RecvError> {
            match self {
                Receiver::Real(r) => r.recv(),
                Receiver::Sim(r) => r.recv_inner(true).map_err(|_| RecvError),
            }
        }
        pub fn try_recv(&self) -> Result<T, TryRecvError> {
            match self {
                Receiver::Real(r) => r.try_recv(),
                Receiver::Sim(r) => r.recv_inner(false),
            }
        }
        pub fn sim_id(&self) -> Option<usize> {
            match self {
                Receiver::Real(_) => None,
                Receiver::Sim(r) => Some(r.0.id),
            }
        }
        /// Under simulation: blocks until a message arrives, the channel disconnects or
        /// `timeout` of simulated time has passed.
        pub fn recv_timeout(&self, timeout: ::std::time::Duration) -> Result<T, ::std::sync::mpsc::RecvTimeoutError> {
            use ::std::sync::mpsc::RecvTimeoutError;
            match self {
                Receiver::Real(r) => r.recv_timeout(timeout),
                Receiver::Sim(r) => {
                    let total = timeout.as_nanos().min(u128::from(u64::MAX)) as u64;
                    let mut got = None;
                    let out = crate::chan_recv_deadline(&r.0.sh, r.0.id, true, Some(total), || {
                        got = r.0.q.lock().unwrap_or_else(|p| p.into_inner()).pop_front();
                    });
                    match out {
                        RecvOutcome::Got => Ok(got.expect("dstsim: metadata and payload queues out of sync")),
                        RecvOutcome::Disconnected => Err(RecvTimeoutError::Disconnected),
                        RecvOutcome::Empty => Err(RecvTimeoutError::Timeout),
                    }
                }
            }
        }
        pub fn iter(&self) -> Iter<'_, T> {
            Iter { rx: self }
        }
        pub fn try_iter(&self) -> TryIter<'_, T> {
            TryIter { rx: self }
        }
    }

    pub struct Iter<'a, T> {
        rx: &'a Receiver<T>,
    }
    impl<T> Iterator for Iter<'_, T> {
        type Item = T;
        fn next(&mut self) -> Option<T> {
            self.rx.recv().ok()
        }
    }
    pub struct TryIter<'a, T> {
        rx: &'a Receiver<T>,
    }
    impl<T> Iterator for TryIter<'_, T> {
        type Item = T;
        fn next(&mut self) -> Option<T> {
            self.rx.try_recv().ok()
        }
    }
    pub struct IntoIter<T> {
        rx: Receiver<T>,
    }
    impl<T> Iterator for IntoIter<T> {
        type Item = T;
        fn next(&mut self) -> Option<T> {
            self.rx.recv().ok()
        }
    }
    impl<T> IntoIterator for Receiver<T> {
        type Item = T;
        type IntoIter = IntoIter<T>;
        fn into_iter(self) -> IntoIter<T> {
            IntoIter { rx: self }
        }
    }
    impl<'a, T> IntoIterator for &'a Receiver<T> {
        type Item = T;
        type IntoIter = Iter<'a, T>;
        fn into_iter(self) -> Iter<'a, T> {
            self.iter()
        }
    }
}

// ===========================================================================
// rand
// ===========================================================================
pub mod rand {
    pub use ::rand::*;

    use ::rand::rngs::ThreadRng;
    use ::rand_chacha::ChaCha12Rng;
    use ::rand_chacha::rand_core::{RngCore, SeedableRng};

    /// What `rand::rng()` returns: the thread-local OS-seeded generator, or — inside a
    /// simulation — a ChaCha stream seeded by the simulator (which plays the OS entropy source).
    pub enum ShimRng {
        Real(ThreadRng),
        Sim(Box<ChaCha12Rng>),
    }

    impl RngCore for ShimRng {
        fn next_u32(&mut self) -> u32 {
            match self {
                ShimRng::Real(r) => r.next_u32(),
                ShimRng::Sim(r) => r.next_u32(),
            }
        }
        fn next_u64(&mut self) -> u64 {
            match self {
                ShimRng::Real(r) => r.next_u64(),
                ShimRng::Sim(r) => r.next_u64(),
            }
        }
        fn fill_bytes(&mut self, dst: &mut [u8]) {
            match self {
                ShimRng::Real(r) => r.fill_bytes(dst),
                ShimRng::Sim(r) => r.fill_bytes(dst),
            }
        }
    }

    pub fn rng() -> ShimRng {
        match crate::current() {
            Some((sh, me)) => {
                let seed = crate::sim_rng_seed(&sh, me);
                ShimRng::Sim(Box::new(ChaCha12Rng::seed_from_u64(seed)))
            }
            None => ShimRng::Real(::rand::rng()),
        }
    }
}

// ===========================================================================
// num_cpus
// ===========================================================================
pub mod num_cpus {
    pub use ::num_cpus::get_physical;

    pub fn get() -> usize {
        match crate::current() {
            Some((sh, me)) => crate::sim_num_cpus(&sh, me),
            None => ::num_cpus::get(),
        }
    }
}

// ===========================================================================
// ctrlc
// ===========================================================================
pub mod ctrlc {
    pub use ::ctrlc::*;

    pub fn set_handler<F>(user_handler: F) -> Result<(), ::ctrlc::Error>
    where
        F: FnMut() + 'static + Send,
    {
        match crate::current() {
            Some((sh, me)) => {
                // inside a simulation the process-global handler is not touched
                crate::sim_ctrlc(&sh, me);
                drop(user_handler);
                Ok(())
            }
            None => ::ctrlc::set_handler(user_handler),
        }
    }
}

// ===========================================================================
// rayon (a stub of the contract of `find_any` / `find_first` over an integer range)
// ===========================================================================
pub mod rayon {
    /// A stub of the part of rayon's contract the code under test (or a rewrite of it) is likely
    /// to use on index ranges, vectors and slices: `into_par_iter` / `par_iter`, the adaptors
    /// `map`, `filter`, `filter_map`, `with_min_len`, `with_max_len`, and the terminal operations
    /// `find_any`, `find_first`, `find_map_any`, `find_map_first`, `for_each`, `collect` (into a
    /// `Vec`, in order), `any`, `all`, `count`. Inside a simulation the items are cut into
    /// contiguous leaves, one per simulated pool task, with a scheduling point before every item
    /// (and between evaluating an item and publishing a match); outside it forwards to rayon.
    pub mod prelude {
        use crate::{Ev, current, sim_join, sim_spawn_scoped, yield_point};
        use ::rayon::prelude::{IntoParallelIterator as RealIntoPar, ParallelIterator as RealPar};
        use ::std::ops::Range;
        use ::std::sync::atomic::{AtomicBool, Ordering};

        /// Where the items come from: a length and random access.
        pub trait Source: Sync + Send {
            type Item: Send;
            fn len(&self) -> u64;
            fn get(&self, i: u64) -> Self::Item;
        }
        pub struct RangeSrc(u64, u64);
        impl Source for RangeSrc {
            type Item = u64;
            fn len(&self) -> u64 {
                self.1.saturating_sub(self.0)
            }
            fn get(&self, i: u64) -> u64 {
                self.0 + i
            }
        }
        pub struct UsizeRangeSrc(usize, usize);
        impl Source for UsizeRangeSrc {
            type Item = usize;
            fn len(&self) -> u64 {
                self.1.saturating_sub(self.0) as u64
            }
            fn get(&self, i: u64) -> usize {
                self.0 + i as usize
            }
        }
        pub struct VecSrc<T>(::std::sync::Mutex<Vec<Option<T>>>);
        impl<T: Send> Source for VecSrc<T> {
            type Item = T;
            fn len(&self) -> u64 {
                self.0.lock().unwrap().len() as u64
            }
            fn get(&self, i: u64) -> T {
                self.0.lock().unwrap()[i as usize].take().expect("dstsim rayon stub: item taken twice")
            }
        }
        pub struct SliceSrc<'a, T>(&'a [T]);
        impl<'a, T: Sync> Source for SliceSrc<'a, T> {
            type Item = &'a T;
            fn len(&self) -> u64 {
                self.0.len() as u64
            }
            fn get(&self, i: u64) -> &'a T {
                &self.0[i as usize]
            }
        }

        /// A source with a fused adaptor chain `Item -> Option<R>`.
        pub struct Par<S, F> {
            src: S,
            f: F,
        }
        /// Kept under its old name for the event logs and for code that names the type.
        pub type ParRange = Par<RangeSrc, fn(u64) -> Option<u64>>;

        fn ident<T>(x: T) -> Option<T> {
            Some(x)
        }

        /// Same method name as rayon's trait.
        pub trait IntoParallelIterator {
            type Iter;
            fn into_par_iter(self) -> Self::Iter;
        }
        impl IntoParallelIterator for Range<u64> {
            type Iter = Par<RangeSrc, fn(u64) -> Option<u64>>;
            fn into_par_iter(self) -> Self::Iter {
                Par { src: RangeSrc(self.start, self.end.max(self.start)), f: ident::<u64> }
            }
        }
        impl IntoParallelIterator for Range<usize> {
            type Iter = Par<UsizeRangeSrc, fn(usize) -> Option<usize>>;
            fn into_par_iter(self) -> Self::Iter {
                Par { src: UsizeRangeSrc(self.start, self.end.max(self.start)), f: ident::<usize> }
            }
        }
        impl<T: Send> IntoParallelIterator for Vec<T> {
            type Iter = Par<VecSrc<T>, fn(T) -> Option<T>>;
            fn into_par_iter(self) -> Self::Iter {
                Par { src: VecSrc(::std::sync::Mutex::new(self.into_iter().map(Some).collect())), f: ident::<T> }
            }
        }
        /// `par_iter()` on slices and vectors.
        pub trait IntoParallelRefIterator<'a> {
            type Iter;
            fn par_iter(&'a self) -> Self::Iter;
        }
        impl<'a, T: Sync + 'a> IntoParallelRefIterator<'a> for [T] {
            type Iter = Par<SliceSrc<'a, T>, fn(&'a T) -> Option<&'a T>>;
            fn par_iter(&'a self) -> Self::Iter {
                Par { src: SliceSrc(self), f: ident::<&'a T> }
            }
        }
        impl<'a, T: Sync + 'a> IntoParallelRefIterator<'a> for Vec<T> {
            type Iter = Par<SliceSrc<'a, T>, fn(&'a T) -> Option<&'a T>>;
            fn par_iter(&'a self) -> Self::Iter {
                Par { src: SliceSrc(&self[..]), f: ident::<&'a T> }
            }
        }

        /// What a leaf does with the items it is given.
        enum Mode {
            /// evaluate every item
            All,
            /// stop as soon as any leaf has a hit
            Any,
            /// stop when a leaf to the left has a hit
            First,
        }

        impl<S, F, R> Par<S, F>
        where
            S: Source,
            F: Fn(S::Item) -> Option<R> + Sync + Send,
            R: Send,
        {
            pub fn map<G, R2>(self, g: G) -> Par<S, impl Fn(S::Item) -> Option<R2> + Sync + Send>
            where
                G: Fn(R) -> R2 + Sync + Send,
                R2: Send,
            {
                let f = self.f;
                Par { src: self.src, f: move |x| f(x).map(&g) }
            }
            pub fn filter<P>(self, p: P) -> Par<S, impl Fn(S::Item) -> Option<R> + Sync + Send>
            where
                P: Fn(&R) -> bool + Sync + Send,
            {
                let f = self.f;
                Par { src: self.src, f: move |x| f(x).filter(|r| p(r)) }
            }
            pub fn filter_map<G, R2>(self, g: G) -> Par<S, impl Fn(S::Item) -> Option<R2> + Sync + Send>
            where
                G: Fn(R) -> Option<R2> + Sync + Send,
                R2: Send,
            {
                let f = self.f;
                Par { src: self.src, f: move |x| f(x).and_then(&g) }
            }
            pub fn with_min_len(self, _n: usize) -> Self {
                self
            }
            pub fn with_max_len(self, _n: usize) -> Self {
                self
            }

            /// Runs the pipeline; `hit` decides whether a produced value is a hit (which stops
            /// the others in the `Any` / `First` modes). Returns the produced values that were
            /// hits, in source order.
            fn drive<H>(self, mode: Mode, hit: H) -> Vec<R>
            where
                H: Fn(&R) -> bool + Sync + Send,
            {
                let len = self.src.len();
                let Some((sh, me)) = current() else {
                    // outside a simulation: the real pool, over indices
                    let (src, f) = (&self.src, &self.f);
                    let it = RealIntoPar::into_par_iter(0..len).filter_map(|i| f(src.get(i)).filter(|r| hit(r)));
                    return match mode {
                        Mode::All => it.collect(),
                        Mode::Any => it.find_any(|_| true).into_iter().collect(),
                        Mode::First => it.find_first(|_| true).into_iter().collect(),
                    };
                };
                let pool = crate::par_tasks();
                let nleaves = (pool as u64).min(len.max(1)) as usize;
                // cut points drawn by the simulator: uneven leaves, like adaptive splitting
                let mut cuts: Vec<u64> = vec![0];
                for i in 1..nleaves {
                    let even = len * i as u64 / nleaves as u64;
                    let c = match crate::sched_draw(3) {
                        0 => even,
                        1 => even.saturating_sub(1).max(*cuts.last().unwrap()),
                        _ => (even + 1).min(len),
                    };
                    cuts.push(c.max(*cuts.last().unwrap()));
                }
                cuts.push(len);
                let found_at: Vec<AtomicBool> = (0..nleaves).map(|_| AtomicBool::new(false)).collect();
                let (src, f, hit, found_at, mode) = (&self.src, &self.f, &hit, &found_at, &mode);
                let leaf = move |li: usize, lo: u64, hi: u64| -> Vec<R> {
                    let (sh, me) = current().expect("leaf outside simulation");
                    let mut out = Vec::new();
                    for i in lo..hi {
                        yield_point(&sh, me, Ev::User { tag: "par-item", vals: vec![li as i64, i as i64] });
                        let stop = match mode {
                            Mode::All => false,
                            Mode::Any => found_at.iter().any(|b| b.load(Ordering::SeqCst)),
                            Mode::First => found_at[..li].iter().any(|b| b.load(Ordering::SeqCst)),
                        };
                        if stop {
                            return out;
                        }
                        if let Some(r) = f(src.get(i)) {
                            // the item has been evaluated; publishing the result is a second step
                            yield_point(&sh, me, Ev::User { tag: "par-hit", vals: vec![li as i64, i as i64] });
                            if hit(&r) {
                                out.push(r);
                                if !matches!(mode, Mode::All) {
                                    found_at[li].store(true, Ordering::SeqCst);
                                    return out;
                                }
                            }
                        }
                    }
                    out
                };
                let leaf = &leaf;
                // (results travel through a borrowed table, not through the join handles: the
                // produced values may borrow from the caller's stack)
                let table: ::std::sync::Mutex<Vec<(usize, Vec<R>)>> = ::std::sync::Mutex::new(Vec::new());
                let table_ref = &table;
                ::std::thread::scope(|scope| {
                    let mut joins = Vec::new();
                    for li in 1..nleaves {
                        let (lo, hi) = (cuts[li], cuts[li + 1]);
                        joins.push(sim_spawn_scoped(scope, &sh, me, move || {
                            let r = leaf(li, lo, hi);
                            table_ref.lock().unwrap_or_else(|p| p.into_inner()).push((li, r));
                        }));
                    }
                    let r0 = leaf(0, cuts[0], cuts[1]);
                    table_ref.lock().unwrap_or_else(|p| p.into_inner()).push((0, r0));
                    for j in joins {
                        if let Err(e) = sim_join(j) {
                            ::std::panic::resume_unwind(e);
                        }
                    }
                });
                let mut results = table.into_inner().unwrap_or_else(|p| p.into_inner());
                results.sort_by_key(|x| x.0);
                let mut all: Vec<R> = results.into_iter().flat_map(|x| x.1).collect();
                if !matches!(mode, Mode::All) {
                    // the reduction keeps the left-most leaf's hit, as rayon's reducers do
                    all.truncate(1);
                }
                all
            }

            pub fn find_any<P>(self, p: P) -> Option<R>
            where
                P: Fn(&R) -> bool + Sync + Send,
            {
                self.drive(Mode::Any, p).into_iter().next()
            }
            pub fn find_first<P>(self, p: P) -> Option<R>
            where
                P: Fn(&R) -> bool + Sync + Send,
            {
                self.drive(Mode::First, p).into_iter().next()
            }
            pub fn find_map_any<G, R2>(self, g: G) -> Option<R2>
            where
                G: Fn(R) -> Option<R2> + Sync + Send,
                R2: Send,
            {
                self.filter_map(g).drive(Mode::Any, |_| true).into_iter().next()
            }
            pub fn find_map_first<G, R2>(self, g: G) -> Option<R2>
            where
                G: Fn(R) -> Option<R2> + Sync + Send,
                R2: Send,
            {
                self.filter_map(g).drive(Mode::First, |_| true).into_iter().next()
            }
            pub fn for_each<G>(self, g: G)
            where
                G: Fn(R) + Sync + Send,
            {
                self.map(g).drive(Mode::All, |_| true);
            }
            pub fn any<P>(self, p: P) -> bool
            where
                P: Fn(R) -> bool + Sync + Send,
            {
                !self.map(p).drive(Mode::Any, |b| *b).is_empty()
            }
            pub fn all<P>(self, p: P) -> bool
            where
                P: Fn(R) -> bool + Sync + Send,
            {
                self.map(p).drive(Mode::Any, |b| !*b).is_empty()
            }
            pub fn count(self) -> usize {
                self.drive(Mode::All, |_| true).len()
            }
            /// `collect` into a `Vec` (source order), or anything a `Vec` converts into.
            pub fn collect<C: From<Vec<R>>>(self) -> C {
                C::from(self.drive(Mode::All, |_| true))
            }
        }
    }
}
