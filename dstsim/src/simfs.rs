//! Fault-injecting file layer ("simfs").
//!
//! Files stay real files in a scratch directory (so every `std::fs` facility a program may
//! use keeps working), but every `open`/`create`/`read`/`write`/`flush` that goes through the
//! shim `std::fs::File` first asks the `FsSim` installed on the calling thread what to do:
//! proceed (possibly with a shorter buffer: short read / short write), fail with `EINTR`
//! (retryable), or fail with a hard error (`EIO`, `ENOSPC`, `EACCES`).  Every operation is
//! logged, so a harness can first run fault-free, count the operations of a run, and then
//! place one fault at every operation index (fault enumeration).
//!
//! Inside a simulation each file operation is also a scheduling point, and the `FsSim` of
//! a task is inherited by the tasks it spawns.
//!
//! Nothing here draws from a PRNG: the plan is explicit data, so a replay is a pure function
//! of the plan and the code.

use std::cell::RefCell;
use std::collections::BTreeMap;
use std::io;
use std::sync::{Arc, Mutex};

#[derive(Clone, Copy, Debug, PartialEq, Eq, PartialOrd, Ord)]
pub enum OpKind {
    Open,
    Create,
    Read,
    Write,
    Flush,
    Sync,
}

impl OpKind {
    pub fn name(&self) -> &'static str {
        match self {
            OpKind::Open => "open",
            OpKind::Create => "create",
            OpKind::Read => "read",
            OpKind::Write => "write",
            OpKind::Flush => "flush",
            OpKind::Sync => "sync",
        }
    }
    pub fn parse(s: &str) -> Option<OpKind> {
        Some(match s {
            "open" => OpKind::Open,
            "create" => OpKind::Create,
            "read" => OpKind::Read,
            "write" => OpKind::Write,
            "flush" => OpKind::Flush,
            "sync" => OpKind::Sync,
            _ => return None,
        })
    }
}

#[derive(Clone, Debug, PartialEq, Eq)]
pub enum Fault {
    /// the call transfers at most this many bytes (at least 1)
    Short(usize),
    /// `ErrorKind::Interrupted` (EINTR): the caller is expected to retry
    Interrupted,
    /// EIO
    Io,
    /// ENOSPC
    NoSpace,
    /// EACCES
    Denied,
    /// EPIPE (the reader of a pipe went away)
    BrokenPipe,
}

impl Fault {
    pub fn name(&self) -> String {
        match self {
            Fault::Short(n) => format!("short:{}", n),
            Fault::Interrupted => "eintr".into(),
            Fault::Io => "eio".into(),
            Fault::NoSpace => "enospc".into(),
            Fault::Denied => "eacces".into(),
            Fault::BrokenPipe => "epipe".into(),
        }
    }
    pub fn parse(s: &str) -> Option<Fault> {
        if let Some(n) = s.strip_prefix("short:") {
            return n.parse().ok().map(Fault::Short);
        }
        Some(match s {
            "eintr" => Fault::Interrupted,
            "eio" => Fault::Io,
            "enospc" => Fault::NoSpace,
            "eacces" => Fault::Denied,
            "epipe" => Fault::BrokenPipe,
            _ => return None,
        })
    }
    /// a fault after which the operation cannot be completed by retrying
    pub fn is_hard(&self) -> bool {
        matches!(self, Fault::Io | Fault::NoSpace | Fault::Denied | Fault::BrokenPipe)
    }
    fn to_error(&self) -> io::Error {
        match self {
            Fault::Interrupted => io::Error::from(io::ErrorKind::Interrupted),
            Fault::Io => io::Error::from_raw_os_error(5),
            Fault::NoSpace => io::Error::from_raw_os_error(28),
            Fault::Denied => io::Error::from_raw_os_error(13),
            Fault::BrokenPipe => io::Error::from_raw_os_error(32),
            Fault::Short(_) => unreachable!(),
        }
    }
}

/// One planned fault: the `index`-th operation of kind `kind` on the file whose name
/// (last path component) is `file` gets `fault`.  `sticky`: also every later one.
#[derive(Clone, Debug)]
pub struct Planned {
    pub file: String,
    pub kind: OpKind,
    pub index: u64,
    pub fault: Fault,
    pub sticky: bool,
}

#[derive(Clone, Debug)]
pub struct FsOp {
    pub file: String,
    pub kind: OpKind,
    /// index among the operations of this kind on this file name
    pub index: u64,
    pub requested: usize,
    /// bytes transferred, or the injected / real error
    pub result: Result<usize, String>,
    pub injected: Option<Fault>,
}

#[derive(Default)]
struct State {
    plan: Vec<Planned>,
    /// cyclic chunk sizes applied to every read / write of a file name (short transfers)
    read_chunks: BTreeMap<String, Vec<usize>>,
    write_chunks: BTreeMap<String, Vec<usize>>,
    counters: BTreeMap<(String, OpKind), u64>,
    log: Vec<FsOp>,
    fired: BTreeMap<String, u64>,
    /// budget of file operations for the whole run (a program that loops for ever must not
    /// fill the disk or hang the harness): beyond it every operation fails with EFBIG, beyond
    /// twice it the operation panics
    max_ops: Option<u64>,
    total_ops: u64,
    overrun: bool,
}

#[derive(Default)]
pub struct FsSim {
    st: Mutex<State>,
}

pub enum Decision {
    Proceed(usize),
    Fail(io::Error),
}

fn base(path: &std::path::Path) -> String {
    path.file_name().map(|s| s.to_string_lossy().into_owned()).unwrap_or_default()
}

impl FsSim {
    pub fn new() -> Arc<FsSim> {
        Arc::new(FsSim::default())
    }
    pub fn plan(&self, p: Planned) {
        self.st.lock().unwrap().plan.push(p);
    }
    pub fn read_chunks(&self, file: &str, chunks: Vec<usize>) {
        self.st.lock().unwrap().read_chunks.insert(file.to_string(), chunks);
    }
    pub fn write_chunks(&self, file: &str, chunks: Vec<usize>) {
        self.st.lock().unwrap().write_chunks.insert(file.to_string(), chunks);
    }
    pub fn limit_ops(&self, max_ops: u64) {
        self.st.lock().unwrap().max_ops = Some(max_ops);
    }
    /// whether the operation budget was exceeded
    pub fn overrun(&self) -> bool {
        self.st.lock().unwrap().overrun
    }
    pub fn log(&self) -> Vec<FsOp> {
        self.st.lock().unwrap().log.clone()
    }
    /// number of operations of `kind` seen on `file`
    pub fn count(&self, file: &str, kind: OpKind) -> u64 {
        *self.st.lock().unwrap().counters.get(&(file.to_string(), kind)).unwrap_or(&0)
    }
    /// fault name -> number of times it actually took effect
    pub fn fired(&self) -> BTreeMap<String, u64> {
        self.st.lock().unwrap().fired.clone()
    }
    /// whether a hard (non-retryable) fault took effect
    pub fn hard_fault_fired(&self) -> bool {
        self.st.lock().unwrap().log.iter().any(|o| o.injected.as_ref().is_some_and(|f| f.is_hard()))
    }

    /// Called by the shim before the real operation.
    pub fn before(&self, path: &std::path::Path, kind: OpKind, requested: usize) -> (Decision, u64, Option<Fault>) {
        let file = base(path);
        let mut st = self.st.lock().unwrap();
        st.total_ops += 1;
        if let Some(m) = st.max_ops {
            if st.total_ops > m {
                st.overrun = true;
                if st.total_ops > 2 * m {
                    drop(st);
                    panic!("simfs: runaway program (more than {} file operations)", 2 * m);
                }
                return (Decision::Fail(io::Error::from_raw_os_error(27)), u64::MAX, None);
            }
        }
        let c = st.counters.entry((file.clone(), kind)).or_insert(0);
        let index = *c;
        *c += 1;
        let mut fault: Option<Fault> = st
            .plan
            .iter()
            .find(|p| p.file == file && p.kind == kind && (p.index == index || (p.sticky && index >= p.index)))
            .map(|p| p.fault.clone());
        if fault.is_none() && requested > 0 {
            let chunks = match kind {
                OpKind::Read => st.read_chunks.get(&file),
                OpKind::Write => st.write_chunks.get(&file),
                _ => None,
            };
            if let Some(ch) = chunks {
                if !ch.is_empty() {
                    let n = ch[(index as usize) % ch.len()].max(1);
                    if n < requested {
                        fault = Some(Fault::Short(n));
                    }
                }
            }
        }
        let d = match &fault {
            None => Decision::Proceed(requested),
            Some(Fault::Short(n)) => {
                if matches!(kind, OpKind::Read | OpKind::Write) && requested > 0 {
                    let n = (*n).max(1).min(requested);
                    if n == requested {
                        fault = None;
                    }
                    Decision::Proceed(n)
                } else {
                    fault = None;
                    Decision::Proceed(requested)
                }
            }
            Some(f) => Decision::Fail(f.to_error()),
        };
        if let Some(f) = &fault {
            let key = match f {
                Fault::Short(_) => format!("short {}", kind.name()),
                other => format!("{} on {}", other.name(), kind.name()),
            };
            *st.fired.entry(key).or_insert(0) += 1;
        }
        (d, index, fault)
    }

    pub fn after(&self, path: &std::path::Path, kind: OpKind, index: u64, requested: usize, result: Result<usize, String>, injected: Option<Fault>) {
        let mut st = self.st.lock().unwrap();
        if st.log.len() < 100_000 {
            st.log.push(FsOp { file: base(path), kind, index, requested, result, injected });
        }
    }
}

thread_local! {
    static FS: RefCell<Option<Arc<FsSim>>> = const { RefCell::new(None) };
}

/// The `FsSim` of the calling thread, if any.
pub fn current() -> Option<Arc<FsSim>> {
    FS.with(|f| f.borrow().clone())
}

/// Install (or remove) the `FsSim` of the calling thread; returns the previous one.
pub fn set(fs: Option<Arc<FsSim>>) -> Option<Arc<FsSim>> {
    FS.with(|f| f.replace(fs))
}

/// Run `f` with `fs` installed on this thread (and on the simulated tasks spawned inside).
pub fn with<R>(fs: &Arc<FsSim>, f: impl FnOnce() -> R) -> R {
    struct Restore(Option<Arc<FsSim>>);
    impl Drop for Restore {
        fn drop(&mut self) {
            set(self.0.take());
        }
    }
    let _r = Restore(set(Some(fs.clone())));
    f()
}
