#!/bin/sh
# regen.sh: regenerate every evidence file from the checks run against /repo itself (clean tree required),
# validate manifest + evidence against the schemas.
cd /verif || exit 2
if ! git -C /repo diff --quiet; then echo "/repo working tree is not clean" >&2; exit 2; fi
rc=0
for id in C08 C10 C12 C13 C16 C17 C19 C20; do
  ./run.sh $id quick > /tmp/regen-$id.log 2>&1; c=$?
  echo "$id exit=$c $(grep -E '^(OK|VIOLATION|HARNESS)' /tmp/regen-$id.log | head -1)"
  [ $c -ne 0 ] && rc=1
done
python3-vt - <<'PY' || rc=1
import json, jsonschema, sys
jsonschema.validate(json.load(open('/verif/MANIFEST.json')), json.load(open('/root/.vp/MANIFEST.schema.json')))
for p in ['C08','C10','C12','C13','C16','C17','C19','C20']:
    jsonschema.validate(json.load(open(f'/verif/evidence/{p}.json')), json.load(open('/root/.vp/EVIDENCE.schema.json')))
print('manifest and evidence validate')
PY
exit $rc
