#!/bin/sh
# ./run.sh <ID|replay|selftest> [quick|thorough|args...]
# Rebuilds the harness (and with it /repo's current working tree, hooks on) and runs it.
cd "$(dirname "$0")" || exit 2
export CARGO_NET_OFFLINE=true
if [ "$1" = "miri" ]; then
    # the simulator's own primitives under Miri (scoped threads - the crate's one unsafe block -,
    # channels incl. rendezvous, locks, a panicking task, a deadlock torn down)
    MIRIFLAGS="-Zmiri-disable-isolation" CARGO_TARGET_DIR=/verif/target/miri exec cargo +nightly miri run -p dstsim --example miri_smoke --offline
fi
if ! cargo build --release -p harness -p ldpc-toolbox --offline -q 2>/verif/target/build.log; then
    # first attempt may race with target dir creation
    mkdir -p /verif/target
    if ! cargo build --release -p harness -p ldpc-toolbox --offline -q 2>/verif/target/build.log; then
        echo "HARNESS-ERROR: build failed (see /verif/target/build.log)" >&2
        tail -30 /verif/target/build.log >&2
        exit 2
    fi
fi
exec ./target/release/verif "$@"
