//! File-level fault injection for the command-line tool (part of `clisim`, property C20).
//!
//! `encode` is run **in-process** (`cli::Args::try_parse_from(..).run()`) on real files in a
//! scratch directory, with a `dstsim::simfs::FsSim` installed on the calling thread (hook H7
//! routes `std::fs::File` of `cli/encode.rs` through the seam).  A fault-free run is recorded
//! first; then one fault is placed at **every** operation index of that run, for every fault
//! kind that applies (fault enumeration), plus chunked short reads/writes and seeded
//! combinations:
//!
//! * transparent faults — `EINTR` on a read/write, a short read, a short write — must not
//!   change anything: same verdict, same output bytes;
//! * hard faults — `EIO` on a read, `ENOSPC`/`EIO` on a write, a failing open/create/flush —
//!   must make the subcommand return an error (never success, never a panic) and whatever
//!   reached the output file must be a prefix of the fault-free output (no garbage).

use crate::common::*;
use crate::gf2::*;
use dstsim::Stream;
use dstsim::simfs::{Fault, FsSim, OpKind, Planned};
use serde_json::{Value, json};
use std::path::Path;
use std::sync::Arc;

#[derive(Clone, Debug, Default)]
pub struct FsPlan {
    pub faults: Vec<Planned>,
    pub read_chunks: Vec<(String, Vec<usize>)>,
    pub write_chunks: Vec<(String, Vec<usize>)>,
}

impl FsPlan {
    pub fn is_empty(&self) -> bool {
        self.faults.is_empty() && self.read_chunks.is_empty() && self.write_chunks.is_empty()
    }
    pub fn one(file: &str, kind: OpKind, index: u64, fault: Fault) -> FsPlan {
        FsPlan { faults: vec![Planned { file: file.into(), kind, index, fault, sticky: false }], ..Default::default() }
    }
    pub fn to_json(&self) -> Value {
        json!({
            "faults": self.faults.iter().map(|p| json!({"file": p.file, "op": p.kind.name(), "index": p.index, "fault": p.fault.name(), "sticky": p.sticky})).collect::<Vec<_>>(),
            "read_chunks": self.read_chunks.iter().map(|(f, c)| json!({"file": f, "chunks": c})).collect::<Vec<_>>(),
            "write_chunks": self.write_chunks.iter().map(|(f, c)| json!({"file": f, "chunks": c})).collect::<Vec<_>>(),
        })
    }
    pub fn from_json(v: &Value) -> Option<FsPlan> {
        if v.is_null() {
            return Some(FsPlan::default());
        }
        let chunks = |k: &str| -> Option<Vec<(String, Vec<usize>)>> {
            match v[k].as_array() {
                None => Some(vec![]),
                Some(a) => a.iter().map(|e| Some((e["file"].as_str()?.to_string(), e["chunks"].as_array()?.iter().map(|x| x.as_u64().unwrap_or(1) as usize).collect()))).collect(),
            }
        };
        let faults = match v["faults"].as_array() {
            None => vec![],
            Some(a) => a
                .iter()
                .map(|e| {
                    Some(Planned {
                        file: e["file"].as_str()?.to_string(),
                        kind: OpKind::parse(e["op"].as_str()?)?,
                        index: e["index"].as_u64()?,
                        fault: Fault::parse(e["fault"].as_str()?)?,
                        sticky: e["sticky"].as_bool().unwrap_or(false),
                    })
                })
                .collect::<Option<Vec<_>>>()?,
        };
        Some(FsPlan { faults, read_chunks: chunks("read_chunks")?, write_chunks: chunks("write_chunks")? })
    }
    pub fn install(&self) -> Arc<FsSim> {
        let fs = FsSim::new();
        for p in &self.faults {
            fs.plan(p.clone());
        }
        for (f, c) in &self.read_chunks {
            fs.read_chunks(f, c.clone());
        }
        for (f, c) in &self.write_chunks {
            fs.write_chunks(f, c.clone());
        }
        fs
    }
}

#[derive(Clone, Debug, PartialEq)]
pub enum Outcome {
    Ok,
    Err(String),
    Panic(String),
}

/// `ldpc-toolbox <args>` in-process on this thread under `plan`.
pub fn run_cli_inproc(args: &[String], plan: &FsPlan, max_ops: u64) -> (Outcome, Arc<FsSim>) {
    use clap::Parser;
    use ldpc_toolbox::cli::{Args, Run};
    let fs = plan.install();
    fs.limit_ops(max_ops);
    let mut argv = vec!["ldpc-toolbox".to_string()];
    argv.extend(args.iter().cloned());
    let r = dstsim::simfs::with(&fs, || {
        dstsim::quiet(|| {
            std::panic::catch_unwind(std::panic::AssertUnwindSafe(|| match Args::try_parse_from(&argv) {
                Ok(a) => a.run().map_err(|e| format!("run: {}", e)),
                Err(e) => Err(format!("parse: {}", e)),
            }))
        })
    });
    let o = match r {
        Ok(Ok(())) => Outcome::Ok,
        Ok(Err(e)) => Outcome::Err(e),
        Err(_) => Outcome::Panic(dstsim::take_last_panic().unwrap_or_default()),
    };
    (o, fs)
}

const STALE: &[u8] = b"stale bytes of an earlier run\x01\x00\x01\x01";
const IN: &str = "in.bin";
const OUT: &str = "out.bin";
const CODE: &str = "code.alist";

/// The whole fault enumeration for one (code, pattern, input). `max_points`: cap on the number
/// of operation indices per (file, operation) that get a fault (all of them when the run is short).
pub fn eval_encode_sim(alist: &str, punct: &Option<String>, input: &[u8], seed: u64, dir: &Path, stats: &mut Counters) -> Option<Violation> {
    std::fs::write(dir.join(CODE), alist).ok()?;
    std::fs::write(dir.join(IN), input).ok()?;
    let h = ldpc_toolbox::sparse::SparseMatrix::from_alist(alist).ok()?;
    let m = BitMat::from_sparse(&h);
    let enc = RefEncoder::new(&m)?;
    let k = enc.k;
    if k == 0 {
        return None;
    }
    let pat: Option<Vec<bool>> = match punct {
        None => None,
        Some(p) => match own_parse_pattern(p) {
            Ok(v) if v.iter().any(|&b| b) && m.c % v.len() == 0 => Some(v),
            _ => {
                stats.inc("skipped/simfs encode case with a pattern outside the valid set");
                return None;
            }
        },
    };
    let mut want = Vec::new();
    for w in input.chunks(k) {
        if w.len() < k {
            break;
        }
        let cw = enc.encode(w);
        match &pat {
            None => want.extend(cw),
            Some(p) => want.extend(cw.chunks(m.c / p.len()).zip(p.iter()).filter(|(_, keep)| **keep).flat_map(|(b, _)| b.iter().copied())),
        }
    }
    let p = |f: &str| dir.join(f).to_string_lossy().into_owned();
    let mut args = vec!["encode".to_string(), p(CODE), p(IN), p(OUT)];
    if let Some(s) = punct {
        args.extend(["--puncturing".to_string(), s.clone()]);
    }
    let what = format!("encode in-process (k = {}, n = {}, puncturing {:?}, {} input bytes)", k, m.c, punct, input.len());
    // one-byte transfers, every one interrupted once, is the worst a plan does
    let max_ops = 8 * (input.len() + want.len() + alist.len()) as u64 + 2000;
    let outpath = dir.join(OUT);

    let mut run = |plan: &FsPlan, stats: &mut Counters| -> Option<Violation> {
        // the output path already holds something (an earlier run's codewords): afterwards it
        // must hold the codewords of *this* input and nothing more (seeded change C20-r8a-3
        // creates the file only when the first codeword is ready)
        let _ = std::fs::write(&outpath, STALE);
        let (o, fs) = run_cli_inproc(&args, plan, max_ops);
        let got = std::fs::read(&outpath).unwrap_or_default();
        stats.inc("encode runs under simfs");
        if fs.overrun() {
            return Some(Violation::new("encode-runaway", format!("{} under the file-fault plan {}: more than {} file operations for {} input bytes — the subcommand does not come to an end ({} bytes written so far, {} expected)", what, plan.to_json(), max_ops, input.len(), got.len(), want.len())));
        }
        for (kname, n) in fs.fired() {
            stats.add(&format!("faults_fired/simfs: {}", kname), n);
        }
        let log = fs.log();
        // A fault on `flush`/`sync` of the raw file is *advisory*: `File::flush` does nothing and
        // cannot fail on a real system, std has no retry convention for these calls (`BufWriter::flush`
        // hands an `Interrupted` from the inner flush straight to the caller), and the property says
        // nothing about durability. So when such a fault is the only one that took effect both
        // outcomes are right: an error (judged like any failed run), or success with exactly the
        // codewords in the file. (Preserving rewrites C20-p5a-1/-2 flush or sync at the end and
        // hand the error on; an earlier version of this check called that a violation.)
        let advisory = log.iter().any(|o| o.injected.is_some() && matches!(o.kind, OpKind::Flush | OpKind::Sync));
        let hard_rw = log.iter().any(|o| o.injected.as_ref().is_some_and(|f| f.is_hard()) && !matches!(o.kind, OpKind::Flush | OpKind::Sync));
        let hard = hard_rw || (advisory && matches!(o, Outcome::Err(_)));
        if advisory {
            stats.inc("encode run hit by an advisory fault (flush/sync of the raw file)");
        }
        let label = || format!("{} under the file-fault plan {}", what, plan.to_json());
        if hard {
            stats.inc("encode run hit by a hard I/O fault");
            match &o {
                Outcome::Err(_) => {}
                Outcome::Ok => return Some(Violation::new("encode-fault-swallowed", format!("{}: an I/O error was injected and took effect, but the subcommand reported success ({} of {} output bytes present)", label(), got.len(), want.len()))),
                Outcome::Panic(msg) => return Some(Violation::new("encode-fault-panic", format!("{}: panicked instead of returning the I/O error: {}", label(), msg))),
            }
            // (a failure before the output file was opened leaves whatever was there untouched)
            if !want.starts_with(&got) && got != STALE {
                return Some(Violation::new("encode-fault-garbage", format!("{}: after the I/O error the output file holds bytes that are not a prefix of the codewords ({} bytes; {})", label(), got.len(), first_diff(&got, &want))));
            }
        } else {
            if !plan.is_empty() {
                stats.inc("encode run with transparent faults only (EINTR / short transfers)");
            }
            match &o {
                Outcome::Ok => {}
                Outcome::Err(e) => return Some(Violation::new(if plan.is_empty() { "encode-output" } else { "encode-transparent-fault" }, format!("{}: failed with {:?} although no hard fault took effect", label(), e))),
                Outcome::Panic(msg) => return Some(Violation::new(if plan.is_empty() { "encode-output" } else { "encode-transparent-fault" }, format!("{}: panicked: {}", label(), msg))),
            }
            if got != want {
                return Some(Violation::new(
                    if plan.is_empty() { "encode-output" } else { "encode-transparent-fault" },
                    format!("{}: output file has {} bytes, the (punctured) codewords of the {} complete words are {} bytes; {}", label(), got.len(), input.len() / k, want.len(), first_diff(&got, &want)),
                ));
            }
        }
        None
    };

    // 1. fault-free, recorded
    let _ = std::fs::write(&outpath, STALE);
    let (o0, fs0) = run_cli_inproc(&args, &FsPlan::default(), max_ops);
    if fs0.overrun() {
        return Some(Violation::new("encode-runaway", format!("{}: more than {} file operations for {} input bytes — the subcommand does not come to an end", what, max_ops, input.len())));
    }
    if o0 != Outcome::Ok {
        return Some(Violation::new("encode-output", format!("{}: fault-free run ended with {:?}", what, o0)));
    }
    if let Some(v) = run(&FsPlan::default(), stats) {
        return Some(v);
    }
    let count = |f: &str, kd: OpKind| fs0.count(f, kd);
    let mut g = Stream::new(seed, "c20-simfs");
    let max_points = 24u64;
    let indices = |n: u64, g: &mut Stream| -> Vec<u64> {
        if n <= max_points {
            (0..n).collect()
        } else {
            // first, last and a seeded sample in between
            let mut v: Vec<u64> = vec![0, 1, n - 2, n - 1];
            while (v.len() as u64) < max_points {
                v.push(g.below(n));
            }
            v.sort();
            v.dedup();
            v
        }
    };
    if count(IN, OpKind::Read) > max_points || count(OUT, OpKind::Write) > max_points {
        stats.inc("long run: fault points sampled instead of enumerated");
    } else {
        stats.inc("short run: every operation index enumerated");
    }
    // 2. one fault at every operation index
    let mut plans: Vec<FsPlan> = Vec::new();
    for (file, kind, faults) in [
        (IN, OpKind::Read, vec![Fault::Interrupted, Fault::Short(1), Fault::Io]),
        (OUT, OpKind::Write, vec![Fault::Interrupted, Fault::Short(1), Fault::NoSpace, Fault::Io, Fault::BrokenPipe]),
        (CODE, OpKind::Read, vec![Fault::Interrupted, Fault::Short(1), Fault::Short(7), Fault::Io]),
        (OUT, OpKind::Flush, vec![Fault::Interrupted, Fault::NoSpace]),
        (OUT, OpKind::Sync, vec![Fault::Io]),
        (IN, OpKind::Open, vec![Fault::Denied]),
        (OUT, OpKind::Create, vec![Fault::Denied, Fault::NoSpace]),
        (CODE, OpKind::Open, vec![Fault::Denied]),
    ] {
        let n = count(file, kind);
        for i in indices(n, &mut g) {
            for f in &faults {
                plans.push(FsPlan::one(file, kind, i, f.clone()));
            }
        }
    }
    // a hard fault that persists (every later operation fails too)
    for (file, kind, f) in [(OUT, OpKind::Write, Fault::NoSpace), (IN, OpKind::Read, Fault::Io)] {
        let n = count(file, kind);
        for i in indices(n.min(6), &mut g) {
            plans.push(FsPlan { faults: vec![Planned { file: file.into(), kind, index: i, fault: f.clone(), sticky: true }], ..Default::default() });
        }
    }
    // 3. every transfer short, in several chunkings
    for ch in [vec![1usize], vec![2, 3], vec![k.saturating_sub(1).max(1)], vec![k + 1], vec![1, k, 2 * k + 1], (0..5).map(|_| 1 + g.below(2 * k as u64 + 2) as usize).collect()] {
        plans.push(FsPlan { read_chunks: vec![(IN.into(), ch.clone())], ..Default::default() });
        plans.push(FsPlan { write_chunks: vec![(OUT.into(), ch.clone())], ..Default::default() });
        plans.push(FsPlan { read_chunks: vec![(IN.into(), ch.clone()), (CODE.into(), vec![5, 1, 9])], write_chunks: vec![(OUT.into(), ch.iter().rev().copied().collect())], ..Default::default() });
    }
    // 4. seeded combinations: chunking + EINTR bursts + at most one hard fault
    let nr = count(IN, OpKind::Read).max(1);
    let nw = count(OUT, OpKind::Write).max(1);
    for _ in 0..12 {
        let mut pl = FsPlan::default();
        if g.chance(1, 2) {
            pl.read_chunks.push((IN.into(), (0..3).map(|_| 1 + g.below(k as u64 + 2) as usize).collect()));
        }
        if g.chance(1, 2) {
            pl.write_chunks.push((OUT.into(), (0..3).map(|_| 1 + g.below(m.c as u64 + 1) as usize).collect()));
        }
        for _ in 0..g.below(4) {
            let (file, kind, n) = if g.chance(1, 2) { (IN, OpKind::Read, nr) } else { (OUT, OpKind::Write, nw) };
            pl.faults.push(Planned { file: file.into(), kind, index: g.below(2 * n + 1), fault: Fault::Interrupted, sticky: false });
        }
        if g.chance(1, 2) {
            let (file, kind, n, f) = if g.chance(1, 2) { (IN, OpKind::Read, nr, Fault::Io) } else { (OUT, OpKind::Write, nw, Fault::NoSpace) };
            pl.faults.push(Planned { file: file.into(), kind, index: g.below(2 * n + 1), fault: f, sticky: g.chance(1, 3) });
        }
        plans.push(pl);
    }
    stats.add("file-fault plans evaluated", plans.len() as u64);
    for pl in &plans {
        if let Some(v) = run(pl, stats) {
            return Some(v);
        }
    }
    None
}

pub fn first_diff(a: &[u8], b: &[u8]) -> String {
    match a.iter().zip(b.iter()).position(|(x, y)| x != y) {
        Some(i) => format!("first difference at byte {}", i),
        None => format!("one is a prefix of the other ({} vs {} bytes)", a.len(), b.len()),
    }
}
