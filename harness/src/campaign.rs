//! Generic driver for BER-engine campaigns: run many generated configurations in parallel,
//! evaluate an oracle, re-check determinism on a sample, minimise and replay failures.

use crate::bersim::*;
use crate::common::*;
use dstsim::{ClockProfile, RunResult, Strategy};
use serde_json::{Value, json};
use std::collections::BTreeSet;
use std::sync::Mutex;
use std::sync::atomic::AtomicBool;
use std::time::Instant;

pub type GenFn<'a> = dyn Fn(u64, u64) -> BerCfg + Sync + 'a;
pub type OracleFn<'a> = dyn Fn(&BerCfg, &BerObs) -> (Vec<Violation>, OracleStats) + Sync + 'a;

pub struct Failure {
    pub run: u64,
    pub cfg: BerCfg,
    pub violation: Violation,
    pub trace: Vec<u32>,
}

#[derive(Default)]
pub struct CampaignResult {
    pub runs: u64,
    pub counters: Counters,
    pub failures: Vec<Failure>,
    pub distinct_interleavings: u64,
    pub distinct_configs: u64,
    pub samples: Vec<Value>,
    pub sim_time_ns: u128,
    pub steps: u64,
    pub determinism_rechecks: u64,
    pub determinism_mismatch: Option<String>,
    pub wall_s: f64,
}

pub fn run_campaign(
    opts: &Opts,
    label: &str,
    n_runs: u64,
    recheck_percent: u64,
    budget_s: f64,
    generate: &GenFn,
    oracle: &OracleFn,
) -> CampaignResult {
    let t0 = Instant::now();
    let stop = AtomicBool::new(false);
    let deadline = Some(t0 + std::time::Duration::from_secs_f64(budget_s));
    struct Acc {
        counters: Counters,
        failures: Vec<Failure>,
        inter: BTreeSet<u64>,
        cfgs: BTreeSet<u64>,
        samples: Vec<Value>,
        sim_time_ns: u128,
        steps: u64,
        rechecks: u64,
        mismatch: Option<String>,
        runs: u64,
    }
    let acc = Mutex::new(Acc {
        counters: Counters::default(),
        failures: Vec::new(),
        inter: BTreeSet::new(),
        cfgs: BTreeSet::new(),
        samples: Vec::new(),
        sim_time_ns: 0,
        steps: 0,
        rechecks: 0,
        mismatch: None,
        runs: 0,
    });
    // watchdog: real code that loops without ever reaching a yield point would hang the
    // harness; a run stuck for more than 120 s of real time is reported, never waited for
    let inflight: Mutex<std::collections::BTreeMap<u64, (Instant, BerCfg)>> = Mutex::new(Default::default());
    let campaign_done = AtomicBool::new(false);
    let label_owned = label.to_string();
    let seed = opts.seed;
    std::thread::scope(|scope| {
    scope.spawn(|| {
        while !campaign_done.load(std::sync::atomic::Ordering::SeqCst) {
            std::thread::sleep(std::time::Duration::from_millis(250));
            let stuck = inflight.lock().unwrap().iter().find(|(_, (t, _))| t.elapsed().as_secs() >= 120).map(|(r, (_, c))| (*r, c.clone()));
            if let Some((run, cfg)) = stuck {
                let prop = label_owned.trim_end_matches(|c: char| c.is_ascii_lowercase()).to_string();
                let body = json!({
                    "property": prop, "engine": "bersim", "seed": seed, "run": run, "config": cfg.to_json(),
                    "violation": {"kind": "no-yield-hang", "detail": "one simulated run made no scheduling step for 120 s of real time: code under test loops without reaching an intercepted operation"},
                    "replay_verified": false,
                });
                let path = write_replay(&prop, seed, run, &body);
                println!("VIOLATION property={} replay={}", prop, path);
                println!("  kind=no-yield-hang detail=run {} did not finish within 120 s of real time", run);
                std::process::exit(1);
            }
        }
    });
    par_map(n_runs, opts.threads, deadline, &stop, |run| {
        let cfg = generate(opts.seed, run);
        inflight.lock().unwrap().insert(run, (Instant::now(), cfg.clone()));
        let obs = run_one(&cfg);
        inflight.lock().unwrap().remove(&run);
        let (viol, st) = oracle(&cfg, &obs);
        let sig = transport_signature(&cfg, &obs);
        let mut local = Counters::default();
        local.inc(&format!("scheduler_mix/{}", cfg.strategy.name()));
        local.inc(&format!("clock_mix/{}", cfg.clock.name()));
        local.inc(&format!("workers/{}", cfg.workers));
        local.inc(&format!("outcome/{}", obs.outcome.result.kind()));
        local.inc(if cfg.has_hard_fault() { "population/fault-injecting" } else { "population/fault-free" });
        // faults that actually fired
        for ti in obs.outcome.tasks.iter().skip(1) {
            match &ti.end {
                dstsim::TaskEnd::InjectedPanic => local.inc("faults_fired/decoder-panic"),
                dstsim::TaskEnd::Panicked(_) if cfg.stage_panic() => local.inc("faults_fired/stage-panic (worker panicked)"),
                _ => {}
            }
        }
        if cfg.stage_error() {
            // fired iff some worker sent its error message
            let n = obs.outcome.events.iter().filter(|e| matches!(e.ev, dstsim::Ev::Send { .. })).count();
            if n > 0 {
                local.inc("faults_fired/stage-error");
            }
        }
        let sleeps: u64 = obs
            .outcome
            .events
            .iter()
            .filter(|e| matches!(e.ev, dstsim::Ev::Sleep { ns } if ns >= 1_000_000_000))
            .count() as u64;
        local.add("faults_fired/decoder stalled >= 1 s", sleeps);
        if !cfg.slow_workers.is_empty() {
            local.inc("faults_fired/slow-worker");
        }
        if cfg.strategy == Strategy::Stall {
            local.inc("faults_fired/stall scheduler");
        }
        if cfg.clock == ClockProfile::Jumpy {
            let mut prev = 0u64;
            let mut jumps = 0;
            for e in &obs.outcome.events {
                if e.t_ns.saturating_sub(prev) >= 1_000_000_000 && prev != 0 {
                    jumps += 1;
                }
                prev = e.t_ns;
            }
            local.add("faults_fired/clock-jump >= 1 s", jumps);
        }
        let other = obs.outcome.events.iter().filter(|e| matches!(&e.ev, dstsim::Ev::User { tag: "frame-of-other-point", .. })).count() as u64;
        if other > 0 {
            local.add("frames whose LLR scale belongs to another Eb/N0 point than their decoder's", other);
        }
        local.merge(&st.probes.clone());
        if st.chain_skipped {
            local.inc("skipped/chain precondition (C12 territory)");
        } else {
            local.inc("judged");
        }
        local.add("frames", st.frames_total);
        // determinism re-check on a sample
        let mut mismatch = None;
        let mut rechecked = 0;
        if dstsim::keyed(opts.seed, &[run, 0xDE7]) % 100 < recheck_percent {
            let obs2 = run_one(&cfg);
            rechecked = 1;
            if obs2.outcome.event_hash != obs.outcome.event_hash || obs2.outcome.steps != obs.outcome.steps {
                // second opinion from two fresh processes (see `fresh_processes_agree`)
                let f = recheck_file(&cfg.to_json().to_string());
                let agree = fresh_processes_agree(&["child".into(), "ber-hash".into(), f.to_string_lossy().into_owned()]);
                let _ = std::fs::remove_file(&f);
                match agree {
                    Ok(true) => local.inc("determinism: in-process re-execution differed, two fresh processes agreed (the code under test keeps state across runs)"),
                    other => {
                        mismatch = Some(format!(
                            "run {}: event hash {:x}/{:x}, steps {}/{}; fresh processes: {:?}",
                            run, obs.outcome.event_hash, obs2.outcome.event_hash, obs.outcome.steps, obs2.outcome.steps, other
                        ))
                    }
                }
            }
        }
        let mut a = acc.lock().unwrap();
        a.runs += 1;
        a.counters.merge(&local);
        a.inter.insert(sig);
        a.cfgs.insert(hash_str(&cfg.to_json().to_string()));
        a.sim_time_ns += u128::from(obs.outcome.clock_ns.saturating_sub(1_000_000_000));
        a.steps += obs.outcome.steps;
        a.rechecks += rechecked;
        if mismatch.is_some() && a.mismatch.is_none() {
            a.mismatch = mismatch;
        }
        if a.samples.len() < 3 && run < 64 {
            let mut j = cfg.to_json();
            j["outcome"] = json!(obs.outcome.result.kind());
            j["steps"] = json!(obs.outcome.steps);
            j["events"] = json!(obs.outcome.n_events);
            a.samples.push(j);
        }
        for vio in viol {
            if a.failures.len() < 200 {
                a.failures.push(Failure { run, cfg: cfg.clone(), violation: vio, trace: obs.outcome.trace.clone() });
            }
        }
    });
    campaign_done.store(true, std::sync::atomic::Ordering::SeqCst);
    });
    let a = acc.into_inner().unwrap();
    eprintln!(
        "[{}] {} runs, {} steps, {} failures, {:.1}s",
        label,
        a.runs,
        a.steps,
        a.failures.len(),
        t0.elapsed().as_secs_f64()
    );
    CampaignResult {
        runs: a.runs,
        counters: a.counters,
        failures: a.failures,
        distinct_interleavings: a.inter.len() as u64,
        distinct_configs: a.cfgs.len() as u64,
        samples: a.samples,
        sim_time_ns: a.sim_time_ns,
        steps: a.steps,
        determinism_rechecks: a.rechecks,
        determinism_mismatch: a.mismatch,
        wall_s: t0.elapsed().as_secs_f64(),
    }
}

// ---------------------------------------------------------------------------
// minimisation
// ---------------------------------------------------------------------------

fn still_fails(cfg: &BerCfg, kind: &str, oracle: &OracleFn) -> Option<(Violation, Vec<u32>, u64)> {
    let obs = run_one(cfg);
    let (v, _) = oracle(cfg, &obs);
    v.into_iter().find(|x| x.kind == kind).map(|x| (x, obs.outcome.trace.clone(), obs.outcome.event_hash))
}

/// Try a candidate under the original seeds and a few alternative schedule seeds.
fn try_candidate(c: &BerCfg, kind: &str, oracle: &OracleFn) -> Option<BerCfg> {
    for alt in 0..4u64 {
        let mut cc = c.clone();
        if alt > 0 {
            cc.sched_seed = dstsim::keyed(c.sched_seed, &[alt]);
        }
        if still_fails(&cc, kind, oracle).is_some() {
            return Some(cc);
        }
    }
    None
}

pub fn minimise(orig: &BerCfg, kind: &str, oracle: &OracleFn, budget: usize) -> (BerCfg, Violation, u64) {
    let mut best = orig.clone();
    best.schedule = None;
    let mut tries = 0usize;
    // 1. configuration
    loop {
        let mut improved = false;
        let mut cands: Vec<BerCfg> = Vec::new();
        let b = &best;
        if b.workers > 1 {
            let mut c = b.clone();
            c.workers = 1;
            c.slow_workers.clear();
            if let Some(p) = &mut c.decoder_panic {
                p.workers = vec![0];
            }
            cands.push(c);
            let mut c = b.clone();
            c.workers = b.workers - 1;
            c.slow_workers.retain(|&w| w < c.workers);
            if let Some(p) = &mut c.decoder_panic {
                p.workers.retain(|&w| w < b.workers - 1);
                if p.workers.is_empty() {
                    p.workers = vec![0];
                }
            }
            cands.push(c);
        }
        if b.ebn0s_db.len() > 1 {
            let mut c = b.clone();
            c.ebn0s_db.truncate(1);
            cands.push(c);
        }
        if b.max_frame_errors > 1 {
            let mut c = b.clone();
            c.max_frame_errors = 1;
            cands.push(c);
            let mut c = b.clone();
            c.max_frame_errors = b.max_frame_errors / 2;
            cands.push(c);
        }
        if b.reporter_interval_ns.is_some() {
            let mut c = b.clone();
            c.reporter_interval_ns = None;
            cands.push(c);
        }
        if b.bch_max_errors > 0 {
            let mut c = b.clone();
            c.bch_max_errors = 0;
            cands.push(c);
        }
        if b.puncturing.is_some() && !b.stage_error() {
            let mut c = b.clone();
            c.puncturing = None;
            if c.stage_panic() == b.stage_panic() {
                cands.push(c);
            }
        }
        if b.interleaving.is_some() {
            let mut c = b.clone();
            c.interleaving = None;
            if c.stage_panic() == b.stage_panic() {
                cands.push(c);
            }
        }
        if b.psk8 {
            let mut c = b.clone();
            c.psk8 = false;
            if c.stage_panic() == b.stage_panic() {
                cands.push(c);
            }
        }
        if !b.slow_workers.is_empty() {
            let mut c = b.clone();
            c.slow_workers.clear();
            cands.push(c);
        }
        if b.decoder_panic.is_some() {
            let mut c = b.clone();
            c.decoder_panic = None;
            cands.push(c);
        }
        if b.strategy != Strategy::Uniform {
            let mut c = b.clone();
            c.strategy = Strategy::Uniform;
            cands.push(c);
        }
        if b.clock != ClockProfile::Fine {
            let mut c = b.clone();
            c.clock = ClockProfile::Fine;
            cands.push(c);
        }
        if b.max_iterations > 1 {
            let mut c = b.clone();
            c.max_iterations = 1;
            cands.push(c);
        }
        for c in cands {
            if tries >= budget {
                break;
            }
            tries += 1;
            if let Some(cc) = try_candidate(&c, kind, oracle) {
                best = cc;
                improved = true;
                break;
            }
        }
        if !improved || tries >= budget {
            break;
        }
    }
    // 2. schedule: explicit trace, then shorten
    let (mut vio, trace, mut hash) = match still_fails(&best, kind, oracle) {
        Some(x) => x,
        None => {
            // should not happen (best was accepted because it failed); fall back to the original
            let x = still_fails(orig, kind, oracle);
            match x {
                Some((v, _, h)) => return (orig.clone(), v, h),
                None => return (orig.clone(), Violation::new(kind, "not reproducible".to_string()), 0),
            }
        }
    };
    let mut with_trace = best.clone();
    with_trace.schedule = Some(trace.clone());
    if let Some((v2, _, h2)) = still_fails(&with_trace, kind, oracle) {
        // the empty trace (= round-robin) means the violation is schedule independent
        let mut empty = best.clone();
        empty.schedule = Some(Vec::new());
        if let Some((v3, _, h3)) = still_fails(&empty, kind, oracle) {
            return (empty, v3, h3);
        }
        vio = v2;
        hash = h2;
        best = with_trace;
        // shortest sufficient prefix by bisection
        let (mut lo, mut hi) = (0usize, trace.len());
        while lo < hi && tries < budget + 40 {
            tries += 1;
            let mid = (lo + hi) / 2;
            let mut c = best.clone();
            c.schedule = Some(trace[..mid].to_vec());
            if let Some((v, _, h)) = still_fails(&c, kind, oracle) {
                hi = mid;
                vio = v;
                hash = h;
                best = c;
            } else {
                lo = mid + 1;
            }
        }
    }
    (best, vio, hash)
}

/// Minimise, write the replay file, verify it in a fresh process; returns the replay path.
pub fn report_failure(property: &str, seed: u64, f: &Failure, oracle: &OracleFn) -> (String, Violation) {
    let (min_cfg, vio, hash) = minimise(&f.cfg, &f.violation.kind, oracle, 60);
    let mut body = json!({
        "property": property,
        "engine": "bersim",
        "seed": seed,
        "run": f.run,
        "config": min_cfg.to_json(),
        "violation": {"kind": vio.kind, "detail": vio.detail},
        "event_hash": format!("{:x}", hash),
        "original_config": f.cfg.to_json(),
        "replay_verified": false,
    });
    let path = write_replay(property, seed, f.run, &body);
    if std::env::var("VERIF_REPLAY_CHILD").is_err() {
        let ok = verify_replay_fresh(&path);
        body["replay_verified"] = json!(ok);
        write_replay(property, seed, f.run, &body);
        if !ok {
            eprintln!("warning: replay {} did not reproduce in a fresh process", path);
        }
    }
    (path, vio)
}

/// `verif replay <file>` for bersim replays: exit 1 + VIOLATION iff it reproduces.
pub fn replay_file(body: &Value, path: &str, oracle: &OracleFn) -> ! {
    let cfg = BerCfg::from_json(&body["config"]).unwrap_or_else(|e| harness_error(&format!("bad replay config: {}", e)));
    let kind = body["violation"]["kind"].as_str().unwrap_or("");
    let property = body["property"].as_str().unwrap_or("?");
    let obs = run_one(&cfg);
    let (v, _) = oracle(&cfg, &obs);
    let want_hash = body["event_hash"].as_str().unwrap_or("");
    let got_hash = format!("{:x}", obs.outcome.event_hash);
    match v.iter().find(|x| x.kind == kind) {
        Some(x) => {
            println!("VIOLATION property={} replay={}", property, path);
            println!("  kind={} detail={}", x.kind, x.detail);
            if want_hash != got_hash {
                println!("  note: event hash differs from the recorded one ({} vs {})", got_hash, want_hash);
            }
            if let RunResult::Done(_) = obs.outcome.result {}
            std::process::exit(1)
        }
        None => {
            println!("NOT-REPRODUCED property={} replay={} (violations now: {:?})", property, path, v.iter().map(|x| &x.kind).collect::<Vec<_>>());
            std::process::exit(0)
        }
    }
}

/// Turn the failures of a campaign into (replay path, kind, detail) triples: one report per
/// distinct violation kind (at most `max_reports`), known findings split off.
pub fn triage(
    property: &str,
    seed: u64,
    failures: &[Failure],
    oracle: &OracleFn,
    max_reports: usize,
) -> (Vec<(String, String, String)>, Vec<String>) {
    let known = KnownFindings::load();
    let mut out = Vec::new();
    let mut known_out = Vec::new();
    let mut seen: BTreeSet<String> = BTreeSet::new();
    for f in failures {
        // signature = violation kind + the hard fault class of the configuration (soft faults such
        // as slow workers, stalls and clock jumps do not change what the run may return)
        let hard: Vec<&str> = f.cfg.fault_names().into_iter().filter(|n| n.starts_with("stage-") || n.starts_with("decoder-panic")).collect();
        let class = format!("{}|{}", f.violation.kind, if hard.is_empty() { "fault-free".to_string() } else { hard.join("+") });
        if seen.contains(&class) {
            continue;
        }
        seen.insert(class.clone());
        if let Some(d) = known.matches(property, &class) {
            known_out.push(format!("{} ({})", class, d));
            continue;
        }
        if out.len() >= max_reports {
            continue;
        }
        let (path, vio) = report_failure(property, seed, f, oracle);
        out.push((path, vio.kind, vio.detail));
    }
    (out, known_out)
}

/// `verif child ber-hash <file>`: fingerprint of one simulated BER run in a fresh process.
pub fn child_ber_hash(file: &str) -> ! {
    let v: Value = serde_json::from_str(&std::fs::read_to_string(file).unwrap_or_default()).unwrap_or(Value::Null);
    let cfg = BerCfg::from_json(&v).unwrap_or_else(|e| harness_error(&e));
    let obs = run_one(&cfg);
    println!("{:x} {}", obs.outcome.event_hash, obs.outcome.steps);
    std::process::exit(0)
}
