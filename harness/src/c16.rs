//! C16 — pseudorandom constructions honour their configuration and are reproducible; the
//! parallel seed search returns a seed in range together with exactly its matrix.
//!
//! `parsim`: `mackay_neal::Config::search` runs as the root task of a simulation whose rayon
//! pool is a set of simulated tasks; side tasks run constructions concurrently.

use crate::common::*;
use crate::gf2::BitMat;
use dstsim::{ClockProfile, RunResult, Strategy, Stream, keyed};
use ldpc_toolbox::mackay_neal::{Config as MnConfig, FillPolicy};
use ldpc_toolbox::peg::Config as PegConfig;
use ldpc_toolbox::sparse::SparseMatrix;
use ldpc_toolbox::verif_seam::std::thread as sim_thread;
use serde_json::{Value, json};
use std::collections::{BTreeSet, VecDeque};
use std::sync::Mutex;
use std::sync::atomic::AtomicBool;

// ---------------------------------------------------------------------------
// the harness's own graph routines
// ---------------------------------------------------------------------------

/// Shortest cycle of the Tanner graph (None for a forest): for every edge, the shortest
/// path between its endpoints that avoids the edge, plus one.
pub fn own_girth(m: &BitMat) -> Option<usize> {
    let (r, c) = (m.r, m.c);
    // nodes: 0..r rows, r..r+c columns
    let adj = |m: &BitMat, v: usize| -> Vec<usize> {
        if v < r {
            (0..c).filter(|&j| m.a[v][j] == 1).map(|j| r + j).collect()
        } else {
            (0..r).filter(|&i| m.a[i][v - r] == 1).collect()
        }
    };
    let mut best: Option<usize> = None;
    for i in 0..r {
        for j in 0..c {
            if m.a[i][j] != 1 {
                continue;
            }
            // BFS from row i to column j avoiding the edge (i, j)
            let mut dist = vec![usize::MAX; r + c];
            let mut q = VecDeque::new();
            dist[i] = 0;
            q.push_back(i);
            while let Some(u) = q.pop_front() {
                for w in adj(m, u) {
                    if (u == i && w == r + j) || (u == r + j && w == i) {
                        continue;
                    }
                    if dist[w] == usize::MAX {
                        dist[w] = dist[u] + 1;
                        q.push_back(w);
                    }
                }
            }
            if dist[r + j] != usize::MAX {
                let len = dist[r + j] + 1;
                best = Some(best.map_or(len, |b| b.min(len)));
            }
        }
    }
    best
}

/// distances from column node `col` to every row node (None = unreachable)
fn row_distances(m: &BitMat, col: usize) -> Vec<Option<usize>> {
    let (r, c) = (m.r, m.c);
    let mut dist = vec![usize::MAX; r + c];
    let mut q = VecDeque::new();
    dist[r + col] = 0;
    q.push_back(r + col);
    while let Some(u) = q.pop_front() {
        let nb: Vec<usize> = if u < r {
            (0..c).filter(|&j| m.a[u][j] == 1).map(|j| r + j).collect()
        } else {
            (0..r).filter(|&i| m.a[i][u - r] == 1).collect()
        };
        for w in nb {
            if dist[w] == usize::MAX {
                dist[w] = dist[u] + 1;
                q.push_back(w);
            }
        }
    }
    (0..r).map(|i| if dist[i] == usize::MAX { None } else { Some(dist[i]) }).collect()
}

pub fn check_mackay_neal(conf: &MnConfig, seed: u64, h: &SparseMatrix) -> Option<String> {
    if h.num_rows() != conf.nrows || h.num_cols() != conf.ncols {
        return Some(format!("seed {}: size {}x{} instead of {}x{}", seed, h.num_rows(), h.num_cols(), conf.nrows, conf.ncols));
    }
    let m = BitMat::from_sparse(h);
    for j in 0..m.c {
        if m.col_weight(j) != conf.wc {
            return Some(format!("seed {}: column {} has weight {} instead of {}", seed, j, m.col_weight(j), conf.wc));
        }
        let mut rows: Vec<usize> = h.iter_col(j).cloned().collect();
        rows.sort_unstable();
        rows.dedup();
        if rows.len() != h.col_weight(j) {
            return Some(format!("seed {}: column {} lists a row twice", seed, j));
        }
    }
    for i in 0..m.r {
        if m.row_weight(i) > conf.wr {
            return Some(format!("seed {}: row {} has weight {} above the maximum {}", seed, i, m.row_weight(i), conf.wr));
        }
    }
    if let Some(g) = conf.min_girth {
        if let Some(got) = own_girth(&m) {
            if got < g {
                return Some(format!("seed {}: girth {} below the requested minimum {}", seed, got, g));
            }
        }
    } else if conf.fill_policy == FillPolicy::Uniform {
        let ws: Vec<usize> = (0..m.r).map(|i| m.row_weight(i)).collect();
        let (lo, hi) = (ws.iter().min().unwrap(), ws.iter().max().unwrap());
        if hi - lo > 1 {
            return Some(format!("seed {}: uniform policy but row weights range from {} to {}", seed, lo, hi));
        }
    }
    None
}

pub fn check_peg(conf: &PegConfig, seed: u64, h: &SparseMatrix) -> Option<String> {
    if h.num_rows() != conf.nrows || h.num_cols() != conf.ncols {
        return Some(format!("seed {}: size {}x{} instead of {}x{}", seed, h.num_rows(), h.num_cols(), conf.nrows, conf.ncols));
    }
    let want_w = conf.wc.min(conf.nrows);
    let mut m = BitMat::zeros(conf.nrows, conf.ncols);
    // Is placing `row` as the next edge of column j allowed by the PEG rule in state m?
    fn edge_ok(m: &BitMat, j: usize, row: usize) -> Result<(), String> {
        let d = row_distances(m, j);
        let w: Vec<usize> = (0..m.r).map(|i| m.row_weight(i)).collect();
        let unreachable: Vec<usize> = (0..m.r).filter(|&i| d[i].is_none()).collect();
        let (pool, what): (Vec<usize>, &str) = if !unreachable.is_empty() {
            (unreachable, "unreachable")
        } else {
            let dmax = d.iter().map(|x| x.unwrap()).max().unwrap();
            ((0..m.r).filter(|&i| d[i] == Some(dmax)).collect(), "at maximal distance")
        };
        if !pool.contains(&row) {
            return Err(format!("went to check {} (distance {:?}) although checks {:?} were {}", row, d[row], pool, what));
        }
        let wmin = pool.iter().map(|&i| w[i]).min().unwrap();
        if w[row] != wmin {
            return Err(format!("went to check {} of degree {} although a check of degree {} was {}", row, w[row], wmin, what));
        }
        Ok(())
    }
    // Some order of the column's entries must be a legal insertion order. The order in which the
    // column lists them is tried first; a matrix representation that does not keep insertion
    // order (sorted lists, sets) is not a violation of anything, so if that order fails the
    // others are searched (depth first; the rule prunes hard, and columns are short).
    fn search(m: &mut BitMat, j: usize, left: &mut Vec<usize>, budget: &mut u64) -> bool {
        if left.is_empty() {
            return true;
        }
        for idx in 0..left.len() {
            if *budget == 0 {
                return true; // undecided within the budget: not judged
            }
            *budget -= 1;
            let row = left[idx];
            if edge_ok(m, j, row).is_ok() {
                left.remove(idx);
                m.a[row][j] = 1;
                if search(m, j, left, budget) {
                    return true;
                }
                m.a[row][j] = 0;
                left.insert(idx, row);
            }
        }
        false
    }
    for j in 0..conf.ncols {
        let order: Vec<usize> = h.iter_col(j).cloned().collect();
        if order.len() != want_w {
            return Some(format!("seed {}: column {} has weight {} instead of min(wc, rows) = {}", seed, j, order.len(), want_w));
        }
        let mut sorted = order.clone();
        sorted.sort_unstable();
        sorted.dedup();
        if sorted.len() != order.len() {
            return Some(format!("seed {}: column {} lists a row twice", seed, j));
        }
        let mut first_err = None;
        for (t, &row) in order.iter().enumerate() {
            if let Err(e) = edge_ok(&m, j, row) {
                first_err = Some(format!("seed {}: edge {} of column {} {}", seed, t, j, e));
                break;
            }
            m.a[row][j] = 1;
        }
        if let Some(e) = first_err {
            for &row in &order {
                m.a[row][j] = 0;
            }
            let mut left = order.clone();
            let mut budget = 20_000u64;
            if !search(&mut m, j, &mut left, &mut budget) {
                return Some(format!("{} (and no other order of the column's entries {:?} is a legal insertion order either)", e, order));
            }
            // a legal order exists: the column is in m now
            for &row in &order {
                m.a[row][j] = 1;
            }
        }
    }
    if BitMat::from_sparse(h) != m {
        return Some(format!("seed {}: row view and column view differ", seed));
    }
    None
}

// ---------------------------------------------------------------------------
// cases
// ---------------------------------------------------------------------------

#[derive(Clone, Debug)]
pub struct Case {
    pub mn: MnConfig,
    pub start: u64,
    pub tries: u64,
    pub pool: usize,
    pub strategy: Strategy,
    pub sched_seed: u64,
    /// side constructions run concurrently: (is_peg, seed)
    pub side: Vec<Vec<(bool, u64)>>,
    pub peg: PegConfig,
}

fn mn_to_json(c: &MnConfig) -> Value {
    json!({"nrows": c.nrows, "ncols": c.ncols, "wr": c.wr, "wc": c.wc, "backtrack_cols": c.backtrack_cols,
           "backtrack_trials": c.backtrack_trials, "min_girth": c.min_girth, "girth_trials": c.girth_trials,
           "uniform": c.fill_policy == FillPolicy::Uniform})
}

fn mn_from_json(v: &Value) -> Option<MnConfig> {
    Some(MnConfig {
        nrows: v["nrows"].as_u64()? as usize,
        ncols: v["ncols"].as_u64()? as usize,
        wr: v["wr"].as_u64()? as usize,
        wc: v["wc"].as_u64()? as usize,
        backtrack_cols: v["backtrack_cols"].as_u64()? as usize,
        backtrack_trials: v["backtrack_trials"].as_u64()? as usize,
        min_girth: v["min_girth"].as_u64().map(|x| x as usize),
        girth_trials: v["girth_trials"].as_u64()? as usize,
        fill_policy: if v["uniform"].as_bool()? { FillPolicy::Uniform } else { FillPolicy::Random },
    })
}

impl Case {
    pub fn to_json(&self) -> Value {
        json!({
            "mackay_neal": mn_to_json(&self.mn), "start_seed": self.start.to_string(), "tries": self.tries,
            "pool_tasks": self.pool, "strategy": self.strategy.name(), "schedule_seed": self.sched_seed.to_string(),
            "side_tasks": self.side.iter().map(|t| t.iter().map(|(p, s)| json!([p, s.to_string()])).collect::<Vec<_>>()).collect::<Vec<_>>(),
            "peg": {"nrows": self.peg.nrows, "ncols": self.peg.ncols, "wc": self.peg.wc},
        })
    }
    pub fn from_json(v: &Value) -> Option<Case> {
        Some(Case {
            mn: mn_from_json(&v["mackay_neal"])?,
            start: v["start_seed"].as_str()?.parse().ok()?,
            tries: v["tries"].as_u64()?,
            pool: v["pool_tasks"].as_u64()? as usize,
            strategy: Strategy::parse(v["strategy"].as_str()?)?,
            sched_seed: v["schedule_seed"].as_str()?.parse().ok()?,
            side: v["side_tasks"]
                .as_array()?
                .iter()
                .map(|t| {
                    t.as_array()
                        .map(|a| a.iter().filter_map(|x| Some((x[0].as_bool()?, x[1].as_str()?.parse().ok()?))).collect())
                        .unwrap_or_default()
                })
                .collect(),
            peg: PegConfig {
                nrows: v["peg"]["nrows"].as_u64()? as usize,
                ncols: v["peg"]["ncols"].as_u64()? as usize,
                wc: v["peg"]["wc"].as_u64()? as usize,
            },
        })
    }
}

pub fn gen_case(seed: u64, idx: u64) -> Case {
    // four schedules per configuration: the configuration depends on idx / 4 only
    let cidx = idx / 4;
    let mut g = Stream::new(keyed(seed, &[cidx]), "c16-config");
    let nrows = 2 + g.below(9) as usize;
    let ncols = 2 + g.below(15) as usize;
    let wc = 1 + g.below(4.min(nrows as u64)) as usize;
    let need = (ncols * wc).div_ceil(nrows);
    let wr = match g.below(10) {
        0 => need.saturating_sub(1).max(1), // infeasible: every seed fails
        1..=4 => need,                      // tight
        5..=7 => need + 1,
        _ => need + 3,
    };
    let min_girth = *g.pick(&[None, None, Some(4), Some(5), Some(6), Some(6), Some(7), Some(8)]);
    let mn = MnConfig {
        nrows,
        ncols,
        wr,
        wc,
        backtrack_cols: g.below(4) as usize,
        backtrack_trials: *g.pick(&[0usize, 0, 1, 3, 10, 30, 200]),
        min_girth,
        girth_trials: *g.pick(&[0usize, 1, 5, 20]),
        fill_policy: if g.chance(1, 2) { FillPolicy::Uniform } else { FillPolicy::Random },
    };
    let peg = PegConfig { nrows: 2 + g.below(8) as usize, ncols: 2 + g.below(10) as usize, wc: 1 + g.below(4) as usize };
    let start = match g.below(4) {
        0 => 0,
        1 => g.below(1000),
        _ => g.next() >> 8,
    };
    // (rarely a range longer than a pool's natural chunk sizes, of a length that no chunking
    // divides evenly: seeded change C16-r8a-1 drops the tail of 65- and 129-seed ranges)
    let mut tries = *g.pick(&[0u64, 1, 1, 2, 3, 5, 8, 12, 24, 24, 65, 129]);
    let mut mn = mn;
    let mut start = start;
    match g.below(24) {
        0 => {
            // a long range whose only successful seed is its last (whatever splits the range into
            // chunks must not lose the tail: seeded change C16-r8a-1): look for a success that
            // follows at least t - 1 failures
            let t = *g.pick(&[65u64, 67, 129, 130]);
            let mut run = 0u64;
            for s in 0..1500u64 {
                if mn.run(s).is_ok() {
                    if run >= t - 1 {
                        start = s + 1 - t;
                        tries = t;
                        break;
                    }
                    run = 0;
                } else {
                    run += 1;
                }
            }
        }
        1 | 2 => {
            // exactly tight weights under the random policy: success needs backtracking, often a
            // lot of it; short ranges (a search that first tries with a reduced budget must fall
            // back to the full one: seeded change C16-r8a-3)
            let nrows = 4 + g.below(5) as usize;
            let wc = 2 + g.below(2) as usize;
            let wr = wc * 2;
            mn = MnConfig { nrows, ncols: nrows * wr / wc, wr, wc, backtrack_cols: 1 + g.below(3) as usize, backtrack_trials: *g.pick(&[50usize, 200, 1000]), min_girth: None, girth_trials: 0, fill_policy: FillPolicy::Random };
            tries = *g.pick(&[1u64, 1, 2, 3, 5]);
            start = g.below(200);
        }
        _ => {}
    }
    // per-schedule part
    let mut s = Stream::new(keyed(seed, &[idx, 99]), "c16-schedule");
    let pool = *s.pick(&[1usize, 2, 2, 3, 4, 4, 6, 8]);
    let strategy = crate::c13::pick_strategy(&mut s);
    let nside = s.below(3) as usize;
    let side = (0..nside)
        .map(|_| (0..1 + s.below(3)).map(|_| (s.chance(1, 2), start + s.below(tries.max(1)))).collect())
        .collect();
    Case { mn, start, tries, pool, strategy, sched_seed: keyed(seed, &[idx, 5]), side, peg }
}

type SideResult = Vec<(bool, u64, Result<SparseMatrix, String>)>;

pub struct CaseObs {
    pub found: Option<(u64, SparseMatrix)>,
    /// further searches of the same configuration in the same run: (start, tries, result)
    pub followups: Vec<(u64, u64, Option<(u64, SparseMatrix)>)>,
    pub side: Vec<SideResult>,
    pub outcome_kind: &'static str,
    pub detail: String,
    pub steps: u64,
    pub hash: u64,
    pub items_evaluated: u64,
    pub tasks: usize,
}

pub fn run_case(case: &Case) -> CaseObs {
    let cfg = dstsim::Config {
        sched_seed: case.sched_seed,
        clock_seed: 1,
        entropy_seed: 1,
        strategy: case.strategy.clone(),
        clock: ClockProfile::Fine,
        num_cpus: case.pool,
        max_steps: 1_000_000,
        replay: None,
        stop_rule: false,
        stop_delay_max: 0,
        stop_bound: 0,
        par_tasks: case.pool,
        keep_events: true,
    };
    let out = dstsim::run(cfg, || {
        let mut handles = Vec::new();
        for list in &case.side {
            let list = list.clone();
            let mn = case.mn.clone();
            let peg = case.peg.clone();
            handles.push(sim_thread::spawn(move || {
                let mut res: SideResult = Vec::new();
                for (is_peg, s) in list {
                    dstsim::yield_now();
                    let r = if is_peg { peg.run(s).map_err(|e| e.to_string()) } else { mn.run(s).map_err(|e| e.to_string()) };
                    res.push((is_peg, s, r));
                }
                res
            }));
        }
        let found = case.mn.search(case.start, case.tries);
        // further searches in the same process: the part of the range before the seed found, the
        // part after it, and the whole range again (whatever a search remembers from an earlier
        // one must not change an answer: seeded change C16-r8b-1 keeps a memo of failed ranges)
        let mut followups = Vec::new();
        if let Some((s, _)) = &found {
            let end = case.start.saturating_add(case.tries);
            if *s >= case.start && *s < end && case.tries <= 24 {
                for (a, t) in [(case.start, *s - case.start), (*s + 1, end - (*s + 1)), (case.start, case.tries)] {
                    followups.push((a, t, case.mn.search(a, t)));
                }
            }
        }
        let side: Vec<SideResult> = handles.into_iter().map(|h| h.join().unwrap_or_default()).collect();
        (found, side, followups)
    });
    let items = out.events.iter().filter(|e| matches!(&e.ev, dstsim::Ev::User { tag: "par-item", .. })).count() as u64;
    let (kind, detail) = match &out.result {
        RunResult::Done(_) => ("done", String::new()),
        RunResult::Deadlock(m) => ("deadlock", m.clone()),
        RunResult::StepBound(m) => ("step-bound", m.clone()),
        RunResult::RootPanicked(m) => ("root-panicked", m.clone()),
    };
    let (steps, hash, tasks) = (out.steps, out.event_hash, out.tasks.len());
    match out.result {
        RunResult::Done((found, side, followups)) => CaseObs { found, followups, side, outcome_kind: kind, detail, steps, hash, items_evaluated: items, tasks },
        _ => CaseObs { found: None, followups: vec![], side: vec![], outcome_kind: kind, detail, steps, hash, items_evaluated: items, tasks },
    }
}

pub fn oracle(case: &Case, obs: &CaseObs, stats: &mut Counters) -> Vec<Violation> {
    let mut v = Vec::new();
    if obs.outcome_kind != "done" {
        v.push(Violation::new(obs.outcome_kind, format!("seed search did not complete: {}", obs.detail)));
        return v;
    }
    // sequential reference, outside any simulation
    let seq: Vec<(u64, Result<SparseMatrix, String>)> = (case.start..case.start + case.tries).map(|s| (s, case.mn.run(s).map_err(|e| e.to_string()))).collect();
    let n_ok = seq.iter().filter(|x| x.1.is_ok()).count();
    // the same seeds on a brand-new OS thread: hidden per-thread state (caches, thread-locals)
    // must not change a result
    {
        let mn = case.mn.clone();
        let (start, tries) = (case.start, case.tries);
        let fresh: Vec<Result<SparseMatrix, String>> = std::thread::spawn(move || (start..start + tries).map(|s| mn.run(s).map_err(|e| e.to_string())).collect())
            .join()
            .unwrap_or_default();
        for ((s, r), f) in seq.iter().zip(fresh.iter()) {
            stats.inc("construction repeated on a fresh OS thread");
            if r != f {
                v.push(Violation::new("not-reproducible", format!("{:?} seed {} gives a different result on a fresh thread than on a thread that has run other constructions before", case.mn, s)));
            }
        }
    }
    for (s, r) in &seq {
        if let Ok(h) = r {
            stats.inc("matrices checked (MacKay-Neal)");
            if let Some(d) = check_mackay_neal(&case.mn, *s, h) {
                v.push(Violation::new("mackay-neal-invariant", format!("{:?}: {}", case.mn, d)));
            }
            if case.mn.min_girth.is_some() {
                stats.inc("girth-constrained matrix checked");
            }
        }
        // reproducibility: a second sequential run gives the same
        let again = case.mn.run(*s).map_err(|e| e.to_string());
        if &again != r {
            v.push(Violation::new("not-reproducible", format!("{:?} seed {} gave two different results in two sequential runs", case.mn, s)));
        }
    }
    match &obs.found {
        Some((s, h)) => {
            if *s < case.start || *s >= case.start + case.tries {
                v.push(Violation::new("search", format!("search({}, {}) returned seed {} outside the requested range", case.start, case.tries, s)));
            } else {
                match &seq[(*s - case.start) as usize].1 {
                    Ok(h2) if h2 == h => {}
                    Ok(_) => v.push(Violation::new("search", format!("search({}, {}) returned seed {} with a matrix that seed does not produce", case.start, case.tries, s))),
                    Err(e) => v.push(Violation::new("search", format!("search returned seed {} but that seed fails ({})", s, e))),
                }
            }
            if n_ok >= 2 {
                stats.inc("search with more than one successful seed in range");
            }
        }
        None => {
            if n_ok > 0 {
                v.push(Violation::new(
                    "search",
                    format!("search({}, {}) found nothing although {} seeds in range succeed (first: {})", case.start, case.tries, n_ok, seq.iter().find(|x| x.1.is_ok()).unwrap().0),
                ));
            } else {
                stats.inc("search over a range where every seed fails");
            }
        }
    }
    for (a, t, r) in &obs.followups {
        stats.inc("follow-up search in the same run");
        let sub: Vec<&(u64, Result<SparseMatrix, String>)> = seq.iter().filter(|x| x.0 >= *a && x.0 < a.saturating_add(*t)).collect();
        match r {
            Some((s, h)) => match sub.iter().find(|x| x.0 == *s) {
                Some((_, Ok(h2))) if h2 == h => {}
                Some(_) => v.push(Violation::new("search", format!("a later search({}, {}) in the same run returned seed {} with a matrix that seed does not produce (or the seed fails)", a, t, s))),
                None => v.push(Violation::new("search", format!("a later search({}, {}) in the same run returned seed {} outside its range", a, t, s))),
            },
            None => {
                if let Some(x) = sub.iter().find(|x| x.1.is_ok()) {
                    v.push(Violation::new("search", format!("a later search({}, {}) in the same run found nothing although seed {} succeeds", a, t, x.0)));
                }
            }
        }
    }
    // side tasks: same (configuration, seed) in another simulated task, interleaved with the pool
    for list in &obs.side {
        for (is_peg, s, r) in list {
            stats.inc("construction repeated in a concurrent simulated task");
            let again = if *is_peg { case.peg.run(*s).map_err(|e| e.to_string()) } else { case.mn.run(*s).map_err(|e| e.to_string()) };
            if &again != r {
                v.push(Violation::new("not-reproducible", format!("seed {} ({}) gave a different result inside a concurrent task", s, if *is_peg { "PEG" } else { "MacKay-Neal" })));
            }
            if let (true, Ok(h)) = (*is_peg, r) {
                stats.inc("matrices checked (PEG)");
                if let Some(d) = check_peg(&case.peg, *s, h) {
                    v.push(Violation::new("peg-invariant", format!("{:?}: {}", case.peg, d)));
                }
            }
        }
    }
    v
}

/// PEG gets its own sweep (it has no search): configurations x seeds.
fn peg_sweep(seed: u64, idx: u64, stats: &mut Counters) -> Option<(PegConfig, u64, String)> {
    let mut g = Stream::new(keyed(seed, &[idx]), "c16-peg");
    // (column weight 0 is a configuration too: every column then has weight min(0, rows) = 0)
    let conf = PegConfig { nrows: 1 + g.below(10) as usize, ncols: 1 + g.below(14) as usize, wc: if g.chance(1, 15) { 0 } else { 1 + g.below(5) as usize } };
    let s = if g.chance(1, 2) { g.below(50) } else { g.next() };
    match conf.run(s) {
        Ok(h) => {
            stats.inc("matrices checked (PEG)");
            if conf.wc > conf.nrows {
                stats.inc("PEG with wc above the number of rows");
            }
            if conf.run(s).ok().as_ref() != Some(&h) {
                return Some((conf, s, "two runs with the same seed differ".into()));
            }
            check_peg(&conf, s, &h).map(|d| (conf, s, d))
        }
        Err(e) => {
            stats.inc("PEG run failed");
            let _ = e;
            None
        }
    }
}

/// MacKay-Neal on larger matrices than the searches use, many seeds per configuration, run
/// sequentially: every successful run must honour its configuration. (The construction's
/// backtracking and girth bookkeeping go through long internal histories only on matrices of
/// some size; seeded change C16-r5-3 skips a girth check in about one successful run in 600 on
/// 20 x 40 with girth 8.)
fn mn_sweep(seed: u64, idx: u64, stats: &mut Counters) -> Option<(MnConfig, u64, String)> {
    let mut g = Stream::new(keyed(seed, &[idx]), "c16-mn-sweep");
    // (one in eight: many rows, light columns — selection helpers that switch algorithm above
    // a size threshold: seeded change C16-r7-1 from 128 rows on)
    let many_rows = g.chance(1, 8);
    let nrows = if many_rows { 120 + g.below(90) as usize } else { 10 + g.below(31) as usize };
    let ncols = if many_rows { nrows / 2 + g.below(nrows as u64) as usize } else { nrows + g.below(nrows as u64 + 1) as usize };
    let wc = if many_rows { 1 + g.below(2) as usize } else { 2 + g.below(2) as usize };
    let need = (ncols * wc).div_ceil(nrows);
    let conf = MnConfig {
        nrows,
        ncols,
        wr: need + g.below(3) as usize,
        wc,
        backtrack_cols: *g.pick(&[1usize, 2, 6, 10]),
        backtrack_trials: *g.pick(&[2usize, 5, 20, 50]),
        min_girth: if many_rows { None } else { *g.pick(&[None, Some(5), Some(6), Some(6), Some(8), Some(8)]) },
        girth_trials: *g.pick(&[2usize, 5, 20]),
        fill_policy: if many_rows || g.chance(1, 3) { FillPolicy::Uniform } else { FillPolicy::Random },
    };
    // (one in four: small, exactly tight, light columns, a girth limit, backtracking over several
    // columns and many seeds — where a column that is drawn again after backtracking often draws
    // the very row set it had before: seeded change C16-r9-3 keeps a per-column memo of row sets
    // that passed the girth test and does not invalidate it when earlier columns change)
    let small_tight = !many_rows && g.chance(1, 3);
    let conf = if small_tight {
        let nrows = 4 + g.below(6) as usize;
        let wr = 2 + g.below(3) as usize;
        let wc = 2;
        MnConfig {
            nrows,
            ncols: nrows * wr / wc,
            wr,
            wc,
            backtrack_cols: 2 + g.below(3) as usize,
            backtrack_trials: *g.pick(&[20usize, 100, 400]),
            min_girth: Some(*g.pick(&[6usize, 6, 8])),
            girth_trials: *g.pick(&[2usize, 5, 20]),
            fill_policy: if g.chance(1, 4) { FillPolicy::Uniform } else { FillPolicy::Random },
        }
    } else {
        conf
    };
    if small_tight {
        stats.inc("MacKay-Neal sweep: small exactly tight configuration, 96 seeds");
    }
    let s0 = g.below(100_000);
    for s in s0..s0 + if many_rows { 4 } else if small_tight { 96 } else { 24 } {
        match conf.run(s) {
            Ok(h) => {
                stats.inc("matrices checked (MacKay-Neal sweep on larger configurations)");
                if let Some(d) = check_mackay_neal(&conf, s, &h) {
                    return Some((conf, s, d));
                }
            }
            Err(_) => stats.inc("MacKay-Neal sweep run failed"),
        }
    }
    None
}

/// Fixed probes: different seeds explore different choices (deterministic, seed-independent).
fn seed_diversity() -> Option<String> {
    let mn = MnConfig { nrows: 8, ncols: 16, wr: 6, wc: 3, backtrack_cols: 2, backtrack_trials: 5, min_girth: None, girth_trials: 0, fill_policy: FillPolicy::Random };
    let res: BTreeSet<String> = (0..16u64).filter_map(|s| mn.run(s).ok()).map(|h| h.alist()).collect();
    if res.len() < 8 {
        return Some(format!("MacKay-Neal 8x16: 16 seeds gave only {} distinct matrices", res.len()));
    }
    let mn = MnConfig { fill_policy: FillPolicy::Uniform, ..mn };
    let res: BTreeSet<String> = (0..16u64).filter_map(|s| mn.run(s).ok()).map(|h| h.alist()).collect();
    if res.len() < 8 {
        return Some(format!("MacKay-Neal uniform 8x16: 16 seeds gave only {} distinct matrices", res.len()));
    }
    let peg = PegConfig { nrows: 8, ncols: 16, wc: 3 };
    let res: BTreeSet<String> = (0..16u64).filter_map(|s| peg.run(s).ok()).map(|h| h.alist()).collect();
    if res.len() < 8 {
        return Some(format!("PEG 8x16: 16 seeds gave only {} distinct matrices", res.len()));
    }
    None
}

pub fn replay(body: &Value, path: &str) -> ! {
    let fin = |v: Option<Violation>| -> ! {
        match v {
            Some(x) => {
                println!("VIOLATION property=C16 replay={}", path);
                println!("  kind={} detail={}", x.kind, x.detail);
                std::process::exit(1)
            }
            None => {
                println!("NOT-REPRODUCED property=C16 replay={}", path);
                std::process::exit(0)
            }
        }
    };
    if body["engine"].as_str() == Some("parsim-mn-sweep") {
        let conf = mn_from_json(&body["mackay_neal"]).unwrap_or_else(|| harness_error("bad C16 replay"));
        let s: u64 = body["mn_seed"].as_str().and_then(|x| x.parse().ok()).unwrap_or(0);
        let r = conf.run(s).ok().and_then(|h| check_mackay_neal(&conf, s, &h));
        fin(r.map(|d| Violation::new("mackay-neal-invariant", d)))
    }
    if body["engine"].as_str() == Some("parsim-peg") {
        let conf = PegConfig { nrows: body["peg"]["nrows"].as_u64().unwrap_or(1) as usize, ncols: body["peg"]["ncols"].as_u64().unwrap_or(1) as usize, wc: body["peg"]["wc"].as_u64().unwrap_or(1) as usize };
        let s: u64 = body["peg_seed"].as_str().and_then(|x| x.parse().ok()).unwrap_or(0);
        let r = conf.run(s).ok().and_then(|h| check_peg(&conf, s, &h));
        fin(r.map(|d| Violation::new("peg-invariant", d)))
    }
    let case = Case::from_json(&body["case"]).unwrap_or_else(|| harness_error("bad C16 replay"));
    let kind = body["violation"]["kind"].as_str().unwrap_or("");
    let obs = run_case(&case);
    let v = oracle(&case, &obs, &mut Counters::default());
    fin(v.into_iter().find(|x| x.kind == kind))
}

fn minimise(case: &Case, kind: &str) -> Case {
    let fails = |c: &Case| oracle(c, &run_case(c), &mut Counters::default()).iter().any(|v| v.kind == kind);
    let mut best = case.clone();
    loop {
        let mut cands = Vec::new();
        if !best.side.is_empty() {
            let mut c = best.clone();
            c.side.clear();
            cands.push(c);
        }
        if best.pool > 1 {
            let mut c = best.clone();
            c.pool = 1;
            cands.push(c);
            let mut c = best.clone();
            c.pool = best.pool - 1;
            cands.push(c);
        }
        if best.tries > 1 {
            let mut c = best.clone();
            c.tries = best.tries - 1;
            cands.push(c);
            let mut c = best.clone();
            c.start += 1;
            c.tries -= 1;
            cands.push(c);
        }
        if best.strategy != Strategy::RoundRobin {
            let mut c = best.clone();
            c.strategy = Strategy::RoundRobin;
            cands.push(c);
        }
        match cands.into_iter().find(|c| fails(c)) {
            Some(c) => best = c,
            None => break,
        }
    }
    best
}

pub fn main(opts: &Opts) -> ! {
    let t0 = std::time::Instant::now();
    let (n, npeg, budget) = match opts.tier {
        Tier::Quick => ((12_000.0 * opts.scale) as u64, (12_000.0 * opts.scale) as u64, 200.0),
        Tier::Thorough => ((240_000.0 * opts.scale) as u64, (300_000.0 * opts.scale) as u64, 2400.0),
    };
    struct Acc {
        counters: Counters,
        failures: Vec<(u64, Case, Violation)>,
        peg_failures: Vec<(u64, PegConfig, u64, String)>,
        mn_failures: Vec<(u64, MnConfig, u64, String)>,
        winners: std::collections::BTreeMap<u64, BTreeSet<Option<u64>>>,
        inter: BTreeSet<u64>,
        samples: Vec<Value>,
        steps: u64,
        mismatch: Option<String>,
        rechecks: u64,
    }
    let acc = Mutex::new(Acc {
        counters: Counters::default(),
        failures: vec![],
        peg_failures: vec![],
        mn_failures: vec![],
        winners: Default::default(),
        inter: BTreeSet::new(),
        samples: vec![],
        steps: 0,
        mismatch: None,
        rechecks: 0,
    });
    let stop = AtomicBool::new(false);
    let deadline = Some(t0 + std::time::Duration::from_secs_f64(budget));
    let seed = opts.seed;
    set_watch(Watch { property: "C16", limit_s: 600, describe: Box::new(move |i| format!("construction case {} (a seed search and a PEG run): {}", i, gen_case(seed, i).to_json())) });
    let done = par_map(n, opts.threads, deadline, &stop, |i| {
        let case = gen_case(opts.seed, i);
        let obs = run_case(&case);
        let mut c = Counters::default();
        let v = oracle(&case, &obs, &mut c);
        c.inc(&format!("pool/{}", case.pool));
        c.inc(&format!("scheduler_mix/{}", case.strategy.name()));
        c.add("seeds evaluated by pool tasks", obs.items_evaluated);
        let mut mismatch = None;
        let mut re = 0;
        if keyed(opts.seed, &[i, 0xDE7]) % 100 < 5 {
            re = 1;
            let o2 = run_case(&case);
            if o2.hash != obs.hash {
                // second opinion from two fresh processes (see `fresh_processes_agree`)
                match fresh_processes_agree(&["child".into(), "c16-hash".into(), opts.seed.to_string(), i.to_string()]) {
                    Ok(true) => c.inc("determinism: in-process re-execution differed, two fresh processes agreed (the code under test keeps state across runs)"),
                    other => mismatch = Some(format!("case {}: event hash {:x} vs {:x}; fresh processes: {:?}", i, obs.hash, o2.hash, other)),
                }
            }
        }
        let mut a = acc.lock().unwrap();
        a.counters.merge(&c);
        a.steps += obs.steps;
        a.rechecks += re;
        if a.mismatch.is_none() {
            a.mismatch = mismatch;
        }
        a.inter.insert(obs.hash);
        a.winners.entry(i / 4).or_default().insert(obs.found.as_ref().map(|x| x.0));
        if a.samples.len() < 2 && i < 40 && case.tries > 2 {
            let mut j = case.to_json();
            j["returned_seed"] = json!(obs.found.as_ref().map(|x| x.0.to_string()));
            j["steps"] = json!(obs.steps);
            a.samples.push(j);
        }
        for vio in v {
            if a.failures.len() < 100 {
                a.failures.push((i, case.clone(), vio));
            }
        }
    });
    let done_peg = par_map(npeg, opts.threads, deadline, &stop, |i| {
        let mut c = Counters::default();
        let r = peg_sweep(opts.seed, i, &mut c);
        let mut a = acc.lock().unwrap();
        a.counters.merge(&c);
        if let Some((conf, s, d)) = r {
            if a.peg_failures.len() < 20 {
                a.peg_failures.push((i, conf, s, d));
            }
        }
    });
    let nsweep = if opts.tier == Tier::Thorough { (40_000.0 * opts.scale) as u64 } else { (4000.0 * opts.scale) as u64 };
    let _done_sweep = par_map(nsweep, opts.threads, deadline, &stop, |i| {
        let mut c = Counters::default();
        let r = mn_sweep(opts.seed, i, &mut c);
        let mut a = acc.lock().unwrap();
        a.counters.merge(&c);
        if let Some((conf, s, d)) = r {
            if a.mn_failures.len() < 20 {
                a.mn_failures.push((i, conf, s, d));
            }
        }
    });
    let mut a = acc.into_inner().unwrap();
    if let Some(m) = &a.mismatch {
        // two executions of one case differ. On the unchanged tree that can only be the harness
        // (selftest proves it deterministic there): exit 2. But code under test that keeps state
        // across runs (a process-wide memo, seeded change C16-r8b-1) has the same symptom, and
        // then the property violations found in this run are what must be reported.
        if a.failures.is_empty() && a.peg_failures.is_empty() && a.mn_failures.is_empty() {
            harness_error(&format!("determinism re-check failed: {}", m));
        }
        eprintln!("note: the determinism re-check also failed ({}): with violations at hand this is taken as their consequence — state in the code under test that outlives a run — and not as a defect of the harness", m);
    }
    let multi = a.winners.values().filter(|w| w.len() > 1).count() as u64;
    a.counters.add("distinct seeds returned for one configuration", multi);
    eprintln!(
        "[C16] {} searches, {} PEG runs, {} steps, {} failures, {} configs with schedule-dependent winner, {:.1}s",
        done.len(),
        done_peg.len(),
        a.steps,
        a.failures.len() + a.peg_failures.len() + a.mn_failures.len(),
        multi,
        t0.elapsed().as_secs_f64()
    );
    let mut violations = Vec::new();
    let mut seen = BTreeSet::new();
    for (i, case, v) in &a.failures {
        if !seen.insert(v.kind.clone()) || violations.len() >= 3 {
            continue;
        }
        let min = minimise(case, &v.kind);
        let vmin = oracle(&min, &run_case(&min), &mut Counters::default()).into_iter().find(|x| x.kind == v.kind).unwrap_or(v.clone());
        let mut body = json!({
            "property": "C16", "engine": "parsim", "seed": opts.seed, "run": i,
            "case": min.to_json(), "violation": {"kind": vmin.kind, "detail": vmin.detail},
            "replay_verified": false,
        });
        let path = write_replay("C16", opts.seed, *i, &body);
        let ok = verify_replay_fresh(&path);
        body["replay_verified"] = json!(ok);
        write_replay("C16", opts.seed, *i, &body);
        violations.push((path, vmin.kind, vmin.detail));
    }
    if let Some((i, conf, s, d)) = a.peg_failures.first() {
        let body = json!({
            "property": "C16", "engine": "parsim-peg", "seed": opts.seed, "run": i,
            "peg": {"nrows": conf.nrows, "ncols": conf.ncols, "wc": conf.wc}, "peg_seed": s.to_string(),
            "violation": {"kind": "peg-invariant", "detail": d}, "replay_verified": false,
        });
        let path = write_replay("C16", opts.seed, 10_000_000 + *i, &body);
        violations.push((path, "peg-invariant".into(), format!("{:?} {}", conf, d)));
    }
    if let Some((i, conf, s, d)) = a.mn_failures.first() {
        let body = json!({
            "property": "C16", "engine": "parsim-mn-sweep", "seed": opts.seed, "run": i,
            "mackay_neal": mn_to_json(conf), "mn_seed": s.to_string(),
            "violation": {"kind": "mackay-neal-invariant", "detail": d}, "replay_verified": false,
        });
        let path = write_replay("C16", opts.seed, 30_000_000 + *i, &body);
        violations.push((path, "mackay-neal-invariant".into(), format!("{:?}: {}", conf, d)));
    }
    if let Some(d) = seed_diversity() {
        let body = json!({"property": "C16", "engine": "parsim-diversity", "violation": {"kind": "seed-ignored", "detail": d}});
        let path = write_replay("C16", opts.seed, 20_000_000, &body);
        violations.push((path, "seed-ignored".into(), d));
    }
    let mut extra = serde_json::Map::new();
    extra.insert("searches".into(), json!(done.len()));
    extra.insert("peg_runs".into(), json!(done_peg.len()));
    extra.insert("steps".into(), json!(a.steps));
    extra.insert("pool_sizes".into(), a.counters.group("pool"));
    extra.insert("scheduler_mix".into(), a.counters.group("scheduler_mix"));
    let mut probes = serde_json::Map::new();
    for (k, v) in &a.counters.0 {
        if !k.contains('/') {
            probes.insert(k.clone(), json!(v));
        }
    }
    extra.insert("probes".into(), Value::Object(probes));
    extra.insert("distinct_interleavings".into(), json!(a.inter.len()));
    extra.insert("interleaving_measure".into(), json!("distinct event-log hashes (order in which pool tasks evaluated and published seeds, interleaved with side tasks)"));
    extra.insert("determinism_rechecks".into(), json!(a.rechecks));
    extra.insert("runs_per_hour".into(), json!((done.len() as f64 / t0.elapsed().as_secs_f64() * 3600.0) as u64));
    extra.insert("faults_fired".into(), json!({"note": "the only nondeterminism is which pool task publishes first; slow/stalled pool tasks via the weighted/stall/pct schedulers", "stall scheduler": a.counters.get("scheduler_mix/stall")}));
    extra.insert("stub_conformance".into(), stub_conformance());
    extra.insert("components".into(), json!({
        "real": ["mackay_neal::Config::{run, search}", "MacKayNeal", "peg::Config::run", "util::SortedRandomSel", "sparse BFS / girth", "rand::Rng (ChaCha8)"],
        "stub": ["rayon: Range<u64>::into_par_iter().filter_map().find_any() executed by simulated pool tasks (a stub of rayon's contract: returns a match if one exists, left-most published leaf wins)"],
    }));
    Evidence {
        property_id: "C16".into(),
        tier: opts.tier,
        seed: opts.seed,
        level: "exploration",
        evaluations: (done.len() + done_peg.len()) as u64,
        distinct_nontrivial: a.inter.len() as u64,
        rule: "one evaluation = one simulated Config::search (4 schedules per configuration, pool of 1..8 simulated tasks, 0..2 concurrent side tasks repeating constructions) checked against the sequential results of every seed in range, or one PEG run with its insertion order re-derived; distinct = distinct event-log hashes of the searches".into(),
        samples: a.samples.clone(),
        extra,
        assumptions: vec![
            "rayon itself is a stub: the real work-stealing pool never runs under simulation; the contract modelled is find_any's".into(),
            "girth is recomputed with the harness's own shortest-cycle search (edge removal + BFS)".into(),
        ],
        wall_s: t0.elapsed().as_secs_f64(),
        violations: violations.len() as u64,
    }
    .write();
    Verdict { property: "C16".into(), violations, known: vec![] }.finish()
}

/// `verif child c16-hash <seed> <case>`: fingerprint of one search case in a fresh process.
pub fn child_case_hash(seed: u64, i: u64) -> ! {
    let case = gen_case(seed, i);
    let obs = run_case(&case);
    println!("{:x}", obs.hash);
    std::process::exit(0)
}
