//! History engines: an operation history against a long-lived object, a reference model
//! stepped in lock-step, comparison after every operation, ddmin minimisation.
//! (No scheduler and no fault injector: these objects have neither threads nor I/O.)

use crate::common::*;
use crate::gf2::*;
use dstsim::{Stream, keyed};
use ldpc_toolbox::decoder::factory::{DecoderFactory, DecoderImplementation};
use ldpc_toolbox::decoder::DecoderOutput;
use ldpc_toolbox::sparse::SparseMatrix;
use serde_json::{Value, json};
use std::collections::BTreeSet;
use std::panic::{AssertUnwindSafe, catch_unwind};

/// ddmin over a list: smallest sublist (by chunk removal) for which `fails` still holds.
pub fn ddmin<T: Clone>(items: &[T], fails: &dyn Fn(&[T]) -> bool, budget: usize) -> Vec<T> {
    let mut cur: Vec<T> = items.to_vec();
    let mut n = 2usize;
    let mut tries = 0;
    while cur.len() >= 2 && tries < budget {
        let chunk = cur.len().div_ceil(n);
        let mut reduced = false;
        let mut start = 0;
        while start < cur.len() {
            let end = (start + chunk).min(cur.len());
            let cand: Vec<T> = cur[..start].iter().chain(cur[end..].iter()).cloned().collect();
            tries += 1;
            if !cand.is_empty() && fails(&cand) {
                cur = cand;
                n = n.saturating_sub(1).max(2);
                reduced = true;
                break;
            }
            start = end;
        }
        if !reduced {
            if n >= cur.len() {
                break;
            }
            n = (n * 2).min(cur.len());
        }
    }
    cur
}

pub fn all_decoder_names() -> Vec<String> {
    use clap::ValueEnum;
    DecoderImplementation::value_variants().iter().map(|v| v.to_string()).collect()
}

// ===========================================================================
// C10 (a): decode-call histories
// ===========================================================================

#[derive(Clone, Debug, PartialEq)]
pub struct DecodeCall {
    pub llrs: Vec<f64>,
    pub limit: usize,
    pub family: &'static str,
}

fn gauss(g: &mut Stream) -> f64 {
    let u1 = (g.f64()).max(1e-300);
    let u2 = g.f64();
    (-2.0 * u1.ln()).sqrt() * (2.0 * std::f64::consts::PI * u2).cos()
}

pub fn gen_llrs(g: &mut Stream, h: &BitMat) -> (Vec<f64>, &'static str) {
    let n = h.c;
    let c = random_codeword(g, h);
    let sign = |b: u8| if b == 1 { -1.0 } else { 1.0 };
    match g.below(12) {
        0 | 1 => {
            // codeword, mild noise
            let a: f64 = *g.pick(&[1.0, 2.0, 4.0, 8.0]);
            ((0..n).map(|i| sign(c[i]) * a + gauss(g) * a.sqrt() * 1.2).collect(), "codeword+noise")
        }
        2 | 3 => {
            let a: f64 = *g.pick(&[0.5, 1.0, 2.0]);
            ((0..n).map(|i| sign(c[i]) * a + gauss(g) * 2.5 * a).collect(), "codeword+heavy-noise")
        }
        4 => ((0..n).map(|_| (g.f64() - 0.5) * 20.0).collect(), "random"),
        5 => {
            // erasure block
            let a = 3.0;
            let s = g.below(n as u64) as usize;
            let len = 1 + g.below(n as u64 / 2 + 1) as usize;
            ((0..n).map(|i| if i >= s && i < s + len { 0.0 } else { sign(c[i]) * a + gauss(g) }).collect(), "erasure-block")
        }
        6 => (vec![0.0; n], "all-zero"),
        7 => ((0..n).map(|_| if g.chance(1, 2) { 1e30 } else { -1e30 }).collect(), "huge"),
        8 => ((0..n).map(|i| sign(c[i]) * 1e30 * if g.chance(1, 8) { -1.0 } else { 1.0 }).collect(), "huge-codeword"),
        9 => ((0..n).map(|_| if g.chance(1, 2) { 1e-310 } else { -1e-310 }).collect(), "subnormal"),
        10 => {
            // 8-bit quantiser rounding boundaries: (2m+1)/16
            ((0..n).map(|_| {
                let m = g.below(60) as f64 - 30.0;
                (2.0 * m + 1.0) / 16.0
            }).collect(), "rounding-boundary")
        }
        _ => {
            // exact codeword signs, one or two flipped
            let mut v: Vec<f64> = (0..n).map(|i| sign(c[i]) * 1.3863).collect();
            for _ in 0..1 + g.below(2) {
                let p = g.below(n as u64) as usize;
                v[p] = -v[p];
            }
            (v, "codeword-few-flips")
        }
    }
}

pub struct DecodeHistory {
    pub name: String,
    pub h: BitMat,
    pub calls: Vec<DecodeCall>,
}

pub fn gen_decode_history(seed: u64, name: &str, idx: u64) -> DecodeHistory {
    let mut g = Stream::new(keyed(seed, &[hash_str(name), idx]), "c10-history");
    let cols = 3 + g.below(12) as usize;
    let rows = if g.chance(1, 5) {
        // redundant checks: as many or more rows than columns
        cols + g.below(4) as usize
    } else {
        1 + g.below((cols - 1).min(8) as u64) as usize
    };
    let mut h = random_decoder_matrix(&mut g, rows, cols);
    if g.chance(1, 6) {
        // check degrees that vary a lot: light checks first, then a few that involve most bits
        // (scratch space sized by the largest degree seen so far: seeded change C10-r6-3)
        let cols = 10 + g.below(8) as usize;
        let rows = 3 + g.below(6) as usize;
        h = BitMat::zeros(rows, cols);
        let heavy = 1 + g.below(2) as usize;
        for i in 0..rows {
            let deg = if i + heavy >= rows { 8 + g.below((cols - 8) as u64 + 1) as usize } else { 2 + g.below(3) as usize };
            while h.row_weight(i) < deg {
                let j = g.below(cols as u64) as usize;
                h.a[i][j] = 1;
            }
        }
    }
    if g.chance(1, 12) {
        // a wide code with one check that involves more than 32 bits (a small-buffer
        // optimisation with a spill path: seeded change C10-r7-3)
        let cols = 36 + g.below(12) as usize;
        let rows = 3 + g.below(4) as usize;
        h = BitMat::zeros(rows, cols);
        for i in 0..rows {
            let deg = if i % 2 == 1 || rows == 1 { 33 + g.below((cols - 33) as u64 + 1) as usize } else { 2 + g.below(4) as usize };
            while h.row_weight(i) < deg {
                let j = g.below(cols as u64) as usize;
                h.a[i][j] = 1;
            }
        }
    }
    let ncalls = 2 + g.below(19) as usize;
    let mut calls: Vec<DecodeCall> = Vec::new();
    // now and then a streak: many calls in a row that are neither codewords nor quick to
    // converge, then clean codewords (a decoder that adapts to what it has seen lately — seeded
    // change C10-r5-2 stops checking the input syndrome after eight misses — shows only then)
    if g.chance(1, 6) {
        let sign = |b: u8| if b == 1 { -1.0 } else { 1.0 };
        for _ in 0..6 + g.below(9) {
            let c = random_codeword(&mut g, &h);
            let mut v: Vec<f64> = (0..h.c).map(|i| sign(c[i]) * 0.7 + gauss(&mut g) * 2.0).collect();
            let p = g.below(h.c as u64) as usize;
            v[p] = -sign(c[p]) * 3.0;
            calls.push(DecodeCall { llrs: v, limit: *g.pick(&[0usize, 0, 1, 1, 2]), family: "streak-of-misses" });
        }
        for _ in 0..1 + g.below(3) {
            let c = random_codeword(&mut g, &h);
            let a = *g.pick(&[1.3863, 4.0, 1e30]);
            calls.push(DecodeCall { llrs: (0..h.c).map(|i| sign(c[i]) * a).collect(), limit: *g.pick(&[0usize, 1, 5]), family: "clean-codeword-after-streak" });
        }
    }
    // now and then: long fruitless runs on saturated inputs first (|LLR| = 1e30, random signs, up
    // to 100 iterations: messages overflow in f32), then saturated near-codewords (an arithmetic
    // that changes its behaviour for good once it has seen an overflow: seeded change C10-r6-1)
    if g.chance(1, 8) {
        let sign = |b: u8| if b == 1 { -1.0 } else { 1.0 };
        for _ in 0..1 + g.below(3) {
            calls.push(DecodeCall { llrs: (0..h.c).map(|_| if g.chance(1, 2) { 1e30 } else { -1e30 }).collect(), limit: *g.pick(&[50usize, 100, 100]), family: "saturated-random-long" });
        }
        for _ in 0..2 + g.below(3) {
            let c = random_codeword(&mut g, &h);
            let mut v: Vec<f64> = (0..h.c).map(|i| sign(c[i]) * 1e30).collect();
            for _ in 0..1 + g.below(2) {
                let p = g.below(h.c as u64) as usize;
                v[p] = -v[p];
            }
            calls.push(DecodeCall { llrs: v, limit: *g.pick(&[5usize, 20, 100]), family: "saturated-codeword-few-flips" });
        }
    }
    for _ in 0..ncalls {
        // now and then the very same vector again (a retry with another limit, or a repeated
        // frame): a decoder that recognises "the frame I already hold state for" must still
        // answer like a fresh one (seeded change C10-r4-2)
        if !calls.is_empty() && g.chance(1, 5) {
            let prev = if g.chance(2, 3) { calls.len() - 1 } else { g.below(calls.len() as u64) as usize };
            let llrs = calls[prev].llrs.clone();
            calls.push(DecodeCall { llrs, limit: *g.pick(&[0usize, 1, 1, 2, 5, 20, 100]), family: "repeat-of-earlier-call" });
            continue;
        }
        let (llrs, family) = gen_llrs(&mut g, &h);
        // (rarely a very long run: counters of eight bits wrap after 255 — seeded change C10-r7-2)
        let limit = if g.chance(1, 25) { *g.pick(&[253usize, 255, 256, 300]) } else { *g.pick(&[0usize, 0, 1, 1, 2, 5, 20, 100]) };
        calls.push(DecodeCall { llrs, limit, family });
    }
    DecodeHistory { name: name.to_string(), h, calls }
}

type DecRes = Result<Result<DecoderOutput, DecoderOutput>, String>;

fn guarded_decode(dec: &mut Box<dyn ldpc_toolbox::decoder::LdpcDecoder>, c: &DecodeCall) -> DecRes {
    dstsim::quiet(|| catch_unwind(AssertUnwindSafe(|| dec.decode(&c.llrs, c.limit))))
        .map_err(|_| dstsim::take_last_panic().unwrap_or_else(|| "panic".into()))
}

/// Run a history; returns the index of the first call whose result differs from a fresh
/// decoder's, with a description. `stats`: probes.
pub fn run_decode_history(name: &str, h: &BitMat, calls: &[DecodeCall], stats: &mut Counters) -> Option<(usize, String)> {
    let imp: DecoderImplementation = name.parse().ok()?;
    let hs = h.to_sparse();
    let mut long_lived = imp.build_decoder(hs.clone());
    let mut prev_failed = false;
    let mut prev_limit: Option<usize> = None;
    for (i, c) in calls.iter().enumerate() {
        let got = guarded_decode(&mut long_lived, c);
        let mut fresh = imp.build_decoder(hs.clone());
        let want = guarded_decode(&mut fresh, c);
        match (&got, &want) {
            (Err(_), Err(_)) => {
                // both panicked: not a statement about carried state (C01/C05 territory);
                // the long-lived object is now in an undefined state, stop here
                stats.inc("skipped/panic in both decoders");
                return None;
            }
            (Ok(a), Ok(b)) if a == b => {}
            _ => {
                let show = |r: &DecRes| match r {
                    Ok(Ok(o)) => format!("Ok(word={:?}, it={})", o.codeword, o.iterations),
                    Ok(Err(o)) => format!("Err(word={:?}, it={})", o.codeword, o.iterations),
                    Err(p) => format!("panic({})", p),
                };
                return Some((
                    i,
                    format!(
                        "{}: call {} (limit {}, {}) on the long-lived decoder returned {} but a fresh decoder returns {}",
                        name, i, c.limit, c.family, show(&got), show(&want)
                    ),
                ));
            }
        }
        let failed = matches!(got, Ok(Err(_)));
        if i > 0 {
            if prev_failed && c.limit == 0 {
                stats.inc("limit-0 call after failure");
            }
            if prev_failed {
                stats.inc("call after a failed frame");
            }
            if prev_limit != Some(c.limit) {
                stats.inc("limit changed between calls");
            }
        }
        if let Ok(Ok(o)) = &got {
            if o.iterations == 0 {
                stats.inc("zero-iteration success");
            }
        }
        if failed {
            stats.inc("failed frame");
        }
        stats.inc(&format!("family/{}", c.family));
        prev_failed = failed;
        prev_limit = Some(c.limit);
    }
    None
}

pub fn decode_history_json(name: &str, h: &BitMat, calls: &[DecodeCall]) -> Value {
    json!({
        "decoder": name,
        "h_alist": h.to_alist(),
        "calls": calls.iter().map(|c| json!({
            // f64 values are stored as bit patterns so that the replay is exact
            "llr_bits": c.llrs.iter().map(|x| x.to_bits().to_string()).collect::<Vec<_>>(),
            "llrs": c.llrs,
            "limit": c.limit,
            "family": c.family,
        })).collect::<Vec<_>>(),
    })
}

pub fn decode_history_from_json(v: &Value) -> Result<(String, BitMat, Vec<DecodeCall>), String> {
    let name = v["decoder"].as_str().ok_or("decoder")?.to_string();
    let h = BitMat::from_sparse(&SparseMatrix::from_alist(v["h_alist"].as_str().ok_or("h_alist")?)?);
    let mut calls = Vec::new();
    for c in v["calls"].as_array().ok_or("calls")? {
        let llrs = c["llr_bits"]
            .as_array()
            .ok_or("llr_bits")?
            .iter()
            .map(|x| f64::from_bits(x.as_str().and_then(|s| s.parse::<u64>().ok()).unwrap_or(0)))
            .collect();
        calls.push(DecodeCall { llrs, limit: c["limit"].as_u64().ok_or("limit")? as usize, family: "replayed" });
    }
    Ok((name, h, calls))
}

/// Minimise a failing decode history: ddmin over calls, then argument simplification.
pub fn minimise_decode_history(name: &str, h: &BitMat, calls: &[DecodeCall]) -> Vec<DecodeCall> {
    let fails = |cs: &[DecodeCall]| run_decode_history(name, h, cs, &mut Counters::default()).is_some();
    // keep only the prefix up to the failing call
    let upto = run_decode_history(name, h, calls, &mut Counters::default()).map(|x| x.0 + 1).unwrap_or(calls.len());
    let mut cur = ddmin(&calls[..upto], &fails, 200);
    // simplify arguments: limits smaller, LLRs -> +-1
    for i in 0..cur.len() {
        for lim in [0usize, 1, 2] {
            if lim < cur[i].limit {
                let mut c = cur.clone();
                c[i].limit = lim;
                if fails(&c) {
                    cur = c;
                    break;
                }
            }
        }
        let mut c = cur.clone();
        c[i].llrs = c[i].llrs.iter().map(|&x| if x <= 0.0 { -1.0 } else { 1.0 }).collect();
        if fails(&c) {
            cur = c;
        }
    }
    cur
}

// ===========================================================================
// C17: sparse-matrix editing histories
// ===========================================================================

#[derive(Clone, Debug, PartialEq)]
pub enum MatOp {
    Insert(usize, usize),
    Remove(usize, usize),
    Toggle(usize, usize),
    ClearRow(usize),
    ClearCol(usize),
    SetRow(usize, Vec<usize>),
    SetCol(usize, Vec<usize>),
    InsertRow(usize, Vec<usize>),
    InsertCol(usize, Vec<usize>),
}

impl MatOp {
    pub fn to_json(&self) -> Value {
        match self {
            MatOp::Insert(r, c) => json!(["insert", r, c]),
            MatOp::Remove(r, c) => json!(["remove", r, c]),
            MatOp::Toggle(r, c) => json!(["toggle", r, c]),
            MatOp::ClearRow(r) => json!(["clear_row", r]),
            MatOp::ClearCol(c) => json!(["clear_col", c]),
            MatOp::SetRow(r, v) => json!(["set_row", r, v]),
            MatOp::SetCol(c, v) => json!(["set_col", c, v]),
            MatOp::InsertRow(r, v) => json!(["insert_row", r, v]),
            MatOp::InsertCol(c, v) => json!(["insert_col", c, v]),
        }
    }
    pub fn from_json(v: &Value) -> Option<MatOp> {
        let a = v.as_array()?;
        let u = |i: usize| a.get(i).and_then(|x| x.as_u64()).map(|x| x as usize);
        let l = |i: usize| a.get(i).and_then(|x| x.as_array()).map(|x| x.iter().filter_map(|y| y.as_u64().map(|z| z as usize)).collect::<Vec<_>>());
        Some(match a.first()?.as_str()? {
            "insert" => MatOp::Insert(u(1)?, u(2)?),
            "remove" => MatOp::Remove(u(1)?, u(2)?),
            "toggle" => MatOp::Toggle(u(1)?, u(2)?),
            "clear_row" => MatOp::ClearRow(u(1)?),
            "clear_col" => MatOp::ClearCol(u(1)?),
            "set_row" => MatOp::SetRow(u(1)?, l(2)?),
            "set_col" => MatOp::SetCol(u(1)?, l(2)?),
            "insert_row" => MatOp::InsertRow(u(1)?, l(2)?),
            "insert_col" => MatOp::InsertCol(u(1)?, l(2)?),
            _ => return None,
        })
    }
}

pub fn gen_mat_history(seed: u64, idx: u64) -> (usize, usize, Vec<MatOp>) {
    let mut g = Stream::new(keyed(seed, &[idx]), "c17-history");
    let (nr, nc) = match g.below(20) {
        0 => (1, 40),
        1 => (40, 1),
        2 => (1, 1),
        // beyond 64 and 128 lines (a per-line bitmap or signature of one machine word folds
        // indices that far apart together: seeded change C17-r6-1)
        3 => (65 + g.below(70) as usize, 1 + g.below(3) as usize),
        4 => (1 + g.below(3) as usize, 65 + g.below(70) as usize),
        _ => (1 + g.below(9) as usize, 1 + g.below(9) as usize),
    };
    let nops = 1 + g.below(60) as usize;
    let mut model: BTreeSet<(usize, usize)> = BTreeSet::new();
    let mut ops = Vec::new();
    let list = |g: &mut Stream, bound: usize| -> Vec<usize> {
        let len = g.below(bound as u64 + 3) as usize;
        // duplicates on purpose
        (0..len).map(|_| g.below(bound as u64) as usize).collect()
    };
    for _ in 0..nops {
        let r = g.below(nr as u64) as usize;
        let c = g.below(nc as u64) as usize;
        let present: Vec<(usize, usize)> = model.iter().cloned().collect();
        let op = match g.below(100) {
            0..=17 => MatOp::Insert(r, c),
            // duplicate delivery: insert something present
            18..=27 if !present.is_empty() => {
                let p = *g.pick(&present);
                MatOp::Insert(p.0, p.1)
            }
            18..=27 => MatOp::Insert(r, c),
            28..=37 if !present.is_empty() => {
                let p = *g.pick(&present);
                MatOp::Remove(p.0, p.1)
            }
            // remove something absent (most random positions are)
            28..=42 => MatOp::Remove(r, c),
            43..=54 => MatOp::Toggle(r, c),
            55..=60 => MatOp::ClearRow(r),
            61..=66 => MatOp::ClearCol(c),
            67..=74 => MatOp::SetRow(r, list(&mut g, nc)),
            75..=82 => MatOp::SetCol(c, list(&mut g, nr)),
            83..=91 => MatOp::InsertRow(r, list(&mut g, nc)),
            _ => MatOp::InsertCol(c, list(&mut g, nr)),
        };
        apply_model(&mut model, &op);
        ops.push(op);
    }
    (nr, nc, ops)
}

pub fn apply_model(m: &mut BTreeSet<(usize, usize)>, op: &MatOp) {
    match op {
        MatOp::Insert(r, c) => {
            m.insert((*r, *c));
        }
        MatOp::Remove(r, c) => {
            m.remove(&(*r, *c));
        }
        MatOp::Toggle(r, c) => {
            if !m.remove(&(*r, *c)) {
                m.insert((*r, *c));
            }
        }
        MatOp::ClearRow(r) => m.retain(|p| p.0 != *r),
        MatOp::ClearCol(c) => m.retain(|p| p.1 != *c),
        MatOp::SetRow(r, v) => {
            m.retain(|p| p.0 != *r);
            for c in v {
                m.insert((*r, *c));
            }
        }
        MatOp::SetCol(c, v) => {
            m.retain(|p| p.1 != *c);
            for r in v {
                m.insert((*r, *c));
            }
        }
        MatOp::InsertRow(r, v) => {
            for c in v {
                m.insert((*r, *c));
            }
        }
        MatOp::InsertCol(c, v) => {
            for r in v {
                m.insert((*r, *c));
            }
        }
    }
}

macro_rules! deliver {
    ($v:expr, |$it:ident| $call:expr) => {{
        let v: &Vec<usize> = $v;
        match delivery_style(v) {
            0 => {
                let $it = v.iter();
                $call
            }
            1 => {
                let $it = v.iter().copied();
                $call
            }
            2 => {
                let $it = v.iter().filter(|_| true);
                $call
            }
            3 => {
                let $it = v.iter().flat_map(|x| std::iter::once(*x));
                $call
            }
            4 => {
                let $it = NoHint(v, 0);
                $call
            }
            _ => {
                let (a, b) = v.split_at(v.len() / 2);
                let $it = a.iter().chain(b.iter());
                $call
            }
        }
    }};
}

pub fn apply_real(h: &mut SparseMatrix, op: &MatOp) {
    match op {
        MatOp::Insert(r, c) => h.insert(*r, *c),
        MatOp::Remove(r, c) => h.remove(*r, *c),
        MatOp::Toggle(r, c) => h.toggle(*r, *c),
        MatOp::ClearRow(r) => h.clear_row(*r),
        MatOp::ClearCol(c) => h.clear_col(*c),
        MatOp::SetRow(r, v) => deliver!(v, |it| h.set_row(*r, it)),
        MatOp::SetCol(c, v) => deliver!(v, |it| h.set_col(*c, it)),
        MatOp::InsertRow(r, v) => deliver!(v, |it| h.insert_row(*r, it)),
        MatOp::InsertCol(c, v) => deliver!(v, |it| h.insert_col(*c, it)),
    }
}

/// An iterator that says nothing about its length (`size_hint` = (0, None)).
struct NoHint<'a>(&'a [usize], usize);
impl Iterator for NoHint<'_> {
    type Item = usize;
    fn next(&mut self) -> Option<usize> {
        let x = self.0.get(self.1).copied();
        self.1 += 1;
        x
    }
}

/// Which kind of iterator carries an index list to the bulk operations: a function of the
/// list itself (so a replay delivers it the same way). The bulk operations take any
/// `Iterator<Item: Borrow<usize>>`; slices report their exact length, filters and custom
/// iterators report a lower bound of 0, chains and flat-maps something in between — a bulk
/// path that trusts `size_hint` (seeded change C17-r4-1) shows only with the latter.
pub fn delivery_style(v: &[usize]) -> usize {
    (v.iter().fold(v.len() as u64 * 7 + 3, |a, &x| a.wrapping_mul(31).wrapping_add(x as u64)) % 6) as usize
}

fn check_against_model(h: &SparseMatrix, m: &BTreeSet<(usize, usize)>, nr: usize, nc: usize) -> Option<String> {
    if h.num_rows() != nr || h.num_cols() != nc {
        return Some(format!("dimensions changed to {}x{}", h.num_rows(), h.num_cols()));
    }
    for r in 0..nr {
        for c in 0..nc {
            if h.contains(r, c) != m.contains(&(r, c)) {
                return Some(format!("contains({},{}) = {} but the set says {}", r, c, h.contains(r, c), m.contains(&(r, c))));
            }
        }
    }
    let mut from_rows: Vec<(usize, usize)> = Vec::new();
    for r in 0..nr {
        let want: Vec<usize> = m.iter().filter(|p| p.0 == r).map(|p| p.1).collect();
        if h.row_weight(r) != want.len() {
            return Some(format!("row_weight({}) = {} but the set has {}", r, h.row_weight(r), want.len()));
        }
        let mut got: Vec<usize> = h.iter_row(r).cloned().collect();
        let n = got.len();
        got.sort_unstable();
        got.dedup();
        if got.len() != n {
            return Some(format!("iter_row({}) yields duplicates", r));
        }
        if got != want {
            return Some(format!("iter_row({}) = {:?} but the set has {:?}", r, got, want));
        }
        from_rows.extend(got.iter().map(|&c| (r, c)));
    }
    let mut from_cols: Vec<(usize, usize)> = Vec::new();
    for c in 0..nc {
        let want: Vec<usize> = m.iter().filter(|p| p.1 == c).map(|p| p.0).collect();
        if h.col_weight(c) != want.len() {
            return Some(format!("col_weight({}) = {} but the set has {}", c, h.col_weight(c), want.len()));
        }
        let mut got: Vec<usize> = h.iter_col(c).cloned().collect();
        let n = got.len();
        got.sort_unstable();
        got.dedup();
        if got.len() != n {
            return Some(format!("iter_col({}) yields duplicates", c));
        }
        if got != want {
            return Some(format!("iter_col({}) = {:?} but the set has {:?}", c, got, want));
        }
        from_cols.extend(got.iter().map(|&r| (r, c)));
    }
    from_cols.sort_unstable();
    if from_rows != from_cols {
        return Some("row view and column view describe different sets".into());
    }
    let mut all: Vec<(usize, usize)> = h.iter_all().collect();
    let n = all.len();
    all.sort_unstable();
    all.dedup();
    if all.len() != n {
        return Some("iter_all yields duplicates".into());
    }
    if all != m.iter().cloned().collect::<Vec<_>>() {
        return Some(format!("iter_all = {:?} but the set is {:?}", all, m));
    }
    None
}

/// Run a matrix history; returns (index of failing op, description).
pub fn run_mat_history(nr: usize, nc: usize, ops: &[MatOp], stats: &mut Counters) -> Option<(usize, String)> {
    let mut h = SparseMatrix::new(nr, nc);
    let mut m: BTreeSet<(usize, usize)> = BTreeSet::new();
    for (i, op) in ops.iter().enumerate() {
        let before = h.clone();
        let model_before = m.clone();
        let r = dstsim::quiet(|| catch_unwind(AssertUnwindSafe(|| apply_real(&mut h, op))));
        if r.is_err() {
            return Some((i, format!("op {} {:?} panicked: {}", i, op, dstsim::take_last_panic().unwrap_or_default())));
        }
        apply_model(&mut m, op);
        if let Some(d) = check_against_model(&h, &m, nr, nc) {
            return Some((i, format!("after op {} {:?}: {}", i, op, d)));
        }
        // no-op operations leave the matrix equal to what it was
        let noop = m == model_before;
        match op {
            MatOp::Insert(..) if noop => {
                stats.inc("insert of a present entry");
                if h != before {
                    return Some((i, format!("op {} {:?}: inserting a present entry changed the matrix (== fails)", i, op)));
                }
            }
            MatOp::Remove(..) if noop => {
                stats.inc("remove of an absent entry");
                if h != before {
                    return Some((i, format!("op {} {:?}: removing an absent entry changed the matrix (== fails)", i, op)));
                }
            }
            _ => {}
        }
        stats.inc(match op {
            MatOp::Insert(..) => "op/insert",
            MatOp::Remove(..) => "op/remove",
            MatOp::Toggle(..) => "op/toggle",
            MatOp::ClearRow(..) => "op/clear_row",
            MatOp::ClearCol(..) => "op/clear_col",
            MatOp::SetRow(..) => "op/set_row",
            MatOp::SetCol(..) => "op/set_col",
            MatOp::InsertRow(..) => "op/insert_row",
            MatOp::InsertCol(..) => "op/insert_col",
        });
    }
    None
}

pub fn minimise_mat_history(nr: usize, nc: usize, ops: &[MatOp]) -> Vec<MatOp> {
    let fails = |o: &[MatOp]| run_mat_history(nr, nc, o, &mut Counters::default()).is_some();
    let upto = run_mat_history(nr, nc, ops, &mut Counters::default()).map(|x| x.0 + 1).unwrap_or(ops.len());
    let mut cur = ddmin(&ops[..upto], &fails, 400);
    // simplify list arguments
    for i in 0..cur.len() {
        let shrink = |v: &Vec<usize>| -> Vec<Vec<usize>> {
            let mut out = vec![Vec::new()];
            for j in 0..v.len() {
                let mut w = v.clone();
                w.remove(j);
                out.push(w);
            }
            out
        };
        let cands: Vec<MatOp> = match &cur[i] {
            MatOp::SetRow(r, v) => shrink(v).into_iter().map(|w| MatOp::SetRow(*r, w)).collect(),
            MatOp::SetCol(c, v) => shrink(v).into_iter().map(|w| MatOp::SetCol(*c, w)).collect(),
            MatOp::InsertRow(r, v) => shrink(v).into_iter().map(|w| MatOp::InsertRow(*r, w)).collect(),
            MatOp::InsertCol(c, v) => shrink(v).into_iter().map(|w| MatOp::InsertCol(*c, w)).collect(),
            _ => vec![],
        };
        for cand in cands {
            let mut c = cur.clone();
            c[i] = cand;
            if fails(&c) {
                cur = c;
                break;
            }
        }
    }
    cur
}
