//! C12 — the BER chain hands the decoder correctly ordered, correctly scaled LLRs.
//!
//! A simulator-owned "genie" decoder sits inside every simulated worker, records each LLR
//! vector, checks its structure and returns the codeword completed from the transmitted
//! signs (with scripted single-bit flips), so that the collector's bit-error count reveals
//! whether the word's prefix is the worker's message. The channel RNG is the simulator's
//! seeded entropy stream, so the noise statistics replay exactly.

use crate::bersim::*;
use crate::c13::{base_cfg, divisors, gen_chain, FaultClass};
use crate::campaign::*;
use crate::common::*;
use crate::gf2::*;
use dstsim::{RunResult, Stream, keyed};
use serde_json::json;

/// Complete the transmitted signs to a codeword: punctured positions carry no sign, so they
/// are solved for with the harness's own elimination. Returns the word and whether the
/// completion was ambiguous (more than one codeword agrees with the transmitted signs);
/// None if no codeword agrees.
pub fn complete_codeword(cfg: &BerCfg, llrs: &[f64]) -> Option<(Vec<u8>, bool)> {
    let n = cfg.n_cw();
    let kept = cfg.kept_mask();
    let known: Vec<usize> = (0..n).filter(|&i| kept[i]).collect();
    let unknown: Vec<usize> = (0..n).filter(|&i| !kept[i]).collect();
    let mut c: Vec<u8> = llrs.iter().map(|&x| u8::from(x <= 0.0)).collect();
    if unknown.is_empty() {
        return if cfg.h.is_codeword(&c) { Some((c, false)) } else { None };
    }
    // H_u x = H_k c_k
    let mut a = BitMat::zeros(cfg.h.r, unknown.len());
    let mut b = vec![0u8; cfg.h.r];
    for i in 0..cfg.h.r {
        for (jj, &j) in unknown.iter().enumerate() {
            a.a[i][jj] = cfg.h.a[i][j];
        }
        for &j in &known {
            b[i] ^= cfg.h.a[i][j] & c[j];
        }
    }
    let (x, free) = solve(&a, &b)?;
    for (jj, &j) in unknown.iter().enumerate() {
        c[j] = x[jj];
    }
    Some((c, free > 0))
}

// ---------------------------------------------------------------------------
// the harness's own chain model
// ---------------------------------------------------------------------------

pub fn bits_per_symbol(cfg: &BerCfg) -> f64 {
    if cfg.psk8 { 3.0 } else { 1.0 }
}

pub fn expected_sigma(cfg: &BerCfg, ebn0_db: f32) -> f64 {
    let l = cfg.tx_len().unwrap() as f64;
    let rate = cfg.k() as f64 / l;
    let ebn0 = 10f64.powf(0.1 * f64::from(ebn0_db));
    (0.5 / (rate * bits_per_symbol(cfg) * ebn0)).sqrt()
}

/// Eb/N0 (dB) at which every sample is at least 9 sigma (+3 dB margin) from a decision boundary.
pub fn safe_ebn0_db(cfg: &BerCfg) -> f32 {
    let l = cfg.tx_len().unwrap() as f64;
    let rate = cfg.k() as f64 / l;
    let esn0_db = if cfg.psk8 { 27.5 } else { 19.1 };
    (esn0_db - 10.0 * (rate * bits_per_symbol(cfg)).log10()) as f32
}

/// keep the transmitted blocks, in order
pub fn own_puncture<T: Copy>(cfg: &BerCfg, v: &[T]) -> Vec<T> {
    let kept = cfg.kept_mask();
    v.iter().zip(kept).filter(|(_, k)| *k).map(|(x, _)| *x).collect()
}

/// DVB-S2 column-write/row-read: out[r*C+c] = in[c*R+r] (columns reversed when backwards)
pub fn own_interleave<T: Copy>(cfg: &BerCfg, v: &[T]) -> Vec<T> {
    match cfg.interleaving {
        None => v.to_vec(),
        Some(c) => {
            let cols = c.unsigned_abs();
            let rows = v.len() / cols;
            let mut out = Vec::with_capacity(v.len());
            for r in 0..rows {
                for cc in 0..cols {
                    let src_col = if c < 0 { cols - 1 - cc } else { cc };
                    out.push(v[src_col * rows + r]);
                }
            }
            out
        }
    }
}

const A: f64 = std::f64::consts::FRAC_1_SQRT_2;
/// DVB-S2 Gray 8PSK: (b0,b1,b2) -> point
pub fn psk8_point(b0: u8, b1: u8, b2: u8) -> (f64, f64) {
    match (b0, b1, b2) {
        (0, 0, 0) => (A, A),
        (1, 0, 0) => (0.0, 1.0),
        (1, 1, 0) => (-A, A),
        (0, 1, 0) => (-1.0, 0.0),
        (0, 1, 1) => (-A, -A),
        (1, 1, 1) => (0.0, -1.0),
        (1, 0, 1) => (A, -A),
        _ => (1.0, 0.0),
    }
}

fn lse(xs: &[f64]) -> f64 {
    let m = xs.iter().cloned().fold(f64::NEG_INFINITY, f64::max);
    m + xs.iter().map(|x| (x - m).exp()).sum::<f64>().ln()
}

/// posterior LLRs of the three bits for scaled sample (u,v) = r / sigma^2, with Jacobian
fn psk8_llrs(u: f64, v: f64) -> ([f64; 3], [[f64; 2]; 3]) {
    let mut pts = Vec::with_capacity(8);
    for b0 in 0..2u8 {
        for b1 in 0..2u8 {
            for b2 in 0..2u8 {
                let (x, y) = psk8_point(b0, b1, b2);
                pts.push(([b0, b1, b2], x, y, u * x + v * y));
            }
        }
    }
    let mut out = [0.0; 3];
    let mut jac = [[0.0; 2]; 3];
    for i in 0..3 {
        let d0: Vec<f64> = pts.iter().filter(|p| p.0[i] == 0).map(|p| p.3).collect();
        let d1: Vec<f64> = pts.iter().filter(|p| p.0[i] == 1).map(|p| p.3).collect();
        let (l0, l1) = (lse(&d0), lse(&d1));
        out[i] = l0 - l1;
        for p in &pts {
            let (wgt, sign) = if p.0[i] == 0 { ((p.3 - l0).exp(), 1.0) } else { ((p.3 - l1).exp(), -1.0) };
            jac[i][0] += sign * wgt * p.1;
            jac[i][1] += sign * wgt * p.2;
        }
    }
    (out, jac)
}

/// Invert the 8PSK soft demodulator: find the scaled sample whose posterior LLRs are `b`.
/// Returns (u, v, residual).
pub fn psk8_invert(b: [f64; 3]) -> (f64, f64, f64) {
    // start: direction of the hard-decision point, magnitude from the largest LLR
    let hd = [u8::from(b[0] <= 0.0), u8::from(b[1] <= 0.0), u8::from(b[2] <= 0.0)];
    let (x, y) = psk8_point(hd[0], hd[1], hd[2]);
    let mag = b.iter().map(|t| t.abs()).fold(0.0, f64::max).max(1.0);
    let (mut u, mut v) = (x * mag, y * mag);
    let mut res = f64::INFINITY;
    for _ in 0..60 {
        let (f, j) = psk8_llrs(u, v);
        let r = [f[0] - b[0], f[1] - b[1], f[2] - b[2]];
        res = (r[0] * r[0] + r[1] * r[1] + r[2] * r[2]).sqrt();
        if res < 1e-9 * (1.0 + mag) {
            break;
        }
        // Gauss-Newton step: (J^T J) d = -J^T r
        let (mut a11, mut a12, mut a22, mut g1, mut g2) = (0.0, 0.0, 0.0, 0.0, 0.0);
        for i in 0..3 {
            a11 += j[i][0] * j[i][0];
            a12 += j[i][0] * j[i][1];
            a22 += j[i][1] * j[i][1];
            g1 += j[i][0] * r[i];
            g2 += j[i][1] * r[i];
        }
        let det = a11 * a22 - a12 * a12;
        if det.abs() < 1e-300 {
            break;
        }
        let du = -(a22 * g1 - a12 * g2) / det;
        let dv = -(-a12 * g1 + a11 * g2) / det;
        // damped step
        let mut step = 1.0;
        for _ in 0..30 {
            let (f2, _) = psk8_llrs(u + step * du, v + step * dv);
            let r2 = ((f2[0] - b[0]).powi(2) + (f2[1] - b[1]).powi(2) + (f2[2] - b[2]).powi(2)).sqrt();
            if r2 <= res {
                break;
            }
            step *= 0.5;
        }
        u += step * du;
        v += step * dv;
    }
    (u, v, res)
}

/// Noise samples of one frame (per real dimension: BPSK one value per symbol, 8PSK two),
/// plus the projection of the received sample on the transmitted symbol (amplitude).
pub struct FrameNoise {
    pub noise: Vec<f64>,
    /// (re, im) pairs for complex channels
    pub pairs: Vec<(f64, f64)>,
    pub amp_num: f64,
    pub amp_den: f64,
    pub max_residual: f64,
}

pub fn frame_noise(cfg: &BerCfg, sigma: f64, llrs: &[f64], c: &[u8]) -> FrameNoise {
    let tx_bits = own_interleave(cfg, &own_puncture(cfg, c));
    let tx_llrs = own_interleave(cfg, &own_puncture(cfg, llrs));
    let mut out = FrameNoise { noise: Vec::new(), pairs: Vec::new(), amp_num: 0.0, amp_den: 0.0, max_residual: 0.0 };
    if cfg.psk8 {
        for (bits, l) in tx_bits.chunks(3).zip(tx_llrs.chunks(3)) {
            let (u, v, res) = psk8_invert([l[0], l[1], l[2]]);
            let (x, y) = (u * sigma * sigma, v * sigma * sigma);
            let (sx, sy) = psk8_point(bits[0], bits[1], bits[2]);
            out.noise.push(x - sx);
            out.noise.push(y - sy);
            out.pairs.push((x - sx, y - sy));
            out.amp_num += x * sx + y * sy;
            out.amp_den += 1.0;
            let scale = l.iter().map(|t| t.abs()).fold(1.0, f64::max);
            out.max_residual = out.max_residual.max(res / scale);
        }
    } else {
        for (&b, &l) in tx_bits.iter().zip(tx_llrs.iter()) {
            let x = -l * sigma * sigma / 2.0;
            let s = if b == 1 { 1.0 } else { -1.0 };
            out.noise.push(x - s);
            out.amp_num += x * s;
            out.amp_den += 1.0;
        }
    }
    out
}

// ---------------------------------------------------------------------------
// structural oracle
// ---------------------------------------------------------------------------

pub fn oracle_c12(cfg: &BerCfg, obs: &BerObs) -> (Vec<Violation>, OracleStats) {
    let (v, st) = oracle_c12_reading(cfg, obs);
    if !v.iter().any(|x| x.kind == "systematic-prefix") {
        return (v, st);
    }
    // the accounting depends on which frames a message reports (see bersim::BATCH_READING)
    crate::bersim::BATCH_READING.with(|b| b.set(true));
    let (v2, st2) = oracle_c12_reading(cfg, obs);
    crate::bersim::BATCH_READING.with(|b| b.set(false));
    if v2.is_empty() { (v2, st2) } else { (v, st) }
}

fn oracle_c12_reading(cfg: &BerCfg, obs: &BerObs) -> (Vec<Violation>, OracleStats) {
    let mut v = Vec::new();
    let mut st = OracleStats { probes: Counters::default(), frames_total: 0, chain_skipped: false };
    let out = &obs.outcome;
    let root = match &out.result {
        RunResult::Done(r) => r,
        other => {
            // termination problems are C13's business
            st.probes.inc(&format!("not judged: run ended with {}", other.kind()));
            st.chain_skipped = true;
            return (v, st);
        }
    };
    if root.build_err.is_some() {
        st.chain_skipped = true;
        return (v, st);
    }
    let n = cfg.n_cw();
    let k = cfg.k();
    let l = cfg.tx_len().unwrap();
    // reported sizes
    if let Some((rn, rncw, rk, rrate)) = root.dims {
        let want_rate = k as f64 / l as f64;
        if rn != l || rncw != n || rk != k || (rrate - want_rate).abs() > 1e-12 * want_rate {
            v.push(Violation::new(
                "dims",
                format!("reported (n, n_cw, k, rate) = ({}, {}, {}, {}) but the configuration gives ({}, {}, {}, {})", rn, rncw, rk, rrate, l, n, k, want_rate),
            ));
        }
    }
    let hist = extract_history(cfg, &out.events, root.report_chan);
    for a in &hist.anomalies {
        if a.starts_with("wrong-") {
            v.push(Violation::new("frame-shape", a.clone()));
        }
    }
    let kept = cfg.kept_mask();
    let mut ambiguous_any = false;
    for (e, w, j, llrs) in &obs.llrs {
        st.frames_total += 1;
        if llrs.len() != n {
            v.push(Violation::new("frame-shape", format!("frame ({},{},{}) has length {} instead of {}", e, w, j, llrs.len(), n)));
            continue;
        }
        let mut bad_zero = None;
        for i in 0..n {
            let x = llrs[i];
            if x.is_nan() {
                bad_zero = Some((i, "NaN"));
            } else if !kept[i] && x != 0.0 {
                bad_zero = Some((i, "punctured position is not exactly zero"));
            } else if kept[i] && x == 0.0 {
                bad_zero = Some((i, "transmitted position carries a zero LLR"));
            }
        }
        if let Some((i, what)) = bad_zero {
            v.push(Violation::new("puncturing", format!("frame ({},{},{}) position {}: {} (llr {:e})", e, w, j, i, what, llrs[i])));
            continue;
        }
        match complete_codeword(cfg, llrs) {
            None => {
                v.push(Violation::new(
                    "signs",
                    format!("frame ({},{},{}): the signs at the transmitted positions do not extend to a codeword", e, w, j),
                ));
            }
            Some((c, amb)) => {
                if amb {
                    ambiguous_any = true;
                    st.probes.inc("ambiguous completion");
                }
                // per-frame noise plausibility (residual of the 8PSK inversion)
                let sigma = expected_sigma(cfg, cfg.ebn0s_db[*e]);
                let fnz = frame_noise(cfg, sigma, llrs, &c);
                // Gaussian noise is never exactly zero: a received BPSK sample that sits exactly
                // on its constellation point (to 1e-12 sigma; the chance of that under the stated
                // distribution is below 1e-12 per sample) was not given any noise (seeded change
                // C12-r5-1: the first 32 samples of every new channel object are noiseless)
                if !cfg.psk8 {
                    let nz = fnz.noise.iter().filter(|x| x.abs() < 1e-12 * sigma).count();
                    if nz > 0 {
                        v.push(Violation::new(
                            "noise-frame",
                            format!("frame ({},{},{}): {} of {} received samples carry no noise at all (they sit exactly on their constellation points)", e, w, j, nz, fnz.noise.len()),
                        ));
                    }
                }
                if fnz.max_residual > 1e-6 {
                    v.push(Violation::new(
                        "signs",
                        format!("frame ({},{},{}): LLR triples are not the posteriors of any received 8PSK sample (relative residual {:e}); order within symbols is broken", e, w, j, fnz.max_residual),
                    ));
                }
            }
        }
    }
    // systematic prefix, read off the collector's statistics
    if ambiguous_any {
        st.probes.inc("skipped/bit-error accounting (ambiguous completion)");
    } else if let Some(Ok(stats)) = &root.result {
        for (e, p) in hist.points.iter().enumerate() {
            let Some(s) = stats.get(e) else { continue };
            let mut want = 0u64;
            let mut want_fe = 0u64;
            let mut ok = true;
            if p.recvs.is_empty() && p.untransported > 0 {
                // the frames do not travel to the collector over a channel (another design than
                // the present one): which of them were counted is not observable; the counters
                // must still be those of some whole frames of the point (a prefix per task)
                st.probes.inc("systematic-prefix accounting without an observable transport (order-free)");
                match crate::bersim::tier2_find(p, s, cfg.bch_max_errors, 400_000) {
                    Some(None) => v.push(Violation::new(
                        "systematic-prefix",
                        format!("point {}: the collector counted {} bit errors in {} frame errors over {} frames, which no set of the frames handed to the decoders (with their injected systematic bit flips) explains: the first k bits of the word are not the worker's message", e, s.ldpc.bit_errors, s.ldpc.frame_errors, s.num_frames),
                    )),
                    Some(Some(_)) => {}
                    None => st.probes.inc("tier-2 search budget exhausted (not judged)"),
                }
                continue;
            }
            // the collector counts the frames in the order it receives them; what it receives
            // after it has stopped counting (a queue drained at shutdown) is not counted
            for &(wi, seq) in p.recvs.iter().take(s.num_frames as usize) {
                match p.frames.get(&(wi, seq)) {
                    Some(&(be, _, _)) => {
                        want += be;
                        want_fe += u64::from(be > 0);
                    }
                    None => ok = false,
                }
            }
            if ok && (s.ldpc.bit_errors != want || s.ldpc.frame_errors != want_fe) {
                v.push(Violation::new(
                    "systematic-prefix",
                    format!(
                        "point {}: the decoder returned the completed codeword with {} injected systematic bit flips in {} frames, but the collector counted {} bit errors in {} frames: the first k bits of the word are not the worker's message",
                        e, want, want_fe, s.ldpc.bit_errors, s.ldpc.frame_errors
                    ),
                ));
            }
        }
    }
    if cfg.puncturing.is_some() {
        st.probes.inc("punctured configuration");
    }
    if cfg.interleaving.is_some() {
        st.probes.inc("interleaved configuration");
    }
    if cfg.psk8 {
        st.probes.inc("8PSK configuration");
    }
    if let Some(p) = &cfg.puncturing {
        let b = n / p.len();
        if (0..p.len()).any(|i| !p[i] && i * b < k) {
            st.probes.inc("information bits punctured");
        }
    }
    (v, st)
}

pub fn generate(seed: u64, run: u64) -> BerCfg {
    let mut g = Stream::new(keyed(seed, &[run]), "c12-config");
    let (k, r) = loop {
        let n = *g.pick(&[6usize, 8, 9, 10, 12, 12, 15, 16, 18, 18, 20, 24, 24, 30, 36, 40, 42, 45, 48, 54, 56, 60, 63, 72]);
        let r = 1 + g.below(10.min(n as u64 - 1)) as usize;
        let k = n - r;
        if (1..=70).contains(&k) {
            break (k, r);
        }
    };
    let tail = if g.chance(1, 2) { Tail::Staircase } else { Tail::Invertible };
    let h = random_code(&mut g, k, r, tail, 1);
    let mut cfg = base_cfg(&mut g, seed, run, h);
    cfg.factory = FactoryKind::Genie;
    cfg.workers = *g.pick(&[1usize, 2, 2, 3, 4]);
    cfg.max_frame_errors = *g.pick(&[1u64, 2, 3, 5, 8]);
    cfg.max_iterations = 5;
    cfg.reporter_interval_ns = None;
    // an outer-code threshold is not part of (H, modulation, puncturing, interleaver, Eb/N0): the
    // chain, the noise and the reported sizes must not depend on it (seeded change C12-r5-2
    // takes "BCH parity bits" off the rate)
    cfg.bch_max_errors = if k > 3 { *g.pick(&[0u64, 0, 0, 1, 2]) } else { 0 };
    let keep_sys = g.chance(1, 2);
    for _ in 0..20 {
        gen_chain(&mut g, &mut cfg, keep_sys, FaultClass::None);
        if !cfg.stage_error() && !cfg.stage_panic() {
            break;
        }
    }
    let base = safe_ebn0_db(&cfg);
    let np = *g.pick(&[1usize, 1, 2]);
    // points 3 dB apart: the LLR scale then identifies the point a frame was generated for
    // (a factor 2 per point against a few percent of noise on the frame mean)
    cfg.ebn0s_db = (0..np).map(|i| base + 3.0 * i as f32).collect();
    cfg
}

// ---------------------------------------------------------------------------
// calibration: noise statistics
// ---------------------------------------------------------------------------

pub fn calibration_cfgs(seed: u64, big: bool) -> Vec<BerCfg> {
    let mut out = Vec::new();
    // (n_cw, r, psk8, pattern, interleaving)
    let specs: Vec<(usize, usize, bool, Option<Vec<bool>>, Option<isize>)> = vec![
        (60, 20, false, None, None),
        (60, 24, false, Some(vec![true, true, true, true, false]), Some(6)),
        (60, 30, false, Some(vec![true, true, false, true, false, true]), Some(-5)),
        (60, 20, true, None, None),
        (72, 24, true, Some(vec![true, true, true, false]), Some(3)),
        (72, 36, true, Some(vec![true, true, true, true, false, true]), Some(-6)),
    ];
    for (i, (n, r, psk8, pat, il)) in specs.into_iter().enumerate() {
        let mut g = Stream::new(keyed(seed, &[i as u64]), "c12-calibration");
        let k = n - r;
        let tail = if i % 2 == 0 { Tail::Staircase } else { Tail::Invertible };
        let h = random_code(&mut g, k, r, tail, 2);
        let mut cfg = base_cfg(&mut g, seed, 1_000_000 + i as u64, h);
        cfg.factory = FactoryKind::Genie;
        cfg.psk8 = psk8;
        cfg.puncturing = pat;
        cfg.interleaving = il;
        cfg.workers = 2 + i % 3;
        // a third of the frames carry a scripted flip: F frame errors ~ 3F frames per point
        cfg.max_frame_errors = if big { 900 } else { 260 };
        cfg.max_iterations = 5;
        cfg.reporter_interval_ns = None;
        let base = safe_ebn0_db(&cfg);
        cfg.ebn0s_db = vec![base, base + 1.5];
        cfg.max_steps = 4_000_000;
        assert!(!cfg.stage_error() && !cfg.stage_panic());
        out.push(cfg);
    }
    out
}

#[derive(Default, Clone)]
struct Acc {
    n: f64,
    s1: f64,
    s2: f64,
}
impl Acc {
    fn add(&mut self, x: f64) {
        self.n += 1.0;
        self.s1 += x;
        self.s2 += x * x;
    }
    fn mean(&self) -> f64 {
        self.s1 / self.n
    }
    fn var(&self) -> f64 {
        self.s2 / self.n - self.mean() * self.mean()
    }
}

#[derive(Default, Clone)]
struct Corr {
    n: f64,
    sxy: f64,
    sxx: f64,
    syy: f64,
}
impl Corr {
    fn add(&mut self, x: f64, y: f64) {
        self.n += 1.0;
        self.sxy += x * y;
        self.sxx += x * x;
        self.syy += y * y;
    }
    fn r(&self) -> f64 {
        self.sxy / (self.sxx * self.syy).sqrt()
    }
}

pub fn check_noise(cfg: &BerCfg, obs: &BerObs, label: &str) -> (Vec<Violation>, serde_json::Value) {
    let mut v = Vec::new();
    let mut report = Vec::new();
    for (e, &ebn0) in cfg.ebn0s_db.iter().enumerate() {
        let sigma = expected_sigma(cfg, ebn0);
        let mut all = Acc::default();
        let mut re = Acc::default();
        let mut im = Acc::default();
        let mut reim = Corr::default();
        let mut lag1 = Corr::default();
        let mut lagk = [Corr::default(), Corr::default(), Corr::default()]; // lags 2, 3, 4
        let mut re_next_im = Corr::default();
        let mut im_next_re = Corr::default();
        let mut cross_worker = Corr::default();
        let mut cross_worker_lag = [Corr::default(), Corr::default()];
        let mut cross_frame = Corr::default();
        let (mut amp_num, mut amp_den) = (0.0, 0.0);
        let mut max_res: f64 = 0.0;
        // frames of this point, by worker
        let mut by_worker: std::collections::BTreeMap<usize, Vec<Vec<f64>>> = Default::default();
        let mut per_frame_bad: Option<String> = None;
        let mut frames_checked = 0u64;
        for (pe, w, _j, llrs) in obs.llrs.iter().filter(|x| x.0 == e) {
            let _ = pe;
            let Some((c, _)) = complete_codeword(cfg, llrs) else { continue };
            let fnz = frame_noise(cfg, sigma, llrs, &c);
            for &x in &fnz.noise {
                all.add(x);
            }
            // every frame on its own ("every frame of every worker"): the noise energy of one
            // frame is sigma^2 * chi^2_N / N. Wilson-Hilferty bounds at |z| = 8.5 (true tail
            // probabilities below 1e-18 for N >= 24), so no seed raises this on a correct chain,
            // while a frame without noise, or with the noise of a grossly different sigma, does
            // (seeded change C12-r4-3: a noiseless warm-up frame per worker).
            let nn = fnz.noise.len() as f64;
            if nn >= 24.0 {
                let q = fnz.noise.iter().map(|x| x * x).sum::<f64>() / (nn * sigma * sigma);
                let a = 2.0 / (9.0 * nn);
                let lo = (1.0 - a - 8.5 * a.sqrt()).max(0.0).powi(3);
                let hi = (1.0 - a + 8.5 * a.sqrt()).powi(3);
                frames_checked += 1;
                if !(q >= lo && q <= hi) && per_frame_bad.is_none() {
                    per_frame_bad = Some(format!(
                        "{} point {} (Eb/N0 {} dB, expected sigma {:.6}): frame {} of worker {}: noise energy / (N sigma^2) = {:.4e} with N = {} samples, outside [{:.3e}, {:.3e}] (a chi-square of N degrees of freedom leaves that interval with probability < 1e-18)",
                        label, e, ebn0, sigma, _j, w, q, nn, lo, hi
                    ));
                }
                let mu = fnz.noise.iter().sum::<f64>() / nn;
                if !(mu.abs() <= 8.5 * sigma / nn.sqrt()) && per_frame_bad.is_none() {
                    per_frame_bad = Some(format!("{} point {}: frame {} of worker {}: noise mean {:.4e} over {} samples, beyond 8.5 sigma/sqrt(N) = {:.3e}", label, e, _j, w, mu, nn, 8.5 * sigma / nn.sqrt()));
                }
            }
            for &(a, b) in &fnz.pairs {
                re.add(a);
                im.add(b);
                reim.add(a, b);
            }
            // lag-1 between consecutive symbols (same dimension)
            let series: Vec<f64> = if cfg.psk8 { fnz.pairs.iter().map(|p| p.0).collect() } else { fnz.noise.clone() };
            for wnd in series.windows(2) {
                lag1.add(wnd[0], wnd[1]);
            }
            for (li, lag) in [2usize, 3, 4].iter().enumerate() {
                for i in *lag..series.len() {
                    lagk[li].add(series[i - lag], series[i]);
                }
            }
            if cfg.psk8 {
                // one part of a sample against the other part of the next sample
                for wnd in fnz.pairs.windows(2) {
                    re_next_im.add(wnd[0].0, wnd[1].1);
                    im_next_re.add(wnd[0].1, wnd[1].0);
                }
            }
            amp_num += fnz.amp_num;
            amp_den += fnz.amp_den;
            max_res = max_res.max(fnz.max_residual);
            by_worker.entry(*w).or_default().push(fnz.noise);
        }
        // same index, consecutive frames of one worker; same index and frame number, two workers
        for frames in by_worker.values() {
            for pair in frames.windows(2) {
                for (a, b) in pair[0].iter().zip(pair[1].iter()) {
                    cross_frame.add(*a, *b);
                }
            }
        }
        let ws: Vec<&Vec<Vec<f64>>> = by_worker.values().collect();
        if ws.len() >= 2 {
            for (fa, fb) in ws[0].iter().zip(ws[1].iter()) {
                for (a, b) in fa.iter().zip(fb.iter()) {
                    cross_worker.add(*a, *b);
                }
            }
            // the same between frame j of one worker and frame j -/+ 1 of the other (generators
            // seeded with `seed + worker` per point and `+ frame` per frame collide exactly there:
            // seeded change C12-r8a-2)
            for (fa, fb) in ws[0].iter().skip(1).zip(ws[1].iter()) {
                for (a, b) in fa.iter().zip(fb.iter()) {
                    cross_worker_lag[0].add(*a, *b);
                }
            }
            for (fa, fb) in ws[0].iter().zip(ws[1].iter().skip(1)) {
                for (a, b) in fa.iter().zip(fb.iter()) {
                    cross_worker_lag[1].add(*a, *b);
                }
            }
        }
        if let Some(m) = per_frame_bad {
            v.push(Violation::new("noise-frame", m));
        }
        let n = all.n;
        if n < 5000.0 {
            v.push(Violation::new("calibration-size", format!("{} point {}: only {} noise samples", label, e, n)));
            continue;
        }
        let s2 = sigma * sigma;
        let tol_var = 7.0 * (2.0 / n).sqrt();
        let tol_mean = 7.0 * sigma / n.sqrt();
        let mut flag = |what: &str, got: f64, want: f64, tol: f64| {
            if !((got - want).abs() <= tol) {
                v.push(Violation::new(
                    "noise",
                    format!("{} point {} (Eb/N0 {} dB, expected sigma {:.6}): {} = {:.6e}, expected {:.6e} +- {:.2e} (N = {})", label, e, ebn0, sigma, what, got, want, tol, n),
                ));
            }
        };
        flag("noise mean", all.mean(), 0.0, tol_mean);
        flag("noise variance / sigma^2", all.var() / s2, 1.0, tol_var);
        if cfg.psk8 {
            let tol2 = 7.0 * (2.0 / re.n).sqrt();
            flag("real-part variance / sigma^2", re.var() / s2, 1.0, tol2);
            flag("imaginary-part variance / sigma^2", im.var() / s2, 1.0, tol2);
            flag("re/im correlation", reim.r(), 0.0, 7.0 / reim.n.sqrt());
        }
        flag("lag-1 correlation", lag1.r(), 0.0, 7.0 / lag1.n.sqrt());
        if cfg.psk8 {
            flag("correlation of a real part with the next sample's imaginary part", re_next_im.r(), 0.0, 7.0 / re_next_im.n.sqrt());
            flag("correlation of an imaginary part with the next sample's real part", im_next_re.r(), 0.0, 7.0 / im_next_re.n.sqrt());
        }
        for (li, c) in lagk.iter().enumerate() {
            if c.n > 1000.0 {
                flag(&format!("lag-{} correlation", li + 2), c.r(), 0.0, 7.0 / c.n.sqrt());
            }
        }
        if cross_frame.n > 1000.0 {
            flag("same-index correlation between consecutive frames", cross_frame.r(), 0.0, 7.0 / cross_frame.n.sqrt());
        }
        if cross_worker.n > 1000.0 {
            flag("same-index correlation between two workers", cross_worker.r(), 0.0, 7.0 / cross_worker.n.sqrt());
        }
        for (li, c) in cross_worker_lag.iter().enumerate() {
            if c.n > 1000.0 {
                flag(if li == 0 { "same-index correlation between frame j+1 of one worker and frame j of another" } else { "same-index correlation between frame j of one worker and frame j+1 of another" }, c.r(), 0.0, 7.0 / c.n.sqrt());
            }
        }
        let amp = amp_num / amp_den;
        flag("recovered signal amplitude", amp, 1.0, 7.0 * sigma / amp_den.sqrt() + 1e-9);
        if max_res > 1e-6 {
            v.push(Violation::new("noise", format!("{} point {}: 8PSK inversion residual {:e}", label, e, max_res)));
        }
        report.push(json!({
            "point": e, "ebn0_db": ebn0, "sigma": sigma, "samples": n, "frames_checked_individually": frames_checked,
            "var_over_sigma2": all.var() / s2, "mean": all.mean(), "lag1": lag1.r(),
            "re_im_corr": if cfg.psk8 { json!(reim.r()) } else { json!(null) },
            "cross_worker_corr": if cross_worker.n > 0.0 { json!(cross_worker.r()) } else { json!(null) },
            "cross_frame_corr": if cross_frame.n > 0.0 { json!(cross_frame.r()) } else { json!(null) },
            "amplitude": amp,
        }));
    }
    (v, json!({"config": label, "points": report}))
}

pub fn describe_cal(cfg: &BerCfg) -> String {
    format!(
        "{} n_cw={} k={} puncturing={:?} interleaving={:?} workers={}",
        if cfg.psk8 { "8PSK" } else { "BPSK" },
        cfg.n_cw(),
        cfg.k(),
        cfg.puncturing.as_ref().map(|p| p.iter().map(|&b| if b { '1' } else { '0' }).collect::<String>()),
        cfg.interleaving,
        cfg.workers
    )
}


// ---------------------------------------------------------------------------
// long frames
// ---------------------------------------------------------------------------

/// One configuration of the long-frame probe: (codeword bits, interleaver columns, pattern).
#[derive(Clone, Debug)]
pub struct LongCfg {
    pub n: usize,
    pub cols: isize,
    pub pattern: Option<Vec<bool>>,
    pub seed: u64,
}

impl LongCfg {
    pub fn to_json(&self) -> serde_json::Value {
        json!({"n": self.n, "interleaving": self.cols, "puncturing": self.pattern.as_ref().map(|p| p.iter().map(|&b| u8::from(b)).collect::<Vec<_>>()), "seed": self.seed.to_string()})
    }
    pub fn from_json(v: &serde_json::Value) -> Option<LongCfg> {
        Some(LongCfg {
            n: v["n"].as_u64()? as usize,
            cols: v["interleaving"].as_i64()? as isize,
            pattern: v["puncturing"].as_array().map(|a| a.iter().map(|x| x.as_u64() == Some(1)).collect()),
            seed: v["seed"].as_str()?.parse().ok()?,
        })
    }
}

/// Frames longer than 65 536 bits (the structural population stops at 72): a rate-1/2 staircase
/// code whose alist never needs a dense matrix, BPSK at 40 dB, an interleaver, with or without
/// puncturing of parity blocks, one worker, two frames. The probe decoder checks the length, the
/// exact zeros at the punctured positions and nowhere else, and (unpunctured) that the signs are a
/// codeword of H evaluated on the sparse matrix. (Seeded change C12-r7-2 keeps the interleaver
/// permutation in 16-bit indices.)
pub fn long_frame_probe(lc: &LongCfg) -> Option<Violation> {
    use ldpc_toolbox::decoder::{DecoderOutput, LdpcDecoder, factory::DecoderFactory};
    use ldpc_toolbox::simulation::factory::{BerTestBuilder, Modulation};
    use ldpc_toolbox::sparse::SparseMatrix;
    use std::sync::{Arc, Mutex};
    let n = lc.n;
    let r = n / 2;
    let k = n - r;
    let mut g = Stream::new(lc.seed, "c12-long");
    let mut h = SparseMatrix::new(r, n);
    for i in 0..r {
        for _ in 0..3 {
            h.insert(i, g.below(k as u64) as usize);
        }
        h.insert(i, k + i);
        if i > 0 {
            h.insert(i, k + i - 1);
        }
    }
    let kept: Vec<bool> = match &lc.pattern {
        None => vec![true; n],
        Some(p) => (0..n).map(|i| p[i / (n / p.len())]).collect(),
    };
    #[derive(Clone)]
    struct F {
        h: Arc<SparseMatrix>,
        kept: Arc<Vec<bool>>,
        found: Arc<Mutex<Option<String>>>,
        frames: Arc<Mutex<u64>>,
        punctured: bool,
    }
    impl std::fmt::Display for F {
        fn fmt(&self, f: &mut std::fmt::Formatter<'_>) -> std::fmt::Result {
            f.write_str("long-frame-probe")
        }
    }
    struct D(F);
    impl std::fmt::Debug for D {
        fn fmt(&self, f: &mut std::fmt::Formatter<'_>) -> std::fmt::Result {
            f.write_str("long-frame-probe decoder")
        }
    }
    impl LdpcDecoder for D {
        fn decode(&mut self, llrs: &[f64], _max: usize) -> Result<DecoderOutput, DecoderOutput> {
            let f = &self.0;
            let n = f.kept.len();
            let mut note = |m: String| {
                let mut g = f.found.lock().unwrap();
                if g.is_none() {
                    *g = Some(m);
                }
            };
            let j = {
                let mut c = f.frames.lock().unwrap();
                *c += 1;
                *c
            };
            if llrs.len() != n {
                note(format!("frame {} has {} LLRs instead of {}", j, llrs.len(), n));
                return Err(DecoderOutput { codeword: vec![0; n], iterations: 1 });
            }
            for i in 0..n {
                if f.kept[i] && (llrs[i] == 0.0 || llrs[i].is_nan()) {
                    note(format!("frame {}: transmitted position {} carries LLR {:e}", j, i, llrs[i]));
                    break;
                }
                if !f.kept[i] && llrs[i] != 0.0 {
                    note(format!("frame {}: punctured position {} is not exactly zero ({:e})", j, i, llrs[i]));
                    break;
                }
            }
            let mut c: Vec<u8> = llrs.iter().map(|&x| u8::from(x <= 0.0)).collect();
            if !f.punctured {
                for row in 0..f.h.num_rows() {
                    if f.h.iter_row(row).map(|&col| c[col]).fold(0u8, |a, b| a ^ b) != 0 {
                        note(format!("frame {}: the signs of the LLRs violate parity check {} (they are not a codeword in codeword bit order)", j, row));
                        break;
                    }
                }
            }
            // the second frame carries one bit error, so that the run ends
            if j >= 2 {
                c[0] ^= 1;
                return Err(DecoderOutput { codeword: c, iterations: 1 });
            }
            Ok(DecoderOutput { codeword: c, iterations: 1 })
        }
    }
    impl DecoderFactory for F {
        fn build_decoder(&self, _h: SparseMatrix) -> Box<dyn LdpcDecoder> {
            Box::new(D(self.clone()))
        }
    }
    let found = Arc::new(Mutex::new(None));
    let fac = F { h: Arc::new(h.clone()), kept: Arc::new(kept), found: found.clone(), frames: Arc::new(Mutex::new(0)), punctured: lc.pattern.is_some() };
    let (pattern, cols) = (lc.pattern.clone(), lc.cols);
    let cfg = dstsim::Config { sched_seed: lc.seed, entropy_seed: lc.seed ^ 0x77, num_cpus: 1, max_steps: 200_000, keep_events: false, ..dstsim::Config::default() };
    let out = dstsim::run(cfg, move || {
        let t = BerTestBuilder {
            h,
            decoder_implementation: fac,
            modulation: Modulation::Bpsk,
            puncturing_pattern: pattern.as_deref(),
            interleaving_columns: Some(cols),
            max_frame_errors: 1,
            max_iterations: 1,
            ebn0s_db: &[40.0],
            reporter: None,
            bch_max_errors: 0,
        }
        .build()
        .map_err(|e| e.to_string())?;
        t.run().map(|_| ()).map_err(|e| e.to_string())
    });
    let what = format!("long frame n = {} bits, interleaver {} columns, puncturing {:?}", lc.n, lc.cols, lc.pattern.as_ref().map(|p| p.iter().map(|&b| if b { '1' } else { '0' }).collect::<String>()));
    if let Some(m) = found.lock().unwrap().clone() {
        return Some(Violation::new("long-frame", format!("{}: {}", what, m)));
    }
    match out.result {
        RunResult::Done(Ok(())) => None,
        RunResult::Done(Err(e)) => Some(Violation::new("long-frame", format!("{}: the run failed: {}", what, e))),
        other => Some(Violation::new("long-frame", format!("{}: the run ended with {}", what, other.kind()))),
    }
}


// ---------------------------------------------------------------------------
// repeated Eb/N0 values
// ---------------------------------------------------------------------------

/// A list of Eb/N0 values may name the same value twice in a row. The structural population
/// keeps its points distinct (frames are attributed to points by their LLR scale), so this probe
/// covers lists with consecutive repeats on its own: one worker, BPSK, a small staircase code, a
/// probe decoder that measures the LLR scale of every frame. Judged only if exactly one decoder
/// was built per point (then the k-th decoder serves the k-th point): the scale of point k
/// relative to point 0 must be 10^((e_k - e_0)/10) within 15 %. (Seeded change C12-r8a-3 drops
/// consecutive repeats from the list but not from the table of noise sigmas.)
pub fn repeated_ebn0_probe(ebn0s: &[f32], seed: u64) -> Option<Violation> {
    use ldpc_toolbox::decoder::{DecoderOutput, LdpcDecoder, factory::DecoderFactory};
    use ldpc_toolbox::simulation::factory::{BerTestBuilder, Modulation};
    use ldpc_toolbox::sparse::SparseMatrix;
    use std::sync::{Arc, Mutex};
    let mut g = Stream::new(seed, "c12-repeat");
    let m = random_code(&mut g, 12, 12, Tail::Staircase, 2);
    let h = m.to_sparse();
    #[derive(Clone)]
    struct F {
        builds: Arc<Mutex<usize>>,
        scales: Arc<Mutex<Vec<(usize, f64)>>>,
    }
    impl std::fmt::Display for F {
        fn fmt(&self, f: &mut std::fmt::Formatter<'_>) -> std::fmt::Result {
            f.write_str("repeated-ebn0-probe")
        }
    }
    struct D {
        idx: usize,
        frames: u64,
        f: F,
    }
    impl std::fmt::Debug for D {
        fn fmt(&self, f: &mut std::fmt::Formatter<'_>) -> std::fmt::Result {
            f.write_str("repeated-ebn0-probe decoder")
        }
    }
    impl LdpcDecoder for D {
        fn decode(&mut self, llrs: &[f64], _max: usize) -> Result<DecoderOutput, DecoderOutput> {
            self.frames += 1;
            let scale = llrs.iter().map(|x| x.abs()).sum::<f64>() / llrs.len().max(1) as f64;
            self.f.scales.lock().unwrap().push((self.idx, scale));
            let mut c: Vec<u8> = llrs.iter().map(|&x| u8::from(x <= 0.0)).collect();
            if self.frames >= 6 {
                c[0] ^= 1;
                return Err(DecoderOutput { codeword: c, iterations: 1 });
            }
            Ok(DecoderOutput { codeword: c, iterations: 1 })
        }
    }
    impl DecoderFactory for F {
        fn build_decoder(&self, _h: SparseMatrix) -> Box<dyn LdpcDecoder> {
            let mut b = self.builds.lock().unwrap();
            *b += 1;
            Box::new(D { idx: *b - 1, frames: 0, f: self.clone() })
        }
    }
    let fac = F { builds: Arc::new(Mutex::new(0)), scales: Arc::new(Mutex::new(Vec::new())) };
    let fac2 = fac.clone();
    let list: Vec<f32> = ebn0s.to_vec();
    let cfg = dstsim::Config { sched_seed: seed, entropy_seed: seed ^ 0x99, num_cpus: 1, max_steps: 200_000, keep_events: false, ..dstsim::Config::default() };
    let out = dstsim::run(cfg, move || {
        let t = BerTestBuilder { h, decoder_implementation: fac2, modulation: Modulation::Bpsk, puncturing_pattern: None, interleaving_columns: None, max_frame_errors: 1, max_iterations: 1, ebn0s_db: &list, reporter: None, bch_max_errors: 0 }
            .build()
            .map_err(|e| e.to_string())?;
        t.run().map(|s| s.len()).map_err(|e| e.to_string())
    });
    let what = format!("Eb/N0 list {:?}", ebn0s);
    match out.result {
        RunResult::Done(Ok(n)) if n == ebn0s.len() => {}
        RunResult::Done(Ok(n)) => return Some(Violation::new("repeated-ebn0", format!("{}: {} statistics returned for {} requested values", what, n, ebn0s.len()))),
        RunResult::Done(Err(e)) => return Some(Violation::new("repeated-ebn0", format!("{}: the run failed: {}", what, e))),
        other => return Some(Violation::new("repeated-ebn0", format!("{}: the run ended with {}", what, other.kind()))),
    }
    if *fac.builds.lock().unwrap() != ebn0s.len() {
        return None; // another design than one decoder per point: the attribution below does not apply
    }
    let scales = fac.scales.lock().unwrap().clone();
    let mean = |k: usize| -> Option<f64> {
        let v: Vec<f64> = scales.iter().filter(|x| x.0 == k).map(|x| x.1).collect();
        if v.is_empty() { None } else { Some(v.iter().sum::<f64>() / v.len() as f64) }
    };
    let s0 = mean(0)?;
    for k in 1..ebn0s.len() {
        let Some(sk) = mean(k) else {
            return Some(Violation::new("repeated-ebn0", format!("{}: no frame was simulated for point {}", what, k)));
        };
        let want = 10f64.powf(f64::from(ebn0s[k] - ebn0s[0]) / 10.0);
        if (sk / s0 / want - 1.0).abs() > 0.15 {
            return Some(Violation::new(
                "repeated-ebn0",
                format!("{}: the frames of point {} ({} dB) have an LLR scale {:.3} times that of point 0 ({} dB); the requested Eb/N0 values call for {:.3}: the noise does not correspond to the Eb/N0 the point is reported under", what, k, ebn0s[k], sk / s0, ebn0s[0], want),
            ));
        }
    }
    None
}

pub fn long_cfgs(seed: u64, thorough: bool) -> Vec<LongCfg> {
    let mut g = Stream::new(seed, "c12-long-cfgs");
    let mut v = vec![
        // 69 120 = 2^9 * 135: divisible by 3, 5, 6, 8
        LongCfg { n: 69_120, cols: 8, pattern: None, seed: g.next() },
        LongCfg { n: 69_120, cols: -6, pattern: Some(vec![true, true, true, true, false]), seed: g.next() },
    ];
    if thorough {
        v.push(LongCfg { n: 66_000, cols: -3, pattern: None, seed: g.next() });
        v.push(LongCfg { n: 131_100, cols: 5, pattern: None, seed: g.next() });
        v.push(LongCfg { n: 72_000, cols: 16, pattern: Some(vec![true, true, false, true]), seed: g.next() });
    }
    v
}

pub fn main(opts: &Opts) -> ! {
    let (n_runs, budget, recheck, big) = match opts.tier {
        Tier::Quick => ((6000.0 * opts.scale) as u64, 240.0, 3, false),
        Tier::Thorough => ((60_000.0 * opts.scale) as u64, 2400.0, 2, true),
    };
    let oracle = |c: &BerCfg, o: &BerObs| oracle_c12(c, o);
    let res = run_campaign(opts, "C12", n_runs, recheck, budget, &generate, &oracle);
    if let Some(m) = &res.determinism_mismatch {
        if res.failures.is_empty() {
            harness_error(&format!("determinism re-check failed: {}", m));
        }
        eprintln!("note: the determinism re-check also failed ({}): with violations at hand this is taken as their consequence — state in the code under test that outlives a run — and not as a defect of the harness", m);
    }
    if res.counters.get("judged") == 0 {
        harness_error("C12: no run could be judged");
    }
    let (mut violations, known) = triage("C12", opts.seed, &res.failures, &oracle, 3);
    // calibration
    let t0 = std::time::Instant::now();
    let mut cals = calibration_cfgs(opts.seed, big);
    if big {
        // thorough: the same six shapes again with other codes and random streams
        cals.extend(calibration_cfgs(dstsim::keyed(opts.seed, &[1]), big));
        cals.extend(calibration_cfgs(dstsim::keyed(opts.seed, &[2]), big));
    }
    let stop = std::sync::atomic::AtomicBool::new(false);
    let cal_results = par_map(cals.len() as u64, opts.threads, None, &stop, |i| {
        let cfg = &cals[i as usize];
        let obs = run_one(cfg);
        let label = describe_cal(cfg);
        // the structural oracle applies to calibration runs too, and goes first: frames whose
        // signs do not complete to a codeword yield no noise samples, which is a property
        // violation and not a calibration problem
        let (mut v, _) = oracle_c12(cfg, &obs);
        let (v2, rep) = check_noise(cfg, &obs, &label);
        v.extend(v2);
        if !matches!(obs.outcome.result, RunResult::Done(_)) {
            v.push(Violation::new("calibration-size", format!("{}: run ended with {}", label, obs.outcome.result.kind())));
        }
        (v, rep, obs.llrs.len())
    });
    let mut cal_reports = Vec::new();
    let mut cal_frames = 0usize;
    for (i, (v, rep, nfr)) in cal_results {
        cal_reports.push(rep);
        cal_frames += nfr;
        if let Some(vio) = v.into_iter().next() {
            if vio.kind == "calibration-size" {
                if !violations.is_empty() {
                    // already explained by a reported violation; nothing more to learn here
                    continue;
                }
                harness_error(&format!("calibration run unusable: {}", vio.detail));
            }
            let f = Failure { run: 1_000_000 + i, cfg: cals[i as usize].clone(), violation: vio.clone(), trace: vec![] };
            // calibration failures are statistical: no minimisation, the configuration replays as is
            let body = json!({
                "property": "C12", "engine": "bersim-calibration", "seed": opts.seed, "run": f.run,
                "config": f.cfg.to_json(), "violation": {"kind": vio.kind, "detail": vio.detail},
                "replay_verified": false,
            });
            let path = write_replay("C12", opts.seed, f.run, &body);
            violations.push((path, vio.kind, vio.detail));
        }
    }
    // long frames
    let longs = long_cfgs(opts.seed, big);
    let long_results = par_map(longs.len() as u64, opts.threads, None, &stop, |i| long_frame_probe(&longs[i as usize]));
    for (i, v) in long_results {
        if let Some(vio) = v {
            let body = json!({
                "property": "C12", "engine": "bersim-long-frame", "seed": opts.seed, "run": 2_000_000 + i,
                "config": longs[i as usize].to_json(), "violation": {"kind": vio.kind, "detail": vio.detail}, "replay_verified": false,
            });
            let path = write_replay("C12", opts.seed, 2_000_000 + i, &body);
            violations.push((path, vio.kind, vio.detail));
        }
    }
    // Eb/N0 lists with consecutive repeats
    // (and lists that reach very large values: seeded change C12-r9-3 caps Es/N0 at 50 dB "to keep
    // sigma away from zero", after which the noise no longer corresponds to the requested Eb/N0)
    let repeat_lists: Vec<Vec<f32>> = vec![vec![20.0, 26.0, 26.0, 32.0, 38.0], vec![24.0, 24.0, 30.0], vec![30.0, 22.0, 22.0, 22.0, 34.0], vec![30.0, 62.0, 74.0], vec![44.0, 57.0, 91.0]];
    for (i, l) in repeat_lists.iter().enumerate() {
        if let Some(vio) = repeated_ebn0_probe(l, dstsim::keyed(opts.seed, &[0xE0, i as u64])) {
            let body = json!({
                "property": "C12", "engine": "bersim-repeated-ebn0", "seed": opts.seed, "run": 3_000_000 + i as u64,
                "config": {"ebn0s_db": l, "probe_seed": dstsim::keyed(opts.seed, &[0xE0, i as u64]).to_string()}, "violation": {"kind": vio.kind, "detail": vio.detail}, "replay_verified": false,
            });
            let path = write_replay("C12", opts.seed, 3_000_000 + i as u64, &body);
            violations.push((path, vio.kind, vio.detail));
        }
    }
    let cal_wall = t0.elapsed().as_secs_f64();
    let mut extra = serde_json::Map::new();
    extra.insert("runs".into(), json!(res.runs + cals.len() as u64));
    extra.insert("seeds".into(), json!(res.runs + cals.len() as u64));
    extra.insert("runs_per_hour".into(), json!((res.runs as f64 / res.wall_s * 3600.0) as u64));
    extra.insert("sim_time_s".into(), json!(res.sim_time_ns as f64 * 1e-9));
    extra.insert("steps".into(), json!(res.steps));
    extra.insert("frames_checked".into(), json!(res.counters.get("frames") + cal_frames as u64));
    extra.insert("calibration".into(), json!(cal_reports));
    extra.insert("calibration_wall_s".into(), json!(cal_wall));
    extra.insert("long_frame_probes".into(), json!(longs.iter().map(|l| l.to_json()).collect::<Vec<_>>()));
    extra.insert("scheduler_mix".into(), res.counters.group("scheduler_mix"));
    extra.insert("worker_counts".into(), res.counters.group("workers"));
    extra.insert("skipped".into(), res.counters.group("skipped"));
    extra.insert("faults_fired".into(), res.counters.group("faults_fired"));
    let mut probes = serde_json::Map::new();
    for (k, v) in &res.counters.0 {
        if !k.contains('/') && k != "frames" && k != "judged" {
            probes.insert(k.clone(), json!(v));
        }
    }
    extra.insert("probes".into(), serde_json::Value::Object(probes));
    extra.insert("distinct_interleavings".into(), json!(res.distinct_interleavings));
    extra.insert("determinism_rechecks".into(), json!(res.determinism_rechecks));
    extra.insert("stub_conformance".into(), stub_conformance());
    extra.insert("components".into(), json!({
        "real": ["BerTestBuilder::build", "BerTest::{new,run,do_run,make_worker}", "Worker::{work,simulate}", "Encoder", "Puncturer", "Interleaver", "modulators", "AwgnChannel (rand_distr Normal)", "demodulators"],
        "stub": ["std::thread / mpsc / Instant (dstsim)", "rand::rng (seeded ChaCha stream per task)", "num_cpus::get", "decoder (genie DecoderFactory)"],
    }));
    Evidence {
        property_id: "C12".into(),
        tier: opts.tier,
        seed: opts.seed,
        level: "exploration",
        evaluations: res.runs + cals.len() as u64,
        distinct_nontrivial: res.distinct_configs,
        rule: "one evaluation = one simulated BER run with the genie decoder observing every frame of every worker; distinct and non-trivial = distinct (code, modulation, puncturing, interleaver, workers, Eb/N0) configurations; plus 6 fixed calibration configurations whose noise statistics are tested at 7 sigma of the estimator".into(),
        samples: res.samples.clone(),
        extra,
        assumptions: vec![
            "the worker RNG is the simulator's entropy stream (rand::rng stub): a change that stops calling rand::rng() is only visible through the cross-worker / cross-frame correlation tests".into(),
            "Eb/N0 is chosen so that every sample is >= 9 sigma (+3 dB) from a decision boundary: 'noise aside' is literal".into(),
            "exact soft values of the demodulators away from the operating points are C14, the permutation law of the interleaver as such is C15".into(),
        ],
        wall_s: res.wall_s + cal_wall,
        violations: violations.len() as u64,
    }
    .write();
    Verdict { property: "C12".into(), violations, known }.finish()
}
