//! C12 — the BER chain hands the decoder correctly ordered, correctly scaled LLRs.

use crate::bersim::*;
use crate::gf2::*;

/// Complete the transmitted signs to a codeword: punctured positions carry no sign, so they
/// are solved for with the harness's own elimination. Returns the word and whether the
/// completion was ambiguous (more than one codeword agrees with the transmitted signs);
/// None if no codeword agrees.
pub fn complete_codeword(cfg: &BerCfg, llrs: &[f64]) -> Option<(Vec<u8>, bool)> {
    let n = cfg.n_cw();
    let kept = cfg.kept_mask();
    let known: Vec<usize> = (0..n).filter(|&i| kept[i]).collect();
    let unknown: Vec<usize> = (0..n).filter(|&i| !kept[i]).collect();
    let mut c: Vec<u8> = llrs.iter().map(|&x| u8::from(x <= 0.0)).collect();
    if unknown.is_empty() {
        return if cfg.h.is_codeword(&c) { Some((c, false)) } else { None };
    }
    // H_u x = H_k c_k
    let mut a = BitMat::zeros(cfg.h.r, unknown.len());
    let mut b = vec![0u8; cfg.h.r];
    for i in 0..cfg.h.r {
        for (jj, &j) in unknown.iter().enumerate() {
            a.a[i][jj] = cfg.h.a[i][j];
        }
        for &j in &known {
            b[i] ^= cfg.h.a[i][j] & c[j];
        }
    }
    let (x, free) = solve(&a, &b)?;
    for (jj, &j) in unknown.iter().enumerate() {
        c[j] = x[jj];
    }
    Some((c, free > 0))
}
