//! `verif selftest`: determinism of the simulator on a large sample (every seed twice, at
//! harness parallelism 1 and 16, in different orders), and a passthrough smoke test of the shims.

use crate::bersim::run_one;
use crate::common::*;
use ldpc_toolbox::verif_seam::std::sync::mpsc;
use ldpc_toolbox::verif_seam::std::thread as sthread;
use ldpc_toolbox::verif_seam::std::time::Instant as SInstant;
use std::sync::atomic::AtomicBool;

fn passthrough() {
    // outside any simulation every shim forwards to the real item
    assert!(!dstsim::in_sim());
    let (tx, rx) = mpsc::channel::<u32>();
    let (stx, srx) = mpsc::sync_channel::<u32>(1);
    let h = sthread::spawn(move || {
        for i in 0..10 {
            tx.send(i).unwrap();
        }
        stx.send(99).unwrap();
        7u8
    });
    let mut sum = 0;
    for _ in 0..10 {
        sum += rx.recv().unwrap();
    }
    assert_eq!(sum, 45);
    assert_eq!(srx.recv().unwrap(), 99);
    assert_eq!(h.join().unwrap(), 7);
    assert!(rx.recv().is_err());
    let t0 = SInstant::now();
    std::thread::sleep(std::time::Duration::from_millis(2));
    assert!(SInstant::now() - t0 >= std::time::Duration::from_millis(2));
    assert!(t0 + std::time::Duration::from_secs(1) > t0);
    use ldpc_toolbox::rand::RngCore;
    let mut r = ldpc_toolbox::verif_seam::rand::rng();
    let (a, b) = (r.next_u64(), r.next_u64());
    assert!(a != b);
    assert!(ldpc_toolbox::verif_seam::num_cpus::get() >= 1);
    // a panicking real thread is reported through join, as std does
    let h = sthread::spawn(|| dstsim::quiet(|| panic!("expected")));
    assert!(h.join().is_err());
    eprintln!("[selftest] shim passthrough ok");
}

pub fn main(opts: &Opts) -> ! {
    passthrough();
    let n: u64 = (1500.0 * opts.scale) as u64;
    let stop = AtomicBool::new(false);
    let mut total = 0u64;
    type Gen = fn(u64, u64) -> crate::bersim::BerCfg;
    let gens: [(&str, Gen); 3] = [("C13", crate::c13::generate), ("C12", crate::c12::generate), ("C10b", crate::c10::generate_ber)];
    for (name, g) in gens {
        let first: Vec<(u64, (u64, u64))> = par_map(n, 1, None, &stop, |i| {
            let o = run_one(&g(opts.seed, i));
            (o.outcome.event_hash, o.outcome.steps)
        });
        // second pass: 16 harness threads, reverse order, interleaved with other simulations
        let second: Vec<(u64, (u64, u64))> = par_map(n, 16, None, &stop, |j| {
            let i = n - 1 - j;
            let o = run_one(&g(opts.seed, i));
            (o.outcome.event_hash, o.outcome.steps)
        });
        for (i, h1) in &first {
            let h2 = &second[(n - 1 - i) as usize].1;
            if h1 != h2 {
                harness_error(&format!("selftest: {} seed index {} is not deterministic: {:?} vs {:?}", name, i, h1, h2));
            }
        }
        total += n;
        eprintln!("[selftest] {}: {} configurations identical at parallelism 1 and 16", name, n);
    }
    let first: Vec<(u64, u64)> = par_map(n, 1, None, &stop, |i| crate::c16::run_case(&crate::c16::gen_case(opts.seed, i)).hash);
    let second: Vec<(u64, u64)> = par_map(n, 16, None, &stop, |j| crate::c16::run_case(&crate::c16::gen_case(opts.seed, n - 1 - j)).hash);
    for (i, h1) in &first {
        if *h1 != second[(n - 1 - i) as usize].1 {
            harness_error(&format!("selftest: C16 case {} is not deterministic", i));
        }
    }
    total += n;
    eprintln!("[selftest] C16: {} cases identical at parallelism 1 and 16", n);
    println!("OK selftest: {} simulations executed twice with identical event logs", total);
    std::process::exit(0)
}
