//! `verif selftest`: determinism of the simulator on a large sample (every seed twice, at
//! harness parallelism 1 and 16, in different orders), and a passthrough smoke test of the shims.

use crate::bersim::run_one;
use crate::common::*;
use ldpc_toolbox::verif_seam::std::sync::mpsc;
use ldpc_toolbox::verif_seam::std::thread as sthread;
use ldpc_toolbox::verif_seam::std::time::Instant as SInstant;
use std::sync::atomic::AtomicBool;

fn passthrough() {
    // outside any simulation every shim forwards to the real item
    assert!(!dstsim::in_sim());
    let (tx, rx) = mpsc::channel::<u32>();
    let (stx, srx) = mpsc::sync_channel::<u32>(1);
    let h = sthread::spawn(move || {
        for i in 0..10 {
            tx.send(i).unwrap();
        }
        stx.send(99).unwrap();
        7u8
    });
    let mut sum = 0;
    for _ in 0..10 {
        sum += rx.recv().unwrap();
    }
    assert_eq!(sum, 45);
    assert_eq!(srx.recv().unwrap(), 99);
    assert_eq!(h.join().unwrap(), 7);
    assert!(rx.recv().is_err());
    let t0 = SInstant::now();
    std::thread::sleep(std::time::Duration::from_millis(2));
    assert!(SInstant::now() - t0 >= std::time::Duration::from_millis(2));
    assert!(t0 + std::time::Duration::from_secs(1) > t0);
    use ldpc_toolbox::rand::RngCore;
    let mut r = ldpc_toolbox::verif_seam::rand::rng();
    let (a, b) = (r.next_u64(), r.next_u64());
    assert!(a != b);
    assert!(ldpc_toolbox::verif_seam::num_cpus::get() >= 1);
    // a panicking real thread is reported through join, as std does
    let h = sthread::spawn(|| dstsim::quiet(|| panic!("expected")));
    assert!(h.join().is_err());
    eprintln!("[selftest] shim passthrough ok");
}

/// The simulated shared-memory primitives: contention blocks in the simulator (never in the
/// OS), every operation is a scheduling point, lock-order deadlocks are detected.
fn sync_primitives() {
    use ldpc_toolbox::verif_seam::std::sync::atomic::{AtomicUsize, Ordering};
    use ldpc_toolbox::verif_seam::std::sync::{Arc, Condvar, Mutex};
    let cfg = |seed: u64| dstsim::Config { sched_seed: seed, max_steps: 200_000, ..dstsim::Config::default() };
    let mut lost_updates = 0;
    let mut lock_deadlocks = 0;
    for seed in 0..200u64 {
        // 1. mutual exclusion with a yield inside the critical section
        let out = dstsim::run(cfg(seed), || {
            let m = Arc::new(Mutex::new(0u32));
            let hs: Vec<_> = (0..3)
                .map(|_| {
                    let m = m.clone();
                    sthread::spawn(move || {
                        for _ in 0..20 {
                            let mut g = m.lock().unwrap();
                            let v = *g;
                            dstsim::yield_now();
                            *g = v + 1;
                        }
                    })
                })
                .collect();
            for h in hs {
                h.join().unwrap();
            }
            let v = *m.lock().unwrap();
            v
        });
        match out.result {
            dstsim::RunResult::Done(60) => {}
            other => harness_error(&format!("selftest: mutex scenario seed {}: {:?}", seed, other.kind())),
        }
        // 2. condition variable hand-off, scoped threads borrowing the stack
        let out = dstsim::run(cfg(seed), || {
            let q = Mutex::new(std::collections::VecDeque::new());
            let cv = Condvar::new();
            let mut got = Vec::new();
            sthread::scope(|s| {
                s.spawn(|| {
                    for i in 0..10 {
                        q.lock().unwrap().push_back(i);
                        cv.notify_one();
                    }
                });
                let mut g = q.lock().unwrap();
                while got.len() < 10 {
                    while let Some(x) = g.pop_front() {
                        got.push(x);
                    }
                    if got.len() < 10 {
                        g = cv.wait(g).unwrap();
                    }
                }
            });
            got
        });
        match out.result {
            dstsim::RunResult::Done(v) if v == (0..10).collect::<Vec<_>>() => {}
            other => harness_error(&format!("selftest: condvar scenario seed {}: {}", seed, other.kind())),
        }
        // 3. atomics are scheduling points: a load/store increment loses updates under some schedule
        let out = dstsim::run(cfg(seed), || {
            let a = Arc::new(AtomicUsize::new(0));
            let hs: Vec<_> = (0..2)
                .map(|_| {
                    let a = a.clone();
                    sthread::spawn(move || {
                        for _ in 0..5 {
                            let v = a.load(Ordering::SeqCst);
                            a.store(v + 1, Ordering::SeqCst);
                        }
                    })
                })
                .collect();
            for h in hs {
                h.join().unwrap();
            }
            a.load(Ordering::SeqCst)
        });
        if let dstsim::RunResult::Done(v) = out.result {
            if v < 10 {
                lost_updates += 1;
            }
        }
        // 4. lock-order inversion: detected as a deadlock under some schedule, never a hang
        let out = dstsim::run(cfg(seed), || {
            let a = Arc::new(Mutex::new(()));
            let b = Arc::new(Mutex::new(()));
            let (a2, b2) = (a.clone(), b.clone());
            let h = sthread::spawn(move || {
                let _x = b2.lock().unwrap();
                let _y = a2.lock().unwrap();
            });
            {
                let _x = a.lock().unwrap();
                let _y = b.lock().unwrap();
            }
            let _ = h.join();
        });
        if matches!(out.result, dstsim::RunResult::Deadlock(_)) {
            lock_deadlocks += 1;
        }
        // 5. recv_timeout on the simulated clock
        let out = dstsim::run(cfg(seed), || {
            let (_tx, rx) = mpsc::channel::<u8>();
            let t0 = SInstant::now();
            let r = rx.recv_timeout(std::time::Duration::from_secs(3600));
            (r.is_err(), SInstant::now() - t0)
        });
        match out.result {
            dstsim::RunResult::Done((true, d)) if d >= std::time::Duration::from_secs(3600) => {}
            other => harness_error(&format!("selftest: recv_timeout scenario seed {}: {}", seed, other.kind())),
        }
    }
    if lost_updates == 0 || lock_deadlocks == 0 {
        harness_error(&format!("selftest: no schedule exposed the lost update ({}) / the lock-order deadlock ({})", lost_updates, lock_deadlocks));
    }
    eprintln!("[selftest] simulated Mutex/Condvar/scope/atomics/recv_timeout ok ({} of 200 schedules lose an update, {} deadlock on inverted lock order)", lost_updates, lock_deadlocks);
}

pub fn main(opts: &Opts) -> ! {
    passthrough();
    sync_primitives();
    let conformance = crate::conform::main(opts);
    let _ = std::fs::write(crate::common::verif_dir().join("selftest_report.json"), serde_json::to_string_pretty(&serde_json::json!({"model_conformance": conformance})).unwrap_or_default());
    let n: u64 = (1500.0 * opts.scale) as u64;
    let stop = AtomicBool::new(false);
    let mut total = 0u64;
    type Gen = fn(u64, u64) -> crate::bersim::BerCfg;
    let gens: [(&str, Gen); 3] = [("C13", crate::c13::generate), ("C12", crate::c12::generate), ("C10b", crate::c10::generate_ber)];
    for (name, g) in gens {
        let first: Vec<(u64, (u64, u64))> = par_map(n, 1, None, &stop, |i| {
            let o = run_one(&g(opts.seed, i));
            (o.outcome.event_hash, o.outcome.steps)
        });
        // second pass: 16 harness threads, reverse order, interleaved with other simulations
        let second: Vec<(u64, (u64, u64))> = par_map(n, 16, None, &stop, |j| {
            let i = n - 1 - j;
            let o = run_one(&g(opts.seed, i));
            (o.outcome.event_hash, o.outcome.steps)
        });
        for (i, h1) in &first {
            let h2 = &second[(n - 1 - i) as usize].1;
            if h1 != h2 {
                harness_error(&format!("selftest: {} seed index {} is not deterministic: {:?} vs {:?}", name, i, h1, h2));
            }
        }
        total += n;
        eprintln!("[selftest] {}: {} configurations identical at parallelism 1 and 16", name, n);
    }
    let first: Vec<(u64, u64)> = par_map(n, 1, None, &stop, |i| crate::c16::run_case(&crate::c16::gen_case(opts.seed, i)).hash);
    let second: Vec<(u64, u64)> = par_map(n, 16, None, &stop, |j| crate::c16::run_case(&crate::c16::gen_case(opts.seed, n - 1 - j)).hash);
    for (i, h1) in &first {
        if *h1 != second[(n - 1 - i) as usize].1 {
            harness_error(&format!("selftest: C16 case {} is not deterministic", i));
        }
    }
    total += n;
    eprintln!("[selftest] C16: {} cases identical at parallelism 1 and 16", n);
    println!("OK selftest: {} simulations executed twice with identical event logs", total);
    std::process::exit(0)
}
