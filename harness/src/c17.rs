//! C17 — sparse-matrix editing behaves like a set of (row, column) positions.

use crate::common::*;
use crate::hist::*;
use serde_json::{Value, json};
use std::collections::BTreeSet;
use std::sync::Mutex;
use std::sync::atomic::AtomicBool;

pub fn replay(body: &Value, path: &str) -> ! {
    let nr = body["rows"].as_u64().unwrap_or(0) as usize;
    let nc = body["cols"].as_u64().unwrap_or(0) as usize;
    let ops: Vec<MatOp> = body["ops"].as_array().map(|a| a.iter().filter_map(MatOp::from_json).collect()).unwrap_or_default();
    match run_mat_history(nr, nc, &ops, &mut Counters::default()) {
        Some((_, d)) => {
            println!("VIOLATION property=C17 replay={}", path);
            println!("  kind=set-model detail={}", d);
            std::process::exit(1)
        }
        None => {
            println!("NOT-REPRODUCED property=C17 replay={}", path);
            std::process::exit(0)
        }
    }
}

pub fn main(opts: &Opts) -> ! {
    let t0 = std::time::Instant::now();
    let (n, budget) = match opts.tier {
        Tier::Quick => ((100_000.0 * opts.scale) as u64, 120.0),
        Tier::Thorough => ((2_000_000.0 * opts.scale) as u64, 1800.0),
    };
    struct Acc {
        counters: Counters,
        failures: Vec<(u64, String)>,
        distinct: BTreeSet<u64>,
        samples: Vec<Value>,
        ops: u64,
    }
    let acc = Mutex::new(Acc { counters: Counters::default(), failures: vec![], distinct: BTreeSet::new(), samples: vec![], ops: 0 });
    let stop = AtomicBool::new(false);
    let deadline = Some(t0 + std::time::Duration::from_secs_f64(budget));
    let seed = opts.seed;
    set_watch(Watch {
        property: "C17",
        limit_s: 300,
        describe: Box::new(move |i| {
            let (nr, nc, ops) = gen_mat_history(seed, i);
            json!({"rows": nr, "cols": nc, "ops": ops.iter().map(|o| o.to_json()).collect::<Vec<_>>()}).to_string()
        }),
    });
    let done = par_map(n, opts.threads, deadline, &stop, |i| {
        let (nr, nc, ops) = gen_mat_history(opts.seed, i);
        let mut c = Counters::default();
        let r = run_mat_history(nr, nc, &ops, &mut c);
        let sig = hash_str(&format!("{}x{}:{:?}", nr, nc, ops));
        let mut a = acc.lock().unwrap();
        a.counters.merge(&c);
        a.ops += ops.len() as u64;
        if ops.len() >= 2 {
            a.distinct.insert(sig);
        }
        if a.samples.len() < 2 && i < 40 {
            a.samples.push(json!({"rows": nr, "cols": nc, "ops": ops.iter().take(12).map(|o| o.to_json()).collect::<Vec<_>>()}));
        }
        if let Some((_, d)) = r {
            if a.failures.len() < 50 {
                a.failures.push((i, d));
            }
        }
    });
    let a = acc.into_inner().unwrap();
    eprintln!("[C17] {} histories, {} ops, {} failures, {:.1}s", done.len(), a.ops, a.failures.len(), t0.elapsed().as_secs_f64());
    let mut violations = Vec::new();
    if let Some((i, _)) = a.failures.first() {
        let (nr, nc, ops) = gen_mat_history(opts.seed, *i);
        let min = minimise_mat_history(nr, nc, &ops);
        let (_, d) = run_mat_history(nr, nc, &min, &mut Counters::default()).unwrap_or((0, "minimised history no longer fails".into()));
        let mut body = json!({
            "property": "C17", "engine": "histsim-matrix", "seed": opts.seed, "run": i,
            "rows": nr, "cols": nc, "ops": min.iter().map(|o| o.to_json()).collect::<Vec<_>>(),
            "violation": {"kind": "set-model", "detail": d},
            "replay_verified": false,
        });
        let path = write_replay("C17", opts.seed, *i, &body);
        let ok = verify_replay_fresh(&path);
        body["replay_verified"] = json!(ok);
        write_replay("C17", opts.seed, *i, &body);
        violations.push((path, "set-model".to_string(), d));
    }
    let mut extra = serde_json::Map::new();
    extra.insert("histories".into(), json!(done.len()));
    extra.insert("operations".into(), json!(a.ops));
    extra.insert("operation_mix".into(), a.counters.group("op"));
    let mut probes = serde_json::Map::new();
    for (k, v) in &a.counters.0 {
        if !k.contains('/') {
            probes.insert(k.clone(), json!(v));
        }
    }
    extra.insert("probes".into(), Value::Object(probes));
    extra.insert("runs_per_hour".into(), json!((done.len() as f64 / t0.elapsed().as_secs_f64() * 3600.0) as u64));
    extra.insert("faults_fired".into(), json!({"note": "none exist for this code: no threads, clock or I/O; 'duplicate delivery' (insert present / remove absent) is the adverse operation, see probes"}));
    extra.insert("components".into(), json!({"real": ["SparseMatrix mutators and queries"], "stub": []}));
    Evidence {
        property_id: "C17".into(),
        tier: opts.tier,
        seed: opts.seed,
        level: "exploration",
        evaluations: done.len() as u64,
        distinct_nontrivial: a.distinct.len() as u64,
        rule: "one evaluation = one generated history of 1..60 editing operations on a matrix of shape 1x1..9x9 (sometimes 1x40 / 40x1), checked against a BTreeSet model after every operation; distinct and non-trivial = distinct histories with at least two operations".into(),
        samples: a.samples.clone(),
        extra,
        assumptions: vec!["indices are always in range (out-of-range indices are a documented panic, not part of the property)".into()],
        wall_s: t0.elapsed().as_secs_f64(),
        violations: violations.len() as u64,
    }
    .write();
    Verdict { property: "C17".into(), violations, known: vec![] }.finish()
}
