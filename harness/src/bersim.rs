//! The BER simulator: one simulated run = one call of `BerTestBuilder{..}.build()?.run()` as the
//! root task of a dstsim simulation, with a simulator-owned decoder factory.

use crate::common::*;
use crate::gf2::*;
use dstsim::{ClockProfile, Ev, Event, Outcome, RunResult, Strategy, TaskEnd, keyed};
use ldpc_toolbox::decoder::factory::{DecoderFactory, DecoderImplementation};
use ldpc_toolbox::decoder::{DecoderOutput, LdpcDecoder};
use ldpc_toolbox::simulation::ber::{Report, Reporter, Statistics};
use ldpc_toolbox::simulation::factory::{BerTestBuilder, Modulation};
use ldpc_toolbox::sparse::SparseMatrix;
use ldpc_toolbox::verif_seam::std::sync::mpsc;
use serde_json::{Value, json};
use std::sync::Arc;
use std::sync::atomic::{AtomicUsize, Ordering};

// ---------------------------------------------------------------------------
// configuration
// ---------------------------------------------------------------------------

#[derive(Clone, Debug, PartialEq)]
pub enum FactoryKind {
    /// scripted outcomes (C13)
    Script,
    /// records LLRs, returns the completed codeword (C12)
    Genie,
    /// a real decoder compared per frame with a fresh one (C10)
    Diff(String),
    /// a real decoder, nothing else (C20 in-process)
    Real(String),
}

#[derive(Clone, Debug, PartialEq)]
pub struct PanicFault {
    /// worker indices that panic (per Eb/N0 point)
    pub workers: Vec<usize>,
    /// frame index at which each of them panics
    pub at_frame: u64,
}

#[derive(Clone, Debug)]
pub struct BerCfg {
    pub h: BitMat,
    pub psk8: bool,
    pub puncturing: Option<Vec<bool>>,
    pub interleaving: Option<isize>,
    pub workers: usize,
    pub max_frame_errors: u64,
    pub bch_max_errors: u64,
    pub ebn0s_db: Vec<f32>,
    pub max_iterations: usize,
    pub reporter_interval_ns: Option<u64>,
    pub factory: FactoryKind,
    pub decoder_panic: Option<PanicFault>,
    /// workers whose scripted latencies are multiplied (slow node)
    pub slow_workers: Vec<usize>,
    pub strategy: Strategy,
    pub clock: ClockProfile,
    pub script_seed: u64,
    pub sched_seed: u64,
    pub clock_seed: u64,
    pub entropy_seed: u64,
    pub schedule: Option<Vec<u32>>,
    pub max_steps: u64,
}

impl BerCfg {
    pub fn n_cw(&self) -> usize {
        self.h.c
    }
    pub fn k(&self) -> usize {
        self.h.c - self.h.r
    }
    /// transmitted length after puncturing (None: the pattern does not divide the codeword)
    pub fn tx_len(&self) -> Option<usize> {
        match &self.puncturing {
            None => Some(self.n_cw()),
            Some(p) => {
                if self.n_cw() % p.len() != 0 {
                    None
                } else {
                    Some(self.n_cw() / p.len() * p.iter().filter(|&&b| b).count())
                }
            }
        }
    }
    /// every worker's first frame returns Err (puncturing pattern does not fit)
    pub fn stage_error(&self) -> bool {
        self.tx_len().is_none()
    }
    /// every worker panics on its first frame (interleaver / modulator block size does not fit)
    pub fn stage_panic(&self) -> bool {
        match self.tx_len() {
            None => false,
            Some(l) => {
                let il = match self.interleaving {
                    Some(c) => c == 0 || l % c.unsigned_abs() != 0,
                    None => false,
                };
                il || (self.psk8 && l % 3 != 0)
            }
        }
    }
    pub fn tail_invertible(&self) -> bool {
        let k = self.k();
        self.h.sub_cols(k, self.h.c).rank() == self.h.r
    }
    /// positions of the codeword that are transmitted
    pub fn kept_mask(&self) -> Vec<bool> {
        let n = self.n_cw();
        match &self.puncturing {
            None => vec![true; n],
            Some(p) => {
                if n % p.len() != 0 {
                    return vec![true; n];
                }
                let b = n / p.len();
                (0..n).map(|i| p[i / b]).collect()
            }
        }
    }
    pub fn fault_names(&self) -> Vec<&'static str> {
        let mut v = Vec::new();
        if self.stage_error() {
            v.push("stage-error");
        }
        if self.stage_panic() {
            v.push("stage-panic");
        }
        if let Some(p) = &self.decoder_panic {
            if p.workers.len() >= self.workers {
                v.push("decoder-panic-all");
            } else {
                v.push("decoder-panic-some");
            }
        }
        if !self.slow_workers.is_empty() {
            v.push("slow-worker");
        }
        if self.strategy == Strategy::Stall {
            v.push("stall");
        }
        if self.clock == ClockProfile::Jumpy {
            v.push("clock-jump");
        }
        v
    }
    /// faults that change what the run is allowed to return
    pub fn has_hard_fault(&self) -> bool {
        self.stage_error() || self.stage_panic() || self.decoder_panic.is_some()
    }

    pub fn to_json(&self) -> Value {
        json!({
            "h_alist": self.h.to_alist(),
            "modulation": if self.psk8 { "8PSK" } else { "BPSK" },
            "puncturing": self.puncturing.as_ref().map(|p| p.iter().map(|&b| u8::from(b)).collect::<Vec<_>>()),
            "interleaving": self.interleaving,
            "workers": self.workers,
            "max_frame_errors": self.max_frame_errors,
            "bch_max_errors": self.bch_max_errors,
            "ebn0s_db": self.ebn0s_db,
            "max_iterations": self.max_iterations,
            "reporter_interval_ns": self.reporter_interval_ns,
            "factory": match &self.factory {
                FactoryKind::Script => "script".to_string(),
                FactoryKind::Genie => "genie".to_string(),
                FactoryKind::Diff(n) => format!("diff:{}", n),
                FactoryKind::Real(n) => format!("real:{}", n),
            },
            "decoder_panic": self.decoder_panic.as_ref().map(|p| json!({"workers": p.workers, "at_frame": p.at_frame})),
            "slow_workers": self.slow_workers,
            "strategy": self.strategy.name(),
            "clock": self.clock.name(),
            "streams": {"script": self.script_seed.to_string(), "schedule": self.sched_seed.to_string(),
                        "clock": self.clock_seed.to_string(), "entropy": self.entropy_seed.to_string()},
            "schedule": self.schedule,
            "max_steps": self.max_steps,
            "faults": self.fault_names(),
        })
    }

    pub fn from_json(v: &Value) -> Result<BerCfg, String> {
        let alist = v["h_alist"].as_str().ok_or("h_alist")?;
        let h = BitMat::from_sparse(&SparseMatrix::from_alist(alist).map_err(|e| e.to_string())?);
        let s = |k: &str| -> Result<u64, String> {
            v["streams"][k].as_str().and_then(|x| x.parse().ok()).ok_or(format!("streams.{}", k))
        };
        let factory = match v["factory"].as_str().ok_or("factory")? {
            "script" => FactoryKind::Script,
            "genie" => FactoryKind::Genie,
            x if x.starts_with("diff:") => FactoryKind::Diff(x[5..].to_string()),
            x if x.starts_with("real:") => FactoryKind::Real(x[5..].to_string()),
            x => return Err(format!("factory {}", x)),
        };
        Ok(BerCfg {
            h,
            psk8: v["modulation"].as_str() == Some("8PSK"),
            puncturing: v["puncturing"].as_array().map(|a| a.iter().map(|x| x.as_u64() == Some(1)).collect()),
            interleaving: v["interleaving"].as_i64().map(|x| x as isize),
            workers: v["workers"].as_u64().ok_or("workers")? as usize,
            max_frame_errors: v["max_frame_errors"].as_u64().ok_or("max_frame_errors")?,
            bch_max_errors: v["bch_max_errors"].as_u64().ok_or("bch_max_errors")?,
            ebn0s_db: v["ebn0s_db"].as_array().ok_or("ebn0s_db")?.iter().map(|x| x.as_f64().unwrap_or(0.0) as f32).collect(),
            max_iterations: v["max_iterations"].as_u64().ok_or("max_iterations")? as usize,
            reporter_interval_ns: v["reporter_interval_ns"].as_u64(),
            factory,
            decoder_panic: if v["decoder_panic"].is_null() {
                None
            } else {
                Some(PanicFault {
                    workers: v["decoder_panic"]["workers"].as_array().ok_or("dp.workers")?.iter().map(|x| x.as_u64().unwrap_or(0) as usize).collect(),
                    at_frame: v["decoder_panic"]["at_frame"].as_u64().ok_or("dp.at_frame")?,
                })
            },
            slow_workers: v["slow_workers"].as_array().map(|a| a.iter().map(|x| x.as_u64().unwrap_or(0) as usize).collect()).unwrap_or_default(),
            strategy: Strategy::parse(v["strategy"].as_str().ok_or("strategy")?).ok_or("strategy")?,
            clock: ClockProfile::parse(v["clock"].as_str().ok_or("clock")?).ok_or("clock")?,
            script_seed: s("script")?,
            sched_seed: s("schedule")?,
            clock_seed: s("clock")?,
            entropy_seed: s("entropy")?,
            schedule: v["schedule"].as_array().map(|a| a.iter().map(|x| x.as_u64().unwrap_or(0) as u32).collect()),
            max_steps: v["max_steps"].as_u64().unwrap_or(400_000),
        })
    }
}

// ---------------------------------------------------------------------------
// script: stateless function of (script seed, point, worker, frame)
// ---------------------------------------------------------------------------

#[derive(Clone, Debug, PartialEq)]
pub struct ScriptFrame {
    pub latency_ns: u64,
    pub success: bool,
    /// systematic positions flipped
    pub sys_flips: Vec<usize>,
    /// parity positions flipped (offsets into the parity part)
    pub par_flips: Vec<usize>,
    pub iterations: usize,
}

pub fn script_frame(cfg: &BerCfg, e: usize, w: usize, j: u64) -> ScriptFrame {
    let key = |slot: u64| keyed(cfg.script_seed, &[e as u64, w as u64, j, slot]);
    let k = cfg.k();
    let r = cfg.h.r;
    let t = cfg.bch_max_errors as usize;
    // latency: mostly none, sometimes microseconds..milliseconds, rarely seconds (stalled decoder)
    let lat_class = key(0) % 100;
    let mut latency_ns = match lat_class {
        0..=54 => 0,
        55..=79 => 1_000 + key(1) % 1_000_000,
        80..=95 => 1_000_000 + key(1) % 1_000_000_000,
        _ => 1_000_000_000 + key(1) % 20_000_000_000,
    };
    if cfg.slow_workers.contains(&w) {
        // (capped at 30 s of simulated time per frame: long against every timer in sight — the
        // 500 ms report interval, a 5 s receive timeout — but short enough that a design which
        // polls every few milliseconds can still be simulated step by step)
        latency_ns = latency_ns.saturating_mul(50).saturating_add(5_000_000).min(30_000_000_000);
    }
    let class = key(2) % 100;
    let pick_positions = |count: usize, space: usize, slot: u64| -> Vec<usize> {
        let mut v: Vec<usize> = Vec::new();
        let mut i = 0u64;
        while v.len() < count.min(space) {
            let p = (keyed(cfg.script_seed, &[e as u64, w as u64, j, slot, i]) % space as u64) as usize;
            if !v.contains(&p) {
                v.push(p);
            }
            i += 1;
        }
        v.sort_unstable();
        v
    };
    let (success, nsys, npar) = match class {
        // clean frame
        0..=49 => (true, 0, 0),
        // decoder failure with systematic errors: counts around the outer-code threshold
        50..=69 => {
            let choices = [1, t.max(1), t + 1, t + 2, k];
            (false, choices[(key(3) % 5) as usize].clamp(1, k), (key(4) % 2) as usize)
        }
        // false decode: "success" with wrong systematic bits
        70..=79 => {
            let choices = [1, t + 1, 2];
            (true, choices[(key(3) % 3) as usize].clamp(1, k), 0)
        }
        // failed frame whose systematic bits are all right (errors only in the parity part)
        80..=89 => (false, 0, 1 + (key(4) % 2) as usize),
        // exactly on / just above the outer-code threshold
        _ => (false, if key(3) % 2 == 0 { t.clamp(1, k) } else { (t + 1).clamp(1, k) }, 0),
    };
    let iterations = if cfg.max_iterations == 0 {
        0
    } else if success && nsys == 0 {
        (key(5) % (cfg.max_iterations as u64 + 1)) as usize
    } else if success {
        1 + (key(5) % cfg.max_iterations as u64) as usize
    } else {
        cfg.max_iterations
    };
    ScriptFrame {
        latency_ns,
        success,
        sys_flips: pick_positions(nsys, k, 10),
        par_flips: pick_positions(npar, r, 11),
        iterations,
    }
}

// ---------------------------------------------------------------------------
// factories
// ---------------------------------------------------------------------------

pub struct FactoryShared {
    pub cfg: BerCfg,
    pub calls: AtomicUsize,
    pub enc: Option<RefEncoder>,
    pub sink: std::sync::Mutex<Vec<LlrRecord>>,
    /// LLR scale of the first frame decoded in the run, and the build point of its decoder: the
    /// reference against which every later frame is attributed to an Eb/N0 point
    pub scale_ref: std::sync::Mutex<Option<(f64, usize)>>,
}

#[derive(Clone)]
pub struct SimFactory(pub Arc<FactoryShared>);

impl std::fmt::Display for SimFactory {
    fn fmt(&self, f: &mut std::fmt::Formatter<'_>) -> std::fmt::Result {
        write!(f, "SimFactory")
    }
}

impl DecoderFactory for SimFactory {
    fn build_decoder(&self, h: SparseMatrix) -> Box<dyn LdpcDecoder> {
        let c = self.0.calls.fetch_add(1, Ordering::SeqCst);
        let w = c % self.0.cfg.workers.max(1);
        let e = c / self.0.cfg.workers.max(1);
        dstsim::emit("build-decoder", vec![e as i64, w as i64]);
        let same_h = BitMat::from_sparse(&h) == self.0.cfg.h;
        if !same_h {
            dstsim::emit("wrong-h", vec![e as i64, w as i64]);
        }
        let inner = match &self.0.cfg.factory {
            FactoryKind::Diff(name) | FactoryKind::Real(name) => {
                let imp: DecoderImplementation = name.parse().expect("decoder name");
                Some((imp, imp.build_decoder(h.clone())))
            }
            _ => None,
        };
        Box::new(SimDecoder { sh: self.0.clone(), e, w, j: 0, inner, h })
    }
}

pub struct SimDecoder {
    sh: Arc<FactoryShared>,
    e: usize,
    w: usize,
    j: u64,
    /// LLR scale (~ 1/sigma^2) of the first frame this decoder saw
    inner: Option<(DecoderImplementation, Box<dyn LdpcDecoder>)>,
    h: SparseMatrix,
}

impl std::fmt::Debug for SimDecoder {
    fn fmt(&self, f: &mut std::fmt::Formatter<'_>) -> std::fmt::Result {
        write!(f, "SimDecoder(e={}, w={})", self.e, self.w)
    }
}

fn hard(x: f64) -> u8 {
    u8::from(x <= 0.0)
}

/// A quantity proportional to 1/sigma^2 read off one frame: mean |LLR| at the transmitted
/// positions (BPSK) or mean length of the scaled received sample (8PSK, by inverting the
/// demodulator). The Eb/N0 points of a scripted run are far above the noise, so this
/// identifies the point a frame was generated for without relying on which task decodes it.
fn llr_scale(cfg: &BerCfg, llrs: &[f64]) -> Option<f64> {
    cfg.tx_len()?;
    if cfg.psk8 {
        let tx = crate::c12::own_interleave(cfg, &crate::c12::own_puncture(cfg, llrs));
        if tx.len() < 3 || tx.len() % 3 != 0 {
            return None;
        }
        let mut sum = 0.0;
        let mut n = 0.0;
        for t in tx.chunks(3) {
            let (u, v, _) = crate::c12::psk8_invert([t[0], t[1], t[2]]);
            sum += (u * u + v * v).sqrt();
            n += 1.0;
        }
        let m = sum / n;
        if m.is_finite() && m > 0.0 { Some(m) } else { None }
    } else {
        let kept = cfg.kept_mask();
        let v: Vec<f64> = llrs.iter().zip(kept).filter(|(_, k)| *k).map(|(x, _)| x.abs()).collect();
        if v.is_empty() {
            return None;
        }
        let m = v.iter().sum::<f64>() / v.len() as f64;
        if m.is_finite() && m > 0.0 { Some(m) } else { None }
    }
}

/// LLR vectors observed by the genie decoder (kept out of the event log because of their
/// size): (point, worker, frame, vector).
pub type LlrRecord = (usize, usize, u64, Vec<f64>);

impl LdpcDecoder for SimDecoder {
    fn decode(&mut self, llrs: &[f64], max_iterations: usize) -> Result<DecoderOutput, DecoderOutput> {
        let cfg = &self.sh.cfg;
        let (e, w, j) = (self.e, self.w, self.j);
        self.j += 1;
        let n = cfg.n_cw();
        let k = cfg.k();
        if max_iterations != cfg.max_iterations {
            dstsim::emit("wrong-max-iterations", vec![e as i64, w as i64, j as i64, max_iterations as i64]);
        }
        if llrs.len() != n {
            dstsim::emit("wrong-llr-length", vec![e as i64, w as i64, j as i64, llrs.len() as i64]);
            return Err(DecoderOutput { codeword: vec![0; n], iterations: max_iterations });
        }
        // which Eb/N0 point was this frame generated for? (the decoder's build point, unless the
        // LLR scale says otherwise: a persistent worker carried over to the next point, a stale
        // frame of the previous point, a demodulator built for another point). Only for the
        // scripted and genie decoders, whose Eb/N0 values are far above the noise and far apart.
        let e = if matches!(cfg.factory, FactoryKind::Script | FactoryKind::Genie) {
            let e_build = e;
            // The reference is the first frame decoded *in the run* (by any decoder), taken to be
            // of the build point of its decoder. (It used to be the first frame of *this*
            // decoder; rewrite C13-p5-2 recycles decoders across points, and a decoder built
            // for point 0 that decodes its first frame during point 1 then mis-tagged all its
            // frames.)
            let e_tag = match llr_scale(cfg, llrs) {
                Some(m) => {
                    let mut r = self.sh.scale_ref.lock().unwrap();
                    match *r {
                        None => {
                            *r = Some((m, e_build));
                            e_build
                        }
                        Some((first, e_ref)) => {
                            let l = (m / first).ln();
                            let base = f64::from(cfg.ebn0s_db[e_ref.min(cfg.ebn0s_db.len() - 1)]);
                            let mut best = e_build;
                            let mut best_d = f64::INFINITY;
                            for (i, &x) in cfg.ebn0s_db.iter().enumerate() {
                                let d = (l - 0.1 * std::f64::consts::LN_10 * (f64::from(x) - base)).abs();
                                if d < best_d {
                                    best_d = d;
                                    best = i;
                                }
                            }
                            best
                        }
                    }
                }
                None => e_build,
            };
            if e_tag != e_build {
                dstsim::emit("frame-of-other-point", vec![e_build as i64, w as i64, j as i64, e_tag as i64]);
            }
            e_tag
        } else {
            e
        };
        match &cfg.factory {
            FactoryKind::Script => {
                let sf = script_frame(cfg, e, w, j);
                if sf.latency_ns > 0 {
                    dstsim::sleep_ns(sf.latency_ns);
                }
                // chain precondition: the transmitted signs extend to the systematic codeword
                let msg: Vec<u8> = llrs[..k].iter().map(|&x| hard(x)).collect();
                let mut c = self.sh.enc.as_ref().map(|enc| enc.encode(&msg)).unwrap_or_else(|| vec![0; n]);
                let kept = cfg.kept_mask();
                let chain_ok = (0..n).all(|i| {
                    if kept[i] { llrs[i] != 0.0 && !llrs[i].is_nan() && hard(llrs[i]) == c[i] } else { true }
                });
                if !chain_ok {
                    dstsim::emit("chain-fail", vec![e as i64, w as i64, j as i64]);
                }
                for &p in &sf.sys_flips {
                    c[p] ^= 1;
                }
                for &p in &sf.par_flips {
                    c[k + p] ^= 1;
                }
                // a decode call that panics produces no frame (whatever its task sends next — a
                // drop guard's farewell in some designs — is not this frame's result)
                if let Some(pf) = &cfg.decoder_panic {
                    if pf.workers.contains(&w) && j == pf.at_frame {
                        dstsim::emit("decoder-panic", vec![e as i64, w as i64, j as i64]);
                        dstsim::inject_panic();
                    }
                }
                dstsim::emit(
                    "frame",
                    vec![e as i64, w as i64, j as i64, sf.sys_flips.len() as i64, i64::from(sf.success), sf.iterations as i64],
                );
                let out = DecoderOutput { codeword: c, iterations: sf.iterations };
                if sf.success { Ok(out) } else { Err(out) }
            }
            FactoryKind::Genie => {
                // record the vector; complete the codeword from the transmitted signs
                self.sh.sink.lock().unwrap().push((e, w, j, llrs.to_vec()));
                // occasionally slow, to vary interleavings
                let lat = keyed(cfg.script_seed, &[e as u64, w as u64, j, 77]) % 8;
                if lat == 0 {
                    dstsim::sleep_ns(1_000_000);
                }
                // scripted single-bit flips in the systematic part drive termination
                let flip = keyed(cfg.script_seed, &[e as u64, w as u64, j, 78]) % 3 == 0;
                let pos = (keyed(cfg.script_seed, &[e as u64, w as u64, j, 79]) % k.max(1) as u64) as usize;
                let completed = crate::c12::complete_codeword(cfg, llrs);
                let (mut c, status) = match completed {
                    Some((c, ambiguous)) => (c, if ambiguous { 2 } else { 1 }),
                    None => (llrs.iter().map(|&x| hard(x)).collect(), 0),
                };
                // with an outer-code threshold T a frame counts towards the error target only
                // with more than T bit errors: flip T + 1 systematic bits then
                let want_flips = (cfg.bch_max_errors as usize + 1).min(k);
                let nflip = if flip && k > 0 {
                    for d in 0..want_flips {
                        c[(pos + d) % k] ^= 1;
                    }
                    want_flips as i64
                } else {
                    0
                };
                dstsim::emit("genie-frame", vec![e as i64, w as i64, j as i64, nflip, status]);
                let out = DecoderOutput { codeword: c, iterations: 1 };
                if nflip == 0 { Ok(out) } else { Err(out) }
            }
            FactoryKind::Diff(_) => {
                let (imp, dec) = self.inner.as_mut().unwrap();
                let got = dec.decode(llrs, max_iterations);
                let mut fresh = imp.build_decoder(self.h.clone());
                let want = fresh.decode(llrs, max_iterations);
                let same = got == want;
                let (ok, iters) = match &got {
                    Ok(o) => (1, o.iterations),
                    Err(o) => (0, o.iterations),
                };
                dstsim::emit("diff-frame", vec![e as i64, w as i64, j as i64, i64::from(same), ok, iters as i64]);
                if !same {
                    self.sh.sink.lock().unwrap().push((e, w, j, llrs.to_vec()));
                }
                dstsim::yield_now();
                got
            }
            FactoryKind::Real(_) => {
                let (_, dec) = self.inner.as_mut().unwrap();
                let got = dec.decode(llrs, max_iterations);
                dstsim::yield_now();
                got
            }
        }
    }
}

// ---------------------------------------------------------------------------
// one simulated run
// ---------------------------------------------------------------------------

pub struct RootOut {
    pub build_err: Option<String>,
    pub dims: Option<(usize, usize, usize, f64)>,
    pub result: Option<Result<Vec<Statistics>, String>>,
    pub reports: Vec<Report>,
    pub report_chan: Option<usize>,
}

pub struct BerObs {
    pub outcome: Outcome<RootOut>,
    pub llrs: Vec<LlrRecord>,
}

pub fn sim_config(cfg: &BerCfg) -> dstsim::Config {
    let w = cfg.workers as u64;
    dstsim::Config {
        sched_seed: cfg.sched_seed,
        clock_seed: cfg.clock_seed,
        entropy_seed: cfg.entropy_seed,
        strategy: cfg.strategy.clone(),
        clock: cfg.clock,
        num_cpus: cfg.workers,
        max_steps: cfg.max_steps,
        replay: cfg.schedule.clone(),
        stop_rule: true,
        stop_delay_max: 2000,
        // Deadlocks are detected exactly; this bound only catches livelocks (tasks that keep
        // polling without the run ever ending). It is deliberately far above what the present
        // hand-shake needs (about (2W+10)(W+1) fair steps), so that a different but correct
        // hand-shake (work queues, flags, drains) cannot trip it.
        stop_bound: 50_000 + 10 * (2 * w + 10) * (w + 1),
        par_tasks: 1,
        keep_events: true,
    }
}

pub fn run_one(cfg: &BerCfg) -> BerObs {
    let shared = Arc::new(FactoryShared {
        cfg: cfg.clone(),
        calls: AtomicUsize::new(0),
        enc: RefEncoder::new(&cfg.h),
        sink: std::sync::Mutex::new(Vec::new()),
        scale_ref: std::sync::Mutex::new(None),
    });
    let shared2 = shared.clone();
    let outcome = dstsim::run(sim_config(cfg), move || {
        let shared = shared2;
        let factory = SimFactory(shared.clone());
        let (reporter, rrx, report_chan) = match cfg.reporter_interval_ns {
            Some(ns) => {
                let (tx, rx) = mpsc::channel();
                let id = tx.sim_id();
                (Some(Reporter { tx, interval: std::time::Duration::from_nanos(ns) }), Some(rx), id)
            }
            None => (None, None, None),
        };
        // the same code, now and then with its ones inserted in a shuffled order (a matrix is a
        // set of positions; seeded change C12-r7-1 assumes each row lists its information columns
        // before its staircase columns)
        let order = keyed(cfg.script_seed, &[0x5481]);
        let h = if order % 3 == 0 { cfg.h.to_sparse_shuffled(order | 1) } else { cfg.h.to_sparse() };
        let built = BerTestBuilder {
            h,
            decoder_implementation: factory,
            modulation: if cfg.psk8 { Modulation::Psk8 } else { Modulation::Bpsk },
            puncturing_pattern: cfg.puncturing.as_deref(),
            interleaving_columns: cfg.interleaving,
            max_frame_errors: cfg.max_frame_errors,
            max_iterations: cfg.max_iterations,
            ebn0s_db: &cfg.ebn0s_db,
            reporter,
            bch_max_errors: cfg.bch_max_errors,
        }
        .build();
        match built {
            Err(e) => RootOut { build_err: Some(e.to_string()), dims: None, result: None, reports: vec![], report_chan },
            Ok(test) => {
                let dims = (test.n(), test.n_cw(), test.k(), test.rate());
                let r = test.run().map_err(|e| e.to_string());
                dstsim::end_stop_phase();
                let mut reports = Vec::new();
                if let Some(rx) = rrx {
                    while let Ok(x) = rx.try_recv() {
                        reports.push(x);
                    }
                }
                RootOut { build_err: None, dims: Some(dims), result: Some(r), reports, report_chan }
            }
        }
    });
    let llrs = std::mem::take(&mut *shared.sink.lock().unwrap());
    BerObs { outcome, llrs }
}

// ---------------------------------------------------------------------------
// history extraction
// ---------------------------------------------------------------------------

/// What the event log says about one Eb/N0 point.
///
/// Everything is organised by the point a frame was *generated for* (the tag the scripted
/// decoder reads off the LLR scale; for the other factories the decoder's build point), not by
/// which task or channel carried it, and nothing depends on how the workers are created, how
/// long they live or how they are told to stop.
#[derive(Clone, Debug, Default)]
pub struct PointHistory {
    /// frame messages the collector (task 0) received for this point, in reception order:
    /// (decoding task, index of the frame among that task's frames)
    pub recvs: Vec<(usize, u64)>,
    /// frames by (task, index): (bit_errors, success, iterations) — received ones only
    pub frames: std::collections::BTreeMap<(usize, u64), (u64, bool, u64)>,
    /// every frame decoded for this point, per decoding task, in decoding order
    pub decoded: std::collections::BTreeMap<usize, Vec<(u64, bool, u64)>>,
    /// frames of this point that were sent on a channel the collector never receives from
    /// (or were never sent at all): if there are any and none was received, the frames do not
    /// travel over an observable transport and the order-free oracle applies (tier 2)
    pub untransported: u64,
    pub chain_fail: u64,
    /// frame messages sent for this point but never received
    pub unconsumed: u64,
}

pub struct History {
    pub points: Vec<PointHistory>,
    pub anomalies: Vec<String>,
    /// FIFO / no-loss / no-duplication violation on a results channel, if any
    pub transport: Option<String>,
    /// a frame was received after a message that carries no frame (a worker's error report, or
    /// any other control message of the design at hand) on the same channel
    pub recv_after_err: bool,
    /// order of transport events: hash input for the interleaving measure
    pub transport_sig: u64,
    /// frames handed to a decoder whose task never sent a message for them
    pub discarded_frames: u64,
    /// messages without a frame received by the collector (error reports, control messages)
    pub control_msgs: u64,
    /// tasks other than the root that decoded frames or sent to the collector
    pub worker_tasks: std::collections::BTreeSet<usize>,
    /// joins of such tasks by the root: (task, panicked)
    pub joins: Vec<(usize, bool)>,
}

thread_local! {
    /// How a message is related to the frames its sender decoded since its previous message:
    /// false (default) = it reports the most recent one, the earlier ones were discarded (a
    /// warm-up frame, say); true = it reports all of them, in order (results sent in batches).
    /// The two readings coincide whenever every frame is followed by a message of its own, which
    /// is the case on the unchanged tree; the oracles try the second only when the first fails.
    pub static BATCH_READING: std::cell::Cell<bool> = const { std::cell::Cell::new(false) };
}

pub fn extract_history(cfg: &BerCfg, events: &[Event], report_chan: Option<usize>) -> History {
    let batch_reading = BATCH_READING.with(|b| b.get());
    use std::collections::{BTreeMap, BTreeSet};
    let mut anomalies = Vec::new();
    // pass 1: channel roles by traffic. A results channel is one the root receives from (by
    // recv or by polling) and some other task sends on; a signalling channel is one the root
    // sends on and some other task receives from (terminate signals, commands). Neither the
    // kind of the channel nor who created it matters.
    let mut root_receives: BTreeSet<usize> = BTreeSet::new();
    let mut others_send: BTreeSet<usize> = BTreeSet::new();
    let mut others_receive: BTreeSet<usize> = BTreeSet::new();
    for ev in events {
        match &ev.ev {
            Ev::Recv { chan, .. } | Ev::TryRecvOk { chan, .. } | Ev::TryRecvEmpty { chan } | Ev::TryRecvDisc { chan } | Ev::RecvDisc { chan } => {
                if ev.task == 0 {
                    root_receives.insert(*chan);
                } else {
                    others_receive.insert(*chan);
                }
            }
            Ev::Send { chan, .. } | Ev::SendFail { chan } if ev.task != 0 => {
                others_send.insert(*chan);
            }
            _ => {}
        }
    }
    // A frame's result is at least a bit-error count, an iteration count and two verdicts: a
    // channel whose messages are 8 bytes or less (a `()` doorbell, a ticket, a flag) cannot carry
    // one, whatever else flows on it.
    let tiny: BTreeSet<usize> = events.iter().filter_map(|ev| if let Ev::ChanNew { chan, elem, .. } = &ev.ev { if *elem <= 8 { Some(*chan) } else { None } } else { None }).collect();
    let results_chans: BTreeSet<usize> = root_receives.intersection(&others_send).copied().filter(|c| Some(*c) != report_chan && !tiny.contains(c)).collect();
    let npoints = cfg.ebn0s_db.len().max(1);
    let mut points: Vec<PointHistory> = (0..npoints).map(|_| PointHistory::default()).collect();
    // pass 2: frames, sends, receptions. A message is attributed to the frame its sender decoded
    // most recently and has not reported yet; a send without such a frame carries no frame (the
    // worker's error report, or a control message of another design); a frame that is decoded
    // but never followed by a send of its task belongs to no message.
    let mut frame_count: BTreeMap<usize, u64> = BTreeMap::new();
    // (all of them, in decoding order: a design may report several frames in one message)
    let mut pending_frame: BTreeMap<usize, Vec<u64>> = BTreeMap::new();
    let mut discarded_frames = 0u64;
    let mut frame_of: BTreeMap<(usize, u64), (usize, (u64, bool, u64))> = BTreeMap::new(); // (task,k) -> (tag, content)
    let mut send_index: BTreeMap<(usize, usize, u64), Vec<u64>> = BTreeMap::new(); // (chan, task, seq) -> frames
    let mut sent_on: BTreeMap<usize, Vec<(usize, u64)>> = BTreeMap::new(); // chan -> (task, seq) in order
    let mut recv_on: BTreeMap<usize, Vec<(usize, u64)>> = BTreeMap::new();
    let mut err_seen_on: BTreeMap<usize, bool> = BTreeMap::new();
    let mut recv_after_err = false;
    let mut control_msgs = 0u64;
    let mut received: BTreeSet<(usize, u64)> = Default::default();
    let mut transported: BTreeSet<(usize, u64)> = Default::default();
    let mut worker_tasks: BTreeSet<usize> = BTreeSet::new();
    let mut joins = Vec::new();
    let mut sig: u64 = 0xcbf29ce484222325;
    let mut mixin = |a: u64, b: u64| {
        for x in [a, b] {
            sig ^= x;
            sig = sig.wrapping_mul(0x100000001b3);
        }
    };
    // small stable numbering of tasks for the interleaving signature
    let mut task_no: BTreeMap<usize, u64> = BTreeMap::new();
    let mut no = |t: usize| -> u64 {
        let n = task_no.len() as u64;
        *task_no.entry(t).or_insert(n)
    };
    for ev in events {
        match &ev.ev {
            Ev::Send { chan, seq } => {
                if ev.task != 0 && results_chans.contains(chan) {
                    worker_tasks.insert(ev.task);
                    // empty: no unreported frame, i.e. a message that carries no frame
                    let mut ks = pending_frame.remove(&ev.task).unwrap_or_default();
                    if !batch_reading && ks.len() > 1 {
                        discarded_frames += ks.len() as u64 - 1;
                        ks = vec![*ks.last().unwrap()];
                    }
                    for k in &ks {
                        transported.insert((ev.task, *k));
                    }
                    send_index.insert((*chan, ev.task, *seq), ks);
                    sent_on.entry(*chan).or_default().push((ev.task, *seq));
                    mixin(1, no(ev.task));
                } else if ev.task == 0 {
                    if others_receive.contains(chan) {
                        mixin(2, 0);
                    } else if Some(*chan) == report_chan {
                        mixin(3, 0);
                    }
                }
            }
            Ev::SendFail { chan } if ev.task == 0 => {
                if others_receive.contains(chan) {
                    mixin(2, 1);
                }
            }
            // the collector may take results by recv() or by polling: both are receptions
            Ev::Recv { chan, from, seq } | Ev::TryRecvOk { chan, from, seq } if ev.task == 0 && results_chans.contains(chan) => {
                recv_on.entry(*chan).or_default().push((*from, *seq));
                if let Some(ks) = send_index.get(&(*chan, *from, *seq)) {
                    mixin(4, no(*from));
                    if ks.is_empty() {
                        control_msgs += 1;
                        err_seen_on.insert(*chan, true);
                    }
                    for &k in ks {
                        if let Some(&(tag, content)) = frame_of.get(&(*from, k)) {
                            if *err_seen_on.get(chan).unwrap_or(&false) {
                                recv_after_err = true;
                            }
                            let p = &mut points[tag.min(npoints - 1)];
                            p.recvs.push((*from, k));
                            p.frames.insert((*from, k), content);
                            received.insert((*from, k));
                        }
                    }
                }
            }
            Ev::TryRecvOk { chan, .. } if ev.task != 0 => {
                if others_receive.contains(chan) {
                    mixin(5, no(ev.task));
                }
            }
            Ev::TryRecvEmpty { chan } if ev.task != 0 => {
                if others_receive.contains(chan) {
                    mixin(6, no(ev.task));
                }
            }
            Ev::Join { target, panicked } if ev.task == 0 => {
                joins.push((*target, *panicked));
                mixin(7, no(*target));
            }
            Ev::User { tag, vals } => match *tag {
                "frame" | "genie-frame" | "diff-frame" => {
                    let e = vals[0] as usize;
                    let fr = match *tag {
                        "frame" => (vals[3] as u64, vals[4] == 1, vals[5] as u64),
                        "genie-frame" => (vals[3] as u64, vals[3] == 0, 1),
                        _ => (0, vals[4] == 1, vals[5] as u64),
                    };
                    if ev.task != 0 {
                        worker_tasks.insert(ev.task);
                    }
                    let k = frame_count.entry(ev.task).or_insert(0);
                    frame_of.insert((ev.task, *k), (e, fr));
                    points[e.min(npoints - 1)].decoded.entry(ev.task).or_default().push(fr);
                    pending_frame.entry(ev.task).or_default().push(*k);
                    *k += 1;
                }
                "chain-fail" => {
                    if let Some(p) = points.get_mut(vals[0] as usize) {
                        p.chain_fail += 1;
                    }
                }
                "wrong-h" | "wrong-llr-length" | "wrong-max-iterations" => {
                    anomalies.push(format!("{} {:?}", tag, vals));
                }
                _ => {}
            },
            _ => {}
        }
    }
    // transport: on every results channel the receptions are a prefix of the sends
    let mut transport = None;
    for (c, r) in &recv_on {
        let sent = sent_on.get(c).cloned().unwrap_or_default();
        if r.len() > sent.len() || r[..] != sent[..r.len()] {
            transport = Some(format!("results channel #{}: received sequence {:?} is not a prefix of the sent sequence {:?}", c, r, sent));
        }
    }
    // per point: frames sent but never received; frames that never travelled to the collector
    for ((t, k), (tag, _)) in &frame_of {
        let p = &mut points[(*tag).min(npoints - 1)];
        if transported.contains(&(*t, *k)) {
            if !received.contains(&(*t, *k)) {
                p.unconsumed += 1;
            }
        } else {
            p.untransported += 1;
        }
    }
    // frames that no message ever claimed
    discarded_frames += pending_frame.values().map(|v| v.len() as u64).sum::<u64>();
    History { points, anomalies, transport, recv_after_err, transport_sig: sig, discarded_frames, control_msgs, worker_tasks, joins }
}

// ---------------------------------------------------------------------------
// reference model of the collector
// ---------------------------------------------------------------------------

#[derive(Clone, Debug, Default, PartialEq, Eq, PartialOrd, Ord)]
pub struct RefCounters {
    pub num_frames: u64,
    pub false_decodes: u64,
    pub total_iterations: u64,
    pub bit_errors: u64,
    pub frame_errors: u64,
    pub correct_iterations: u64,
    pub bch_bit_errors: u64,
    pub bch_frame_errors: u64,
    pub bch_correct_iterations: u64,
}

impl RefCounters {
    pub fn add(&mut self, bit_errors: u64, success: bool, iterations: u64, t: u64) {
        let frame_error = bit_errors > 0;
        self.num_frames += 1;
        self.bit_errors += bit_errors;
        self.total_iterations += iterations;
        if frame_error {
            self.frame_errors += 1;
            if success {
                self.false_decodes += 1;
            }
        } else {
            self.correct_iterations += iterations;
        }
        if t > 0 {
            if bit_errors > t {
                self.bch_bit_errors += bit_errors;
                self.bch_frame_errors += 1;
            } else {
                self.bch_correct_iterations += iterations;
            }
        }
    }
    pub fn errors_for_termination(&self, t: u64) -> u64 {
        if t > 0 { self.bch_frame_errors } else { self.frame_errors }
    }
}

fn feq(a: f64, b: f64) -> bool {
    if a.is_nan() && b.is_nan() {
        return true;
    }
    if a == b {
        return true;
    }
    if a.is_infinite() || b.is_infinite() {
        return false;
    }
    (a - b).abs() <= 1e-12 * a.abs().max(b.abs())
}

/// Compare a `Statistics` value with the reference counters. `check_time`: also the
/// elapsed/throughput relation.
pub fn compare_stats(s: &Statistics, rc: &RefCounters, k: usize, t: u64, what: &str, out: &mut Vec<Violation>) {
    let mut bad = |field: &str, got: String, want: String| {
        out.push(Violation::new("counters", format!("{}: {} = {} but the received frames give {}", what, field, got, want)));
    };
    if s.num_frames != rc.num_frames {
        bad("num_frames", s.num_frames.to_string(), rc.num_frames.to_string());
    }
    if s.false_decodes != rc.false_decodes {
        bad("false_decodes", s.false_decodes.to_string(), rc.false_decodes.to_string());
    }
    if s.total_iterations != rc.total_iterations {
        bad("total_iterations", s.total_iterations.to_string(), rc.total_iterations.to_string());
    }
    if s.ldpc.bit_errors != rc.bit_errors {
        bad("ldpc.bit_errors", s.ldpc.bit_errors.to_string(), rc.bit_errors.to_string());
    }
    if s.ldpc.frame_errors != rc.frame_errors {
        bad("ldpc.frame_errors", s.ldpc.frame_errors.to_string(), rc.frame_errors.to_string());
    }
    if s.ldpc.correct_iterations != rc.correct_iterations {
        bad("ldpc.correct_iterations", s.ldpc.correct_iterations.to_string(), rc.correct_iterations.to_string());
    }
    match (&s.bch, t > 0) {
        (Some(b), true) => {
            if b.bit_errors != rc.bch_bit_errors {
                bad("bch.bit_errors", b.bit_errors.to_string(), rc.bch_bit_errors.to_string());
            }
            if b.frame_errors != rc.bch_frame_errors {
                bad("bch.frame_errors", b.frame_errors.to_string(), rc.bch_frame_errors.to_string());
            }
            if b.correct_iterations != rc.bch_correct_iterations {
                bad("bch.correct_iterations", b.correct_iterations.to_string(), rc.bch_correct_iterations.to_string());
            }
        }
        (None, false) => {}
        (Some(_), false) => bad("bch", "Some".into(), "None (no outer code configured)".into()),
        (None, true) => bad("bch", "None".into(), "Some (outer code configured)".into()),
    }
    // ratios, from the *reference* counters
    let mut badr = |field: &str, got: f64, want: f64| {
        out.push(Violation::new("ratios", format!("{}: {} = {:e} but the stated ratio is {:e}", what, field, got, want)));
    };
    let nf = rc.num_frames as f64;
    let kf = k as f64;
    let want_avg = rc.total_iterations as f64 / nf;
    if !feq(s.average_iterations, want_avg) {
        badr("average_iterations", s.average_iterations, want_avg);
    }
    let code = |name: &str, got: &ldpc_toolbox::simulation::ber::CodeStatistics, be: u64, fe: u64, ci: u64, badr: &mut dyn FnMut(&str, f64, f64)| {
        let ber = be as f64 / (kf * nf);
        let fer = fe as f64 / nf;
        let aic = ci as f64 / (rc.num_frames - fe.min(rc.num_frames)) as f64;
        if !feq(got.ber, ber) {
            badr(&format!("{}.ber", name), got.ber, ber);
        }
        if !feq(got.fer, fer) {
            badr(&format!("{}.fer", name), got.fer, fer);
        }
        if !feq(got.average_iterations_correct, aic) {
            badr(&format!("{}.average_iterations_correct", name), got.average_iterations_correct, aic);
        }
    };
    code("ldpc", &s.ldpc, rc.bit_errors, rc.frame_errors, rc.correct_iterations, &mut badr);
    if let (Some(b), true) = (&s.bch, t > 0) {
        code("bch", b, rc.bch_bit_errors, rc.bch_frame_errors, rc.bch_correct_iterations, &mut badr);
    }
    let el = s.elapsed.as_secs_f64();
    let want_tp = 1e-6 * (kf * nf) / el;
    if !feq(s.throughput_mbps, want_tp) {
        badr("throughput_mbps", s.throughput_mbps, want_tp);
    }
}

pub fn counters_equal_ignoring_time(a: &Statistics, b: &Statistics) -> bool {
    a.ebn0_db == b.ebn0_db
        && a.num_frames == b.num_frames
        && a.total_iterations == b.total_iterations
        && a.false_decodes == b.false_decodes
        && a.ldpc.bit_errors == b.ldpc.bit_errors
        && a.ldpc.frame_errors == b.ldpc.frame_errors
        && a.ldpc.correct_iterations == b.ldpc.correct_iterations
        && match (&a.bch, &b.bch) {
            (None, None) => true,
            (Some(x), Some(y)) => {
                x.bit_errors == y.bit_errors && x.frame_errors == y.frame_errors && x.correct_iterations == y.correct_iterations
            }
            _ => false,
        }
}

/// The part of the oracle shared by every BER-engine property: outcome class, transport,
/// stopping rule, counters, ratios, reports, joins. `frame_source` tells which user event
/// carries the per-frame truth.
pub struct OracleStats {
    pub probes: Counters,
    pub frames_total: u64,
    pub chain_skipped: bool,
}

/// Order-free search (tier 2): per-task prefix lengths whose summed counters equal those of `s`.
/// Some(Some(rc)) = found (rc = the reference counters of that selection), Some(None) = no
/// selection exists, None = budget exhausted.
pub fn tier2_find(p: &PointHistory, s: &Statistics, t: u64, budget: usize) -> Option<Option<RefCounters>> {
    // per task: cumulative counters of its prefixes
    let tasks: Vec<Vec<RefCounters>> = p
        .decoded
        .values()
        .map(|frames| {
            let mut rc = RefCounters::default();
            let mut v = vec![rc.clone()];
            for &(be, succ, it) in frames {
                rc.add(be, succ, it, t);
                v.push(rc.clone());
            }
            v
        })
        .collect();
    fn add(a: &RefCounters, b: &RefCounters) -> RefCounters {
        RefCounters {
            num_frames: a.num_frames + b.num_frames,
            false_decodes: a.false_decodes + b.false_decodes,
            total_iterations: a.total_iterations + b.total_iterations,
            bit_errors: a.bit_errors + b.bit_errors,
            frame_errors: a.frame_errors + b.frame_errors,
            correct_iterations: a.correct_iterations + b.correct_iterations,
            bch_bit_errors: a.bch_bit_errors + b.bch_bit_errors,
            bch_frame_errors: a.bch_frame_errors + b.bch_frame_errors,
            bch_correct_iterations: a.bch_correct_iterations + b.bch_correct_iterations,
        }
    }
    let fits = |c: &RefCounters| c.num_frames <= s.num_frames && c.bit_errors <= s.ldpc.bit_errors && c.frame_errors <= s.ldpc.frame_errors && c.total_iterations <= s.total_iterations && c.false_decodes <= s.false_decodes;
    let is_target = |c: &RefCounters| {
        c.num_frames == s.num_frames
            && c.bit_errors == s.ldpc.bit_errors
            && c.frame_errors == s.ldpc.frame_errors
            && c.total_iterations == s.total_iterations
            && c.false_decodes == s.false_decodes
            && c.correct_iterations == s.ldpc.correct_iterations
            && s.bch.as_ref().is_none_or(|b| b.bit_errors == c.bch_bit_errors && b.frame_errors == c.bch_frame_errors && b.correct_iterations == c.bch_correct_iterations)
    };
    // what the tasks after task i can still contribute at most (everything they decoded)
    let mut rest: Vec<RefCounters> = vec![RefCounters::default(); tasks.len() + 1];
    for i in (0..tasks.len()).rev() {
        rest[i] = add(&rest[i + 1], tasks[i].last().unwrap());
    }
    let reachable = |c: &RefCounters, r: &RefCounters| {
        c.num_frames + r.num_frames >= s.num_frames
            && c.bit_errors + r.bit_errors >= s.ldpc.bit_errors
            && c.frame_errors + r.frame_errors >= s.ldpc.frame_errors
            && c.total_iterations + r.total_iterations >= s.total_iterations
            && c.false_decodes + r.false_decodes >= s.false_decodes
    };
    let mut states: Vec<RefCounters> = vec![RefCounters::default()];
    let mut work = 0usize;
    for (i, prefixes) in tasks.iter().enumerate() {
        let mut next: std::collections::BTreeSet<RefCounters> = Default::default();
        for st in &states {
            for pre in prefixes {
                work += 1;
                if work > budget {
                    return None;
                }
                let c = add(st, pre);
                if !fits(&c) {
                    break; // counters only grow along a task's prefixes
                }
                if reachable(&c, &rest[i + 1]) {
                    next.insert(c);
                }
            }
        }
        states = next.into_iter().collect();
    }
    Some(states.into_iter().find(|c| is_target(c)))
}

/// Tier-2 oracle for one point: the returned statistics are the sum of whole frames decoded for
/// the point (a prefix of every task's frames), the error target is met exactly (every frame adds
/// at most one error, so a collector that stops when the target is met ends on the target), and
/// the ratios are the stated ones.
#[allow(clippy::too_many_arguments)]
fn tier2_point(cfg: &BerCfg, e: usize, p: &PointHistory, s: Option<&Statistics>, k: usize, t: u64, f: u64, v: &mut Vec<Violation>, st: &mut OracleStats) {
    let Some(s) = s else {
        // no statistics for the point: the run ended with an error here
        if !cfg.has_hard_fault() {
            v.push(Violation::new("stop-rule", format!("point {}: no statistics although no fault was injected", e)));
        }
        return;
    };
    if s.ebn0_db != cfg.ebn0s_db[e] {
        v.push(Violation::new("counters", format!("point {}: ebn0_db {} != {}", e, s.ebn0_db, cfg.ebn0s_db[e])));
    }
    match tier2_find(p, s, t, 400_000) {
        None => st.probes.inc("tier-2 search budget exhausted (not judged)"),
        Some(None) => v.push(Violation::new(
            "counters",
            format!(
                "point {}: the returned counters (frames {}, bit errors {}, frame errors {}, false decodes {}, iterations {}/{}) are not those of any set of whole frames decoded for the point (per task: {:?})",
                e, s.num_frames, s.ldpc.bit_errors, s.ldpc.frame_errors, s.false_decodes, s.total_iterations, s.ldpc.correct_iterations,
                p.decoded.values().map(|x| x.len()).collect::<Vec<_>>()
            ),
        )),
        Some(Some(rc)) => {
            st.frames_total += rc.num_frames;
            let errs = rc.errors_for_termination(t);
            if errs > f {
                v.push(Violation::new("stop-rule", format!("point {}: {} frame errors counted, target {}", e, errs, f)));
            } else if errs < f && !cfg.has_hard_fault() {
                v.push(Violation::new("stop-rule", format!("point {}: stopped with {} frame errors, target {}", e, errs, f)));
            }
            if f == 0 && rc.num_frames > 0 {
                v.push(Violation::new("stop-rule", format!("point {}: {} frames counted although the error target is 0", e, rc.num_frames)));
            }
            compare_stats(s, &rc, k, t, &format!("point {} returned statistics", e), v);
        }
    }
}

pub fn oracle_c13(cfg: &BerCfg, obs: &BerObs) -> (Vec<Violation>, OracleStats) {
    let (v, st) = oracle_c13_reading(cfg, obs);
    if v.is_empty() || !st.probes.0.keys().any(|k| k.starts_with("frames decoded but never reported")) {
        return (v, st);
    }
    // some frames were not followed by a message of their own: perhaps they were not discarded
    // but reported together with the next one
    BATCH_READING.with(|b| b.set(true));
    let (v2, mut st2) = oracle_c13_reading(cfg, obs);
    BATCH_READING.with(|b| b.set(false));
    if v2.is_empty() {
        st2.probes.inc("messages read as batches of frames (the one-frame-per-message reading failed)");
        (v2, st2)
    } else {
        (v, st)
    }
}

fn oracle_c13_reading(cfg: &BerCfg, obs: &BerObs) -> (Vec<Violation>, OracleStats) {
    let mut v: Vec<Violation> = Vec::new();
    let mut st = OracleStats { probes: Counters::default(), frames_total: 0, chain_skipped: false };
    let out = &obs.outcome;
    let k = cfg.k();
    let t = cfg.bch_max_errors;
    let f = cfg.max_frame_errors;

    // ---- termination -------------------------------------------------------
    let root = match &out.result {
        RunResult::Deadlock(m) => {
            v.push(Violation::new("deadlock", m.clone()));
            return (v, st);
        }
        RunResult::StepBound(m) => {
            v.push(Violation::new("step-bound", m.clone()));
            return (v, st);
        }
        RunResult::RootPanicked(m) => {
            // accepted only when a decoder panic was injected (partial panics propagate
            // through `join().unwrap()`); never in other configurations
            if cfg.decoder_panic.is_some() {
                st.probes.inc("terminated-by-propagated-panic");
                if !out.leaked.is_empty() {
                    // unwinding root cannot join; not judged
                }
                return (v, st);
            }
            v.push(Violation::new("root-panicked", m.clone()));
            return (v, st);
        }
        RunResult::Done(r) => r,
    };

    // ---- construction ------------------------------------------------------
    let invertible = cfg.tail_invertible();
    if let Some(e) = &root.build_err {
        if invertible {
            v.push(Violation::new("build", format!("BerTest::new failed on an encodable code: {}", e)));
        } else {
            st.probes.inc("singular tail rejected");
        }
        return (v, st);
    }
    if !invertible {
        v.push(Violation::new("build", "BerTest::new accepted a code whose last columns are singular".to_string()));
        return (v, st);
    }
    let hist = extract_history(cfg, &out.events, root.report_chan);
    // debugging aid: VERIF_DEBUG_HIST=1 prints what the event log says about every point
    if std::env::var("VERIF_DEBUG_HIST").is_ok() {
        for (e, p) in hist.points.iter().enumerate() {
            eprintln!(
                "[hist] point {}: received {:?}, decoded per task {:?}, untransported {}, unconsumed {}",
                e,
                p.recvs.iter().map(|key| (key.0, key.1, p.frames[key])).collect::<Vec<_>>(),
                p.decoded,
                p.untransported,
                p.unconsumed
            );
        }
        eprintln!("[hist] control messages {}, discarded frames {}, joins {:?}, recv_after_err {}, batch reading {}", hist.control_msgs, hist.discarded_frames, hist.joins, hist.recv_after_err, BATCH_READING.with(|b| b.get()));
    }
    if !hist.anomalies.is_empty() {
        // the decoder was handed another matrix, length or iteration limit than configured:
        // that is the chain's business (C12), C13 says nothing about this run — except that a
        // configuration whose block sizes do not fit must still end in an error (seeded change
        // C13-r4-3: a modulator that silently truncates the frame instead of refusing it)
        let no_frames_possible = cfg.stage_panic()
            || cfg.decoder_panic.as_ref().is_some_and(|p| p.at_frame == 0 && p.workers.len() >= cfg.workers);
        if (cfg.stage_error() || no_frames_possible) && f > 0 && matches!(root.result, Some(Ok(_))) {
            v.push(Violation::new("unexpected-ok", "frames cannot be processed (a block size does not fit the codeword) but run() returned Ok".to_string()));
            return (v, st);
        }
        st.chain_skipped = true;
        return (v, st);
    }

    // ---- joins / leaks -----------------------------------------------------
    if !out.leaked.is_empty() {
        v.push(Violation::new(
            "leak",
            format!("run returned while tasks {:?} were still alive (workers not joined)", out.leaked),
        ));
    }
    for ti in out.tasks.iter().skip(1) {
        match &ti.end {
            TaskEnd::Returned | TaskEnd::Unfinished(_) => {}
            TaskEnd::InjectedPanic => st.probes.inc("worker ended by injected panic"),
            TaskEnd::Panicked(m) => {
                if cfg.stage_panic() {
                    st.probes.inc("worker ended by stage panic");
                } else {
                    v.push(Violation::new("worker-panic", format!("task {} panicked: {}", ti.id, m)));
                }
            }
        }
    }

    let result = root.result.as_ref().unwrap();
    let no_frames_possible = cfg.stage_panic()
        || cfg.decoder_panic.as_ref().is_some_and(|p| p.at_frame == 0 && p.workers.len() >= cfg.workers);
    // ---- expected verdict --------------------------------------------------
    if cfg.stage_error() || no_frames_possible {
        match result {
            Ok(_) if f > 0 => v.push(Violation::new(
                "unexpected-ok",
                "frames cannot be processed but run() returned Ok".to_string(),
            )),
            Ok(_) => st.probes.inc("stage fault with zero error target returned Ok"),
            Err(_) => st.probes.inc("stage fault returned Err"),
        }
    } else if cfg.decoder_panic.is_none() {
        if let Err(e) = result {
            v.push(Violation::new("unexpected-err", format!("fault-free run returned Err({})", e)));
        }
    }

    // ---- per point ----------------------------------------------------------
    let chain_fail: u64 = hist.points.iter().map(|p| p.chain_fail).sum();
    if chain_fail > 0 {
        // the LLR chain is broken: C12 territory. C13 says nothing about this run.
        st.chain_skipped = true;
        return (v, st);
    }
    let stats_vec: Option<&Vec<Statistics>> = result.as_ref().ok();
    if let Some(sv) = stats_vec {
        if sv.len() != cfg.ebn0s_db.len() {
            v.push(Violation::new("counters", format!("{} statistics for {} Eb/N0 points", sv.len(), cfg.ebn0s_db.len())));
        }
    }
    // 1. transport: on every results channel what the collector received is a prefix of what
    // was sent (FIFO, no loss, no duplication)
    if let Some(m) = &hist.transport {
        v.push(Violation::new("transport", m.clone()));
        return (v, st);
    }
    if hist.discarded_frames > 0 {
        st.probes.add("frames decoded but never reported by their worker (not judged)", hist.discarded_frames);
    }
    if hist.recv_after_err {
        // harmless as such (a collector may drain and discard what is still queued); what
        // matters is that the run ends with an error and that nothing more is counted
        st.probes.inc("results received after a worker reported an error");
    }
    if hist.control_msgs > 0 {
        st.probes.add("messages without a frame received by the collector (error reports / control messages)", hist.control_msgs);
    }
    // per point: tier 1 = reception-order folds (index = frames counted); tier 2 = None
    let mut folds: Vec<Option<Vec<RefCounters>>> = Vec::new();
    for (e, p) in hist.points.iter().enumerate() {
        let n_decoded: usize = p.decoded.values().map(|v| v.len()).sum();
        // Tier 2: frames were decoded for this point, but none of them travelled to the
        // collector over a channel it receives from (shared memory under a lock, a ledger the
        // workers fill themselves, an aggregating thread in between, ...). The order in which
        // the frames were counted is then not observable, and the oracle is the order-free one.
        if p.recvs.is_empty() && p.untransported > 0 && n_decoded > 0 {
            st.probes.inc("tier-2 point: frames do not travel over a channel to the collector; order-free oracle");
            tier2_point(cfg, e, p, stats_vec.and_then(|sv| sv.get(e)), k, t, f, &mut v, &mut st);
            folds.push(None);
            continue;
        }
        // the frames generated for this point, in the order the collector received them; the
        // collector must count them one by one until the error target is met, and no further
        let mut rc = RefCounters::default();
        let mut prefix = vec![rc.clone()];
        let mut all = RefCounters::default();
        let mut all_prefix = vec![all.clone()];
        for key in &p.recvs {
            let &(be, succ, it) = p.frames.get(key).expect("received frame without content");
            if rc.errors_for_termination(t) < f {
                rc.add(be, succ, it, t);
                prefix.push(rc.clone());
            }
            all.add(be, succ, it, t);
            all_prefix.push(all.clone());
        }
        st.frames_total += rc.num_frames;
        // 2. stopping rule
        let finished_normally = rc.errors_for_termination(t) >= f;
        // a point the run never reached (it ended with an error at an earlier point) owes nothing
        let reached = e == 0 || n_decoded > 0 || stats_vec.is_some_and(|sv| e < sv.len());
        if !finished_normally && reached {
            // the point ended before the target: only legitimate under a fault
            if !cfg.has_hard_fault() {
                v.push(Violation::new(
                    "stop-rule",
                    format!("point {}: stopped with {} frame errors, target {}", e, rc.errors_for_termination(t), f),
                ));
            }
        }
        if p.unconsumed > 0 || p.recvs.len() as u64 > rc.num_frames {
            st.probes.inc("results left unconsumed at stop");
        }
        if rc.bit_errors > 0 && t > 0 && prefix.iter().any(|c| c.frame_errors > c.bch_frame_errors) {
            st.probes.inc("frame error below outer-code threshold");
        }
        // 3/4. counters and ratios of the returned statistics
        if let Some(sv) = stats_vec {
            if let Some(s) = sv.get(e) {
                if s.ebn0_db != cfg.ebn0s_db[e] {
                    v.push(Violation::new("counters", format!("point {}: ebn0_db {} != {}", e, s.ebn0_db, cfg.ebn0s_db[e])));
                }
                // counted beyond the target? (then the statistics are those of a longer prefix)
                let overshoot = s.num_frames > rc.num_frames
                    && all_prefix.get(s.num_frames as usize).is_some_and(|c| {
                        c.bit_errors == s.ldpc.bit_errors && c.frame_errors == s.ldpc.frame_errors && c.total_iterations == s.total_iterations
                    });
                if overshoot {
                    v.push(Violation::new(
                        "stop-rule",
                        format!("point {}: error target {} was met after {} frames but {} were counted", e, f, rc.num_frames, s.num_frames),
                    ));
                } else {
                    compare_stats(s, &rc, k, t, &format!("point {} returned statistics", e), &mut v);
                }
                let max_el = (out.clock_ns.saturating_sub(1_000_000_000)) as f64 * 1e-9;
                if s.elapsed.as_secs_f64() > max_el + 1e-9 {
                    v.push(Violation::new("ratios", format!("point {}: elapsed {:?} exceeds the simulated run time {} s", e, s.elapsed, max_el)));
                }
                if rc.num_frames == 0 {
                    st.probes.inc("point with zero frames (NaN ratios)");
                }
            }
        }
        folds.push(Some(prefix));
    }
    // 6. joins: what the property asks for is that no worker outlives `run` (checked above as
    // "leak"); how many join calls there are, and when, is the design's business
    if result.is_ok() && hist.joins.len() < hist.worker_tasks.len() {
        st.probes.inc("fewer join calls than worker tasks (not judged: no task was alive at return)");
    }

    // 5. reports
    if root.report_chan.is_some() {
        let reps = &root.reports;
        let nfin = reps.iter().filter(|r| matches!(r, Report::Finished)).count();
        if nfin != 1 {
            v.push(Violation::new("reports", format!("{} Finished reports", nfin)));
        } else if !matches!(reps.last(), Some(Report::Finished)) {
            v.push(Violation::new("reports", "Finished is not the last report".to_string()));
        }
        let mut per_point: Vec<Vec<&Statistics>> = vec![Vec::new(); hist.points.len()];
        let mut cur_point = 0usize;
        for r in reps {
            if let Report::Statistics(s) = r {
                // points are reported in order; ebn0 values are distinct by construction
                match cfg.ebn0s_db.iter().position(|&x| x == s.ebn0_db) {
                    Some(e) if e >= cur_point && e < per_point.len() => {
                        cur_point = e;
                        per_point[e].push(s);
                    }
                    Some(e) => v.push(Violation::new("reports", format!("report for point {} after point {}", e, cur_point))),
                    None => v.push(Violation::new("reports", format!("report with unknown Eb/N0 {}", s.ebn0_db))),
                }
            }
        }
        for (e, list) in per_point.iter().enumerate() {
            let Some(fold) = folds.get(e) else { continue };
            let mut last_n = 0u64;
            // a point that never started (the run ended with an error at an earlier point)
            // owes no report
            let p = &hist.points[e];
            let started = !p.decoded.is_empty() || !p.recvs.is_empty() || stats_vec.is_some_and(|sv| e < sv.len()) || e == 0;
            if list.is_empty() && !(started || result.is_ok()) {
                continue;
            }
            let Some(prefix) = fold else {
                // tier 2: every report is the sum of some per-task prefixes, frames never go
                // down, and the last report is the returned statistics
                for (i, s) in list.iter().enumerate() {
                    if s.num_frames < last_n {
                        v.push(Violation::new("reports", format!("point {}: report frames went from {} to {}", e, last_n, s.num_frames)));
                    }
                    last_n = s.num_frames;
                    match tier2_find(p, s, t, 200_000) {
                        Some(Some(rc)) => compare_stats(s, &rc, k, t, &format!("point {} report {}", e, i), &mut v),
                        Some(None) => v.push(Violation::new("reports", format!("point {} report {}: its counters are not those of any set of whole frames decoded for the point", e, i))),
                        None => st.probes.inc("tier-2 search budget exhausted (not judged)"),
                    }
                }
                if list.is_empty() {
                    v.push(Violation::new("reports", format!("point {}: no statistics report (a final one is required)", e)));
                } else if let Some(s) = stats_vec.and_then(|sv| sv.get(e)) {
                    if !counters_equal_ignoring_time(list.last().unwrap(), s) {
                        v.push(Violation::new("reports", format!("point {}: final report differs from the returned statistics", e)));
                    }
                }
                continue;
            };
            if list.is_empty() {
                v.push(Violation::new("reports", format!("point {}: no statistics report (a final one is required)", e)));
                continue;
            }
            for (i, s) in list.iter().enumerate() {
                if s.num_frames < last_n {
                    v.push(Violation::new("reports", format!("point {}: report frames went from {} to {}", e, last_n, s.num_frames)));
                }
                last_n = s.num_frames;
                match prefix.get(s.num_frames as usize) {
                    Some(rc) => compare_stats(s, rc, k, t, &format!("point {} report {}", e, i), &mut v),
                    None => v.push(Violation::new("reports", format!("point {}: report with {} frames but only {} were received", e, s.num_frames, prefix.len() - 1))),
                }
            }
            if list.len() > 1 {
                st.probes.inc("periodic report emitted");
            }
            // the last report of a point is the final one
            let last = list.last().unwrap();
            let final_rc = prefix.last().unwrap();
            if last.num_frames != final_rc.num_frames {
                v.push(Violation::new("reports", format!("point {}: last report has {} frames, final count is {}", e, last.num_frames, final_rc.num_frames)));
            }
            if let Some(sv) = stats_vec {
                if let Some(s) = sv.get(e) {
                    if !counters_equal_ignoring_time(last, s) {
                        v.push(Violation::new("reports", format!("point {}: final report differs from the returned statistics", e)));
                    }
                }
            }
        }
    }
    st.probes.add(&format!("points/{}", hist.points.len()), 1);
    (v, st)
}

pub fn transport_signature(cfg: &BerCfg, obs: &BerObs) -> u64 {
    let rc = match &obs.outcome.result {
        RunResult::Done(r) => r.report_chan,
        _ => None,
    };
    extract_history(cfg, &obs.outcome.events, rc).transport_sig
}
