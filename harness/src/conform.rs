//! Model conformance of the simulator's thread/channel shims (part of `verif selftest`).
//!
//! dstsim's `mpsc::channel`, `sync_channel(n)` (n = 0 rendezvous included), `send`, `try_send`,
//! `recv`, `try_recv`, endpoint drops, `spawn`, `join` and task panics are *models* of std's.
//! A model that allows less than std does hides bugs; one that allows more raises false alarms.
//! Seeded small programs over those operations are therefore executed on three back ends and
//! the sets of observable outcomes (what every operation of every thread returned) compared:
//!
//! * **real std**, a few dozen times with perturbed timing (a sample of what really happens);
//! * **dstsim**, under a few hundred seeded schedules of every strategy;
//! * **shuttle** (an independently written model, AWS), under its exhaustive DFS scheduler.
//!
//! Required: every real outcome is a dstsim outcome; every dstsim outcome is a shuttle-DFS outcome
//! (when the DFS completed: nothing the model allows is impossible); every shuttle-DFS outcome is
//! reached by dstsim (coverage of the seeded schedulers on programs this small); a program
//! deadlocks under dstsim iff it does under shuttle, and real std then hangs or not accordingly.
//! Programs with a panicking thread are compared between real std and dstsim only (shuttle
//! treats a task panic as a test failure — the reason dstsim exists, DESIGN.md section 8).

use crate::common::*;
use dstsim::Stream;
use std::collections::BTreeSet;
use std::sync::{Arc, Mutex};

#[derive(Clone, Debug)]
pub enum Op {
    Send(usize),
    TrySend(usize),
    Recv(usize),
    TryRecv(usize),
    DropTx(usize),
    DropRx(usize),
    Yield,
    Panic,
    /// increment the shared counter under the mutex; observes the value before
    LockInc,
    /// the same, then `notify_all` on the condition variable
    LockIncNotify,
    /// lock; wait on the condition variable until the counter is at least this; observes the value
    WaitAtLeast(u32),
}

#[derive(Clone, Debug)]
pub struct Prog {
    /// capacity per channel: None = unbounded
    pub caps: Vec<Option<usize>>,
    /// which thread owns the receiver of each channel
    pub rx_owner: Vec<usize>,
    /// which threads hold a sender of each channel
    pub tx_holders: Vec<Vec<usize>>,
    /// thread 0 is the main thread: spawns 1.., runs its operations, joins 1.. in order
    pub threads: Vec<Vec<Op>>,
}

#[derive(Clone, Debug, PartialEq, Eq, PartialOrd, Ord)]
pub enum Obs {
    SendOk,
    SendErr,
    TrySendOk,
    TrySendFull,
    TrySendDisc,
    Recv(u32),
    RecvDisc,
    TryRecv(u32),
    TryEmpty,
    TryDisc,
    JoinOk,
    JoinErr,
    NoEndpoint,
    Counter(u32),
}

pub type Outcome = Vec<Vec<Obs>>;

pub trait Backend: 'static {
    type Tx: Clone + Send + 'static;
    type Rx: Send + 'static;
    type Join;
    /// a counter under a mutex, with a condition variable
    type Lk: Clone + Send + 'static;
    fn new_lk() -> Self::Lk;
    fn lock_inc(lk: &Self::Lk, notify: bool) -> u32;
    fn wait_at_least(lk: &Self::Lk, x: u32) -> u32;
    fn chan(cap: Option<usize>) -> (Self::Tx, Self::Rx);
    fn send(tx: &Self::Tx, v: u32) -> bool;
    /// Ok, Err(true) = full, Err(false) = disconnected; None = not applicable (unbounded sender)
    fn try_send(tx: &Self::Tx, v: u32) -> Option<Result<(), bool>>;
    fn recv(rx: &Self::Rx) -> Option<u32>;
    /// Err(true) = empty, Err(false) = disconnected
    fn try_recv(rx: &Self::Rx) -> Result<u32, bool>;
    fn spawn(f: Box<dyn FnOnce() + Send + 'static>) -> Self::Join;
    fn join(j: Self::Join) -> bool;
    fn yield_now();
}

fn body<B: Backend>(me: usize, ops: &[Op], mut txs: Vec<Option<B::Tx>>, mut rxs: Vec<Option<B::Rx>>, lk: B::Lk, log: &Arc<Mutex<Vec<Obs>>>) {
    let put = |o: Obs| log.lock().unwrap_or_else(|p| p.into_inner()).push(o);
    for (i, op) in ops.iter().enumerate() {
        let val = ((me as u32) << 8) | i as u32;
        match op {
            Op::Send(c) => match &txs[*c] {
                Some(t) => put(if B::send(t, val) { Obs::SendOk } else { Obs::SendErr }),
                None => put(Obs::NoEndpoint),
            },
            Op::TrySend(c) => match &txs[*c] {
                Some(t) => match B::try_send(t, val) {
                    Some(Ok(())) => put(Obs::TrySendOk),
                    Some(Err(true)) => put(Obs::TrySendFull),
                    Some(Err(false)) => put(Obs::TrySendDisc),
                    None => put(if B::send(t, val) { Obs::SendOk } else { Obs::SendErr }),
                },
                None => put(Obs::NoEndpoint),
            },
            Op::Recv(c) => match &rxs[*c] {
                Some(r) => put(match B::recv(r) {
                    Some(v) => Obs::Recv(v),
                    None => Obs::RecvDisc,
                }),
                None => put(Obs::NoEndpoint),
            },
            Op::TryRecv(c) => match &rxs[*c] {
                Some(r) => put(match B::try_recv(r) {
                    Ok(v) => Obs::TryRecv(v),
                    Err(true) => Obs::TryEmpty,
                    Err(false) => Obs::TryDisc,
                }),
                None => put(Obs::NoEndpoint),
            },
            // (shuttle has no scheduling point at a drop: an explicit one keeps the three back
            // ends at the same granularity; dstsim yields at endpoint drops by itself)
            Op::DropTx(c) => {
                if txs[*c].is_some() {
                    B::yield_now();
                }
                txs[*c] = None
            }
            Op::DropRx(c) => {
                if rxs[*c].is_some() {
                    B::yield_now();
                }
                rxs[*c] = None
            }
            Op::Yield => B::yield_now(),
            Op::Panic => std::panic::resume_unwind(Box::new(())),
            Op::LockInc => put(Obs::Counter(B::lock_inc(&lk, false))),
            Op::LockIncNotify => put(Obs::Counter(B::lock_inc(&lk, true))),
            Op::WaitAtLeast(x) => put(Obs::Counter(B::wait_at_least(&lk, *x))),
        }
    }
    // the end of a thread drops its endpoints one by one, other threads may act in between
    for t in txs.iter_mut() {
        if t.is_some() {
            B::yield_now();
            *t = None;
        }
    }
    for r in rxs.iter_mut() {
        if r.is_some() {
            B::yield_now();
            *r = None;
        }
    }
}

/// Execute the program on a back end; called on the thread / task that plays "main".
pub fn run_prog<B: Backend>(p: &Prog) -> Outcome {
    let n = p.threads.len();
    let logs: Vec<Arc<Mutex<Vec<Obs>>>> = (0..n).map(|_| Arc::new(Mutex::new(Vec::new()))).collect();
    let mut txs: Vec<Vec<Option<B::Tx>>> = (0..n).map(|_| Vec::new()).collect();
    let mut rxs: Vec<Vec<Option<B::Rx>>> = (0..n).map(|_| Vec::new()).collect();
    for (c, cap) in p.caps.iter().enumerate() {
        let (tx, rx) = B::chan(*cap);
        let mut rx = Some(rx);
        for t in 0..n {
            txs[t].push(if p.tx_holders[c].contains(&t) { Some(tx.clone()) } else { None });
            rxs[t].push(if p.rx_owner[c] == t { rx.take() } else { None });
        }
        drop(tx);
    }
    let lk = B::new_lk();
    let mut joins = Vec::new();
    let mut main_tx = None;
    let mut main_rx = None;
    for (t, (tx, rx)) in txs.into_iter().zip(rxs.into_iter()).enumerate() {
        if t == 0 {
            main_tx = Some(tx);
            main_rx = Some(rx);
            continue;
        }
        let ops = p.threads[t].clone();
        let log = logs[t].clone();
        let lk2 = lk.clone();
        joins.push(B::spawn(Box::new(move || body::<B>(t, &ops, tx, rx, lk2, &log))));
    }
    body::<B>(0, &p.threads[0], main_tx.unwrap(), main_rx.unwrap(), lk, &logs[0]);
    for j in joins {
        let ok = B::join(j);
        logs[0].lock().unwrap_or_else(|p| p.into_inner()).push(if ok { Obs::JoinOk } else { Obs::JoinErr });
    }
    logs.iter().map(|l| l.lock().unwrap_or_else(|p| p.into_inner()).clone()).collect()
}

// ---------------------------------------------------------------------------
// back ends
// ---------------------------------------------------------------------------

macro_rules! backend {
    ($name:ident, $mp:path, $th:path, $sy:path, $yield_now:expr) => {
        pub struct $name;
        const _: () = {
            use $mp as mp;
            use $sy as sy;
            use $th as th;
            #[derive(Clone)]
            pub enum Tx {
                U(mp::Sender<u32>),
                S(mp::SyncSender<u32>),
            }
            impl Backend for $name {
                type Tx = Tx;
                type Rx = mp::Receiver<u32>;
                type Join = th::JoinHandle<()>;
                type Lk = std::sync::Arc<(sy::Mutex<u32>, sy::Condvar)>;
                fn new_lk() -> Self::Lk {
                    std::sync::Arc::new((sy::Mutex::new(0), sy::Condvar::new()))
                }
                fn lock_inc(lk: &Self::Lk, notify: bool) -> u32 {
                    let v = {
                        let mut g = lk.0.lock().unwrap_or_else(|p| p.into_inner());
                        let v = *g;
                        *g = v + 1;
                        v
                    };
                    if notify {
                        lk.1.notify_all();
                    }
                    v
                }
                fn wait_at_least(lk: &Self::Lk, x: u32) -> u32 {
                    let mut g = lk.0.lock().unwrap_or_else(|p| p.into_inner());
                    while *g < x {
                        g = lk.1.wait(g).unwrap_or_else(|p| p.into_inner());
                    }
                    *g
                }
                fn chan(cap: Option<usize>) -> (Tx, Self::Rx) {
                    match cap {
                        None => {
                            let (t, r) = mp::channel();
                            (Tx::U(t), r)
                        }
                        Some(c) => {
                            let (t, r) = mp::sync_channel(c);
                            (Tx::S(t), r)
                        }
                    }
                }
                fn send(tx: &Tx, v: u32) -> bool {
                    match tx {
                        Tx::U(t) => t.send(v).is_ok(),
                        Tx::S(t) => t.send(v).is_ok(),
                    }
                }
                fn try_send(tx: &Tx, v: u32) -> Option<Result<(), bool>> {
                    match tx {
                        Tx::U(_) => None,
                        Tx::S(t) => Some(match t.try_send(v) {
                            Ok(()) => Ok(()),
                            Err(std::sync::mpsc::TrySendError::Full(_)) => Err(true),
                            Err(std::sync::mpsc::TrySendError::Disconnected(_)) => Err(false),
                        }),
                    }
                }
                fn recv(rx: &Self::Rx) -> Option<u32> {
                    rx.recv().ok()
                }
                fn try_recv(rx: &Self::Rx) -> Result<u32, bool> {
                    rx.try_recv().map_err(|e| matches!(e, std::sync::mpsc::TryRecvError::Empty))
                }
                fn spawn(f: Box<dyn FnOnce() + Send + 'static>) -> Self::Join {
                    th::spawn(f)
                }
                fn join(j: Self::Join) -> bool {
                    j.join().is_ok()
                }
                fn yield_now() {
                    $yield_now
                }
            }
        };
    };
}

static JITTER: std::sync::atomic::AtomicU64 = std::sync::atomic::AtomicU64::new(1);
fn real_yield() {
    let x = dstsim::mix64(JITTER.fetch_add(0x9E37, std::sync::atomic::Ordering::Relaxed));
    match x % 4 {
        0 => std::thread::yield_now(),
        1 => std::thread::sleep(std::time::Duration::from_micros(x % 200)),
        _ => {}
    }
}

backend!(Real, std::sync::mpsc, std::thread, std::sync, real_yield());
backend!(Sim, dstsim::shim::std::sync::mpsc, dstsim::shim::std::thread, dstsim::shim::std::sync, dstsim::yield_now());
backend!(Shut, shuttle::sync::mpsc, shuttle::thread, shuttle::sync, shuttle::thread::yield_now());

// ---------------------------------------------------------------------------
// generation
// ---------------------------------------------------------------------------

pub fn gen_prog(seed: u64, idx: u64, with_panic: bool) -> Prog {
    let mut g = Stream::new(dstsim::keyed(seed, &[idx]), "conform-prog");
    let nthreads = 2 + g.below(2) as usize; // main + 1..2
    let nchans = 1 + g.below(2) as usize;
    let caps: Vec<Option<usize>> = (0..nchans).map(|_| *g.pick(&[None, None, Some(0), Some(1), Some(1), Some(2)])).collect();
    let rx_owner: Vec<usize> = (0..nchans).map(|_| g.below(nthreads as u64) as usize).collect();
    let tx_holders: Vec<Vec<usize>> = (0..nchans)
        .map(|c| {
            let mut v: Vec<usize> = (0..nthreads).filter(|&t| t != rx_owner[c] && g.chance(2, 3)).collect();
            if v.is_empty() {
                v.push((rx_owner[c] + 1) % nthreads);
            }
            if g.chance(1, 6) {
                v.push(rx_owner[c]); // a thread that holds both ends
            }
            v
        })
        .collect();
    let mut threads = Vec::new();
    let mut panic_left = with_panic;
    for t in 0..nthreads {
        let len = 1 + g.below(if nthreads == 2 { 4 } else { 3 }) as usize;
        let mut ops = Vec::new();
        for _ in 0..len {
            if g.chance(1, 5) {
                ops.push(match g.below(4) {
                    0 => Op::LockInc,
                    1 | 2 => Op::LockIncNotify,
                    _ => Op::WaitAtLeast(1 + g.below(3) as u32),
                });
                continue;
            }
            let c = g.below(nchans as u64) as usize;
            let holds_tx = tx_holders[c].contains(&t);
            let holds_rx = rx_owner[c] == t;
            let op = match g.below(12) {
                0..=3 if holds_tx => Op::Send(c),
                4 if holds_tx => Op::TrySend(c),
                0..=4 if holds_rx => {
                    if g.chance(2, 3) {
                        Op::Recv(c)
                    } else {
                        Op::TryRecv(c)
                    }
                }
                5 | 6 if holds_rx => Op::Recv(c),
                7 if holds_rx => Op::TryRecv(c),
                8 if holds_tx => Op::DropTx(c),
                9 if holds_rx => Op::DropRx(c),
                10 if g.chance(1, 2) => Op::Yield,
                10 => match g.below(4) {
                    0 => Op::LockInc,
                    1 | 2 => Op::LockIncNotify,
                    _ => Op::WaitAtLeast(1 + g.below(3) as u32),
                },
                11 if panic_left && t != 0 => {
                    panic_left = false;
                    Op::Panic
                }
                _ => {
                    if holds_tx {
                        Op::Send(c)
                    } else if holds_rx {
                        Op::Recv(c)
                    } else {
                        Op::Yield
                    }
                }
            };
            ops.push(op);
        }
        threads.push(ops);
    }
    Prog { caps, rx_owner, tx_holders, threads }
}

// ---------------------------------------------------------------------------
// execution per back end
// ---------------------------------------------------------------------------

#[derive(Clone, Debug, PartialEq, Eq, PartialOrd, Ord)]
pub enum Res {
    Done(Outcome),
    Deadlock,
}

fn sim_outcomes(p: &Prog, seeds: u64) -> BTreeSet<Res> {
    use dstsim::{ClockProfile, Config, RunResult, Strategy};
    let mut set = BTreeSet::new();
    let strategies = [Strategy::Uniform, Strategy::Sticky(500), Strategy::Sticky(900), Strategy::Weighted, Strategy::Stall, Strategy::Pct(2), Strategy::Pct(5)];
    for s in 0..seeds {
        let cfg = Config { sched_seed: 0xC0F0 + s, strategy: strategies[(s % strategies.len() as u64) as usize].clone(), clock: ClockProfile::Fine, max_steps: 100_000, stop_rule: false, keep_events: false, ..Config::default() };
        let pp = p.clone();
        let out = dstsim::run(cfg, move || run_prog::<Sim>(&pp));
        match out.result {
            RunResult::Done(o) => {
                set.insert(Res::Done(o));
            }
            RunResult::Deadlock(_) => {
                set.insert(Res::Deadlock);
            }
            other => harness_error(&format!("conformance: dstsim run ended with {} on {:?}", other.kind(), p)),
        }
    }
    set
}

/// (outcomes, complete?) under shuttle's DFS; a deadlock makes shuttle panic.
fn shuttle_outcomes(p: &Prog, max_iter: usize) -> (BTreeSet<Res>, bool) {
    let set: Arc<Mutex<BTreeSet<Res>>> = Arc::new(Mutex::new(BTreeSet::new()));
    let s2 = set.clone();
    let pp = p.clone();
    let r = dstsim::quiet(|| {
        std::panic::catch_unwind(std::panic::AssertUnwindSafe(move || {
            let sched = shuttle::scheduler::DfsScheduler::new(Some(max_iter), false);
            let mut cfg = shuttle::Config::new();
            cfg.failure_persistence = shuttle::FailurePersistence::None;
            let runner = shuttle::Runner::new(sched, cfg);
            runner.run(move || {
                let o = run_prog::<Shut>(&pp);
                s2.lock().unwrap().insert(Res::Done(o));
            })
        }))
    });
    let mut out = set.lock().unwrap().clone();
    match r {
        Ok(iters) => (out, iters < max_iter),
        Err(e) => {
            let msg = e.downcast_ref::<String>().cloned().or_else(|| e.downcast_ref::<&str>().map(|s| s.to_string())).unwrap_or_default();
            let _ = dstsim::take_last_panic();
            if msg.contains("deadlock") {
                out.insert(Res::Deadlock);
                // the DFS stops at the first failure: the set is not complete
                (out, false)
            } else {
                harness_error(&format!("conformance: shuttle failed on {:?}: {}", p, msg))
            }
        }
    }
}

/// A sample of real executions; None = did not finish within the limit (hang).
fn real_outcomes(p: &Prog, runs: usize, limit_ms: u64) -> (BTreeSet<Res>, usize) {
    let mut set = BTreeSet::new();
    let mut hangs = 0;
    for _ in 0..runs {
        let (tx, rx) = std::sync::mpsc::channel();
        let pp = p.clone();
        std::thread::spawn(move || {
            let o = run_prog::<Real>(&pp);
            let _ = tx.send(o);
        });
        match rx.recv_timeout(std::time::Duration::from_millis(limit_ms)) {
            Ok(o) => {
                set.insert(Res::Done(o));
            }
            Err(_) => {
                hangs += 1;
                set.insert(Res::Deadlock);
                break; // the stuck threads stay behind; one is enough
            }
        }
    }
    (set, hangs)
}

pub fn main(opts: &Opts) -> serde_json::Value {
    let n = if opts.tier == Tier::Thorough { 4000u64 } else { 600 };
    let t0 = std::time::Instant::now();
    let stop = std::sync::atomic::AtomicBool::new(false);
    #[derive(Default)]
    struct Acc {
        programs: u64,
        with_panic: u64,
        deadlock_prone: u64,
        dfs_complete: u64,
        real_runs: u64,
        sim_runs: u64,
        shuttle_outcomes: u64,
        sim_outcomes: u64,
        max_outcomes: usize,
        rendezvous_programs: u64,
        mismatches: Vec<String>,
    }
    let acc = Mutex::new(Acc::default());
    let done = par_map(n, opts.threads, None, &stop, |i| {
        let with_panic = i % 5 == 4;
        let p = gen_prog(opts.seed, i, with_panic);
        let has_panic = p.threads.iter().any(|t| t.iter().any(|o| matches!(o, Op::Panic)));
        let mut sim = sim_outcomes(&p, 300);
        let mut mism = Vec::new();
        let mut sim_runs = 300;
        let (mut dfs_complete, mut shut_n) = (false, 0);
        if !has_panic {
            let (sh, complete) = shuttle_outcomes(&p, 60_000);
            dfs_complete = complete;
            shut_n = sh.len();
            // (a shuttle search that was cut off and found no deadlock says nothing about one)
            if sh.contains(&Res::Deadlock) != sim.contains(&Res::Deadlock) && (complete || sh.contains(&Res::Deadlock)) {
                // the seeded schedulers may simply not have reached it yet: try harder first
                if sh.contains(&Res::Deadlock) {
                    sim.extend(sim_outcomes_more(&p, 3000));
                    sim_runs += 3000;
                }
                if sh.contains(&Res::Deadlock) != sim.contains(&Res::Deadlock) {
                    mism.push(format!("deadlock: shuttle {} / dstsim {} on {:?}", sh.contains(&Res::Deadlock), sim.contains(&Res::Deadlock), p));
                }
            }
            if complete {
                for o in &sim {
                    if !sh.contains(o) {
                        mism.push(format!("dstsim reaches an outcome the exhaustive shuttle search does not: {:?} on {:?}", o, p));
                        break;
                    }
                }
                let missing: Vec<&Res> = sh.iter().filter(|o| !sim.contains(*o)).collect();
                if !missing.is_empty() {
                    sim.extend(sim_outcomes_more(&p, 3000));
                    sim_runs += 3000;
                    if let Some(o) = sh.iter().find(|o| !sim.contains(*o)) {
                        mism.push(format!("dstsim never reaches an outcome shuttle's search finds (3300 schedules): {:?} on {:?}", o, p));
                    }
                }
            }
        }
        let mut real_runs = 0;
        if !sim.contains(&Res::Deadlock) {
            let (real, hangs) = real_outcomes(&p, 25, 3000);
            real_runs = 25;
            if hangs > 0 {
                mism.push(format!("real std hangs on a program that never deadlocks under dstsim: {:?}", p));
            }
            for o in &real {
                if !sim.contains(o) {
                    // more schedules before calling it a model error
                    sim.extend(sim_outcomes_more(&p, 3000));
                    if !sim.contains(o) {
                        mism.push(format!("real std produced an outcome dstsim never reaches: {:?} on {:?}", o, p));
                    }
                    break;
                }
            }
        }
        let mut a = acc.lock().unwrap();
        a.programs += 1;
        a.with_panic += u64::from(has_panic);
        a.deadlock_prone += u64::from(sim.contains(&Res::Deadlock));
        a.dfs_complete += u64::from(dfs_complete);
        a.real_runs += real_runs;
        a.sim_runs += sim_runs;
        a.shuttle_outcomes += shut_n as u64;
        a.sim_outcomes += sim.len() as u64;
        a.max_outcomes = a.max_outcomes.max(sim.len());
        a.rendezvous_programs += u64::from(p.caps.contains(&Some(0)));
        a.mismatches.extend(mism);
    });
    let a = acc.into_inner().unwrap();
    eprintln!(
        "[selftest] model conformance: {} programs ({} with a panicking thread, {} with a rendezvous channel, {} deadlock-prone), shuttle DFS complete on {}, {} dstsim runs, {} real runs, {} mismatches, {:.1}s",
        done.len(),
        a.with_panic,
        a.rendezvous_programs,
        a.deadlock_prone,
        a.dfs_complete,
        a.sim_runs,
        a.real_runs,
        a.mismatches.len(),
        t0.elapsed().as_secs_f64()
    );
    for m in a.mismatches.iter().take(5) {
        eprintln!("  MISMATCH {}", m);
    }
    if !a.mismatches.is_empty() {
        harness_error("selftest: the simulator's channel/thread model disagrees with std or shuttle (see above)");
    }
    serde_json::json!({
        "programs": a.programs, "with_panicking_thread": a.with_panic, "with_rendezvous_channel": a.rendezvous_programs,
        "deadlock_prone": a.deadlock_prone, "shuttle_dfs_complete": a.dfs_complete,
        "dstsim_runs": a.sim_runs, "real_std_runs": a.real_runs,
        "distinct_outcomes_dstsim_total": a.sim_outcomes, "distinct_outcomes_shuttle_total": a.shuttle_outcomes, "max_outcomes_of_one_program": a.max_outcomes,
        "mismatches": a.mismatches.len(),
    })
}

fn sim_outcomes_more(p: &Prog, seeds: u64) -> BTreeSet<Res> {
    use dstsim::{ClockProfile, Config, RunResult, Strategy};
    let mut set = BTreeSet::new();
    let strategies = [Strategy::Uniform, Strategy::Sticky(500), Strategy::Pct(3), Strategy::Weighted];
    for s in 0..seeds {
        let cfg = Config { sched_seed: 0xABCD_0000 + s, strategy: strategies[(s % 4) as usize].clone(), clock: ClockProfile::Fine, max_steps: 100_000, stop_rule: false, keep_events: false, ..Config::default() };
        let pp = p.clone();
        match dstsim::run(cfg, move || run_prog::<Sim>(&pp)).result {
            RunResult::Done(o) => {
                set.insert(Res::Done(o));
            }
            RunResult::Deadlock(_) => {
                set.insert(Res::Deadlock);
            }
            _ => {}
        }
    }
    set
}
