//! C13 — BER statistics are exact and the run terminates under every thread schedule.

use crate::bersim::*;
use crate::campaign::*;
use crate::common::*;
use crate::gf2::*;
use dstsim::{ClockProfile, Strategy, Stream, keyed};
use serde_json::json;

pub fn divisors(n: usize) -> Vec<usize> {
    (1..=n).filter(|d| n % d == 0).collect()
}

pub fn pick_strategy(g: &mut Stream) -> Strategy {
    match g.below(10) {
        0 | 1 => Strategy::Uniform,
        2 => Strategy::Sticky(500),
        3 => Strategy::Sticky(900),
        4 => Strategy::Sticky(990),
        5 | 6 => Strategy::Weighted,
        7 => Strategy::Stall,
        8 => Strategy::Pct(1),
        _ => Strategy::Pct(3),
    }
}

pub fn pick_clock(g: &mut Stream) -> ClockProfile {
    match g.below(4) {
        0 => ClockProfile::Fine,
        1 | 2 => ClockProfile::Coarse,
        _ => ClockProfile::Jumpy,
    }
}

pub fn pick_workers(g: &mut Stream) -> usize {
    *g.pick(&[1, 1, 2, 2, 2, 3, 3, 4, 4, 6, 8, 16])
}

#[derive(Clone, Copy, Debug, PartialEq)]
pub enum FaultClass {
    None,
    StageError,
    StagePanicInterleaver,
    StagePanicPsk8,
    DecoderPanicSome,
    DecoderPanicAll,
}

/// Code + chain configuration. `keep_systematic`: blocks overlapping the information part are
/// never punctured (C13 population).
pub fn gen_chain(g: &mut Stream, cfg: &mut BerCfg, keep_systematic: bool, fault: FaultClass) {
    let n = cfg.n_cw();
    let k = cfg.k();
    // puncturing
    let want_punct = g.chance(45, 100) || fault == FaultClass::StageError;
    cfg.puncturing = None;
    if fault == FaultClass::StageError {
        // a pattern whose length does not divide the codeword
        let nd: Vec<usize> = (2..=n + 3).filter(|p| n % p != 0).collect();
        let p = *g.pick(&nd);
        let mut pat: Vec<bool> = (0..p).map(|_| g.chance(70, 100)).collect();
        pat[0] = true;
        cfg.puncturing = Some(pat);
    } else if want_punct {
        let ds: Vec<usize> = divisors(n).into_iter().filter(|&d| d >= 2).collect();
        if !ds.is_empty() {
            let p = *g.pick(&ds);
            let b = n / p;
            let mut pat: Vec<bool> = (0..p).map(|i| (keep_systematic && i * b < k) || g.chance(60, 100)).collect();
            if !pat.iter().any(|&x| x) {
                pat[0] = true;
            }
            cfg.puncturing = Some(pat);
        }
    }
    let l = cfg.tx_len().unwrap_or(n);
    // interleaving
    cfg.interleaving = None;
    if fault == FaultClass::StagePanicInterleaver {
        let nd: Vec<usize> = (2..=l + 3).filter(|c| l % c != 0).collect();
        let c = *g.pick(&nd) as isize;
        cfg.interleaving = Some(if g.chance(1, 2) { c } else { -c });
    } else if g.chance(45, 100) {
        let c = *g.pick(&divisors(l)) as isize;
        cfg.interleaving = Some(if g.chance(1, 2) { c } else { -c });
    }
    // modulation
    cfg.psk8 = if fault == FaultClass::StagePanicPsk8 { true } else { l % 3 == 0 && g.chance(40, 100) };
}

pub fn base_cfg(g: &mut Stream, seed: u64, run: u64, h: BitMat) -> BerCfg {
    BerCfg {
        h,
        psk8: false,
        puncturing: None,
        interleaving: None,
        workers: pick_workers(g),
        max_frame_errors: *g.pick(&[0, 1, 1, 2, 3, 3, 5, 10, 25]),
        bch_max_errors: 0,
        ebn0s_db: vec![60.0],
        max_iterations: *g.pick(&[0, 1, 5, 50]),
        reporter_interval_ns: None,
        factory: FactoryKind::Script,
        decoder_panic: None,
        slow_workers: vec![],
        strategy: pick_strategy(g),
        clock: pick_clock(g),
        script_seed: keyed(seed, &[run, 1]),
        sched_seed: keyed(seed, &[run, 2]),
        clock_seed: keyed(seed, &[run, 3]),
        entropy_seed: keyed(seed, &[run, 4]),
        schedule: None,
        max_steps: 400_000,
    }
}

pub fn generate(seed: u64, run: u64) -> BerCfg {
    let mut g = Stream::new(keyed(seed, &[run]), "c13-config");
    let fault = if g.chance(70, 100) {
        FaultClass::None
    } else {
        *g.pick(&[
            FaultClass::StageError,
            FaultClass::StagePanicInterleaver,
            FaultClass::StagePanicPsk8,
            FaultClass::DecoderPanicSome,
            FaultClass::DecoderPanicSome,
            FaultClass::DecoderPanicAll,
        ])
    };
    // code
    let (k, r) = loop {
        let n = *g.pick(&[3usize, 4, 5, 6, 6, 8, 9, 10, 12, 12, 14, 15, 16, 18, 18, 20]);
        let r = 1 + g.below(8.min(n as u64 - 1)) as usize;
        let k = n - r;
        if (1..=12).contains(&k) {
            if fault == FaultClass::StagePanicPsk8 && n % 3 == 0 && divisors(n).len() <= 2 {
                continue; // needs a transmitted length not divisible by 3: easier with composite n
            }
            break (k, r);
        }
    };
    let tail = if g.chance(4, 100) {
        Tail::Singular
    } else if g.chance(1, 2) {
        Tail::Staircase
    } else {
        Tail::Invertible
    };
    let h = random_code(&mut g, k, r, tail, 1);
    let mut cfg = base_cfg(&mut g, seed, run, h);
    for _ in 0..20 {
        gen_chain(&mut g, &mut cfg, true, fault);
        let ok = match fault {
            FaultClass::StagePanicPsk8 => cfg.stage_panic() && !cfg.stage_error(),
            FaultClass::StagePanicInterleaver => cfg.stage_panic(),
            FaultClass::StageError => cfg.stage_error(),
            _ => !cfg.stage_panic() && !cfg.stage_error(),
        };
        if ok {
            break;
        }
    }
    // outer code threshold: needs more information bits than the threshold, or no frame could
    // ever count as an outer-code frame error
    let t = *g.pick(&[0u64, 0, 0, 1, 2, 5]);
    cfg.bch_max_errors = if (t as usize) < k { t } else { 0 };
    // Eb/N0 points: distinct values, all far above the point where noise could flip a sign
    let np = *g.pick(&[1usize, 1, 1, 2, 2, 3]);
    cfg.ebn0s_db = (0..np).map(|i| 60.0 + 0.5 * i as f32).collect();
    cfg.reporter_interval_ns = match g.below(10) {
        0..=2 => None,
        3 | 4 => Some(0),
        5 | 6 => Some(1_000_000),
        7 | 8 => Some(500_000_000),
        _ => Some(3_600_000_000_000),
    };
    match fault {
        FaultClass::DecoderPanicSome => {
            let w = cfg.workers;
            let mut ws: Vec<usize> = (0..w).filter(|_| g.chance(1, 2)).collect();
            if ws.is_empty() {
                ws.push(g.below(w as u64) as usize);
            }
            if ws.len() == w && w > 1 {
                ws.pop();
            }
            cfg.decoder_panic = Some(PanicFault { workers: ws, at_frame: *g.pick(&[0u64, 0, 1, 2, 5]) });
        }
        FaultClass::DecoderPanicAll => {
            cfg.decoder_panic = Some(PanicFault { workers: (0..cfg.workers).collect(), at_frame: *g.pick(&[0u64, 0, 0, 1, 3]) });
        }
        _ => {}
    }
    if g.chance(20, 100) {
        cfg.slow_workers = vec![g.below(cfg.workers as u64) as usize];
    }
    cfg
}

pub fn main(opts: &Opts) -> ! {
    let (n_runs, budget, recheck) = match opts.tier {
        Tier::Quick => ((30_000.0 * opts.scale) as u64, 240.0, 3),
        Tier::Thorough => ((400_000.0 * opts.scale) as u64, 3000.0, 2),
    };
    let oracle = |c: &BerCfg, o: &BerObs| oracle_c13(c, o);
    let res = run_campaign(opts, "C13", n_runs, recheck, budget, &generate, &oracle);
    if let Some(m) = &res.determinism_mismatch {
        if res.failures.is_empty() {
            harness_error(&format!("determinism re-check failed: {}", m));
        }
        eprintln!("note: the determinism re-check also failed ({}): with violations at hand this is taken as their consequence — state in the code under test that outlives a run — and not as a defect of the harness", m);
    }
    if res.counters.get("judged") == 0 {
        harness_error("C13: the chain precondition failed in every run; undecided");
    }
    let (violations, known) = triage("C13", opts.seed, &res.failures, &oracle, 3);
    let mut extra = serde_json::Map::new();
    extra.insert("runs".into(), json!(res.runs));
    extra.insert("seeds".into(), json!(res.runs));
    extra.insert("runs_per_hour".into(), json!((res.runs as f64 / res.wall_s * 3600.0) as u64));
    extra.insert("sim_time_s".into(), json!(res.sim_time_ns as f64 * 1e-9));
    extra.insert("steps".into(), json!(res.steps));
    extra.insert("frames_checked".into(), json!(res.counters.get("frames")));
    extra.insert("faults_fired".into(), res.counters.group("faults_fired"));
    extra.insert("population".into(), res.counters.group("population"));
    extra.insert("scheduler_mix".into(), res.counters.group("scheduler_mix"));
    extra.insert("clock_mix".into(), res.counters.group("clock_mix"));
    extra.insert("worker_counts".into(), res.counters.group("workers"));
    extra.insert("outcomes".into(), res.counters.group("outcome"));
    extra.insert("skipped".into(), res.counters.group("skipped"));
    let mut probes = serde_json::Map::new();
    for (k, v) in &res.counters.0 {
        if !k.contains('/') && k != "frames" && k != "judged" {
            probes.insert(k.clone(), json!(v));
        }
    }
    for want in [
        "frame error below outer-code threshold", "periodic report emitted", "point with zero frames (NaN ratios)",
        "results left unconsumed at stop", "singular tail rejected", "stage fault returned Err",
        "worker ended by injected panic", "worker ended by stage panic", "terminated-by-propagated-panic",
    ] {
        if !probes.contains_key(want) && want != "terminated-by-propagated-panic" {
            eprintln!("warning: probe '{}' was never hit in this run: the workload or fault mix does not reach it", want);
        }
    }
    extra.insert("probes".into(), serde_json::Value::Object(probes));
    extra.insert("distinct_interleavings".into(), json!(res.distinct_interleavings));
    extra.insert("interleaving_measure".into(), json!("distinct hashes of the order of transport events: (role, op) of every send/recv/try_recv/join on the results, terminate and report channels"));
    extra.insert("determinism_rechecks".into(), json!(res.determinism_rechecks));
    extra.insert("stub_conformance".into(), stub_conformance());
    extra.insert("components".into(), json!({
        "real": ["BerTestBuilder::build", "BerTest::{new,run,do_run,make_worker}", "Worker::{work,simulate}", "Encoder", "Puncturer", "Interleaver", "modulators", "AwgnChannel", "demodulators", "Statistics::from_current", "report! macro"],
        "stub": ["std::thread::{spawn,JoinHandle}", "std::sync::mpsc", "std::time::Instant", "rand::rng", "num_cpus::get", "decoder (scripted DecoderFactory)"],
    }));
    Evidence {
        property_id: "C13".into(),
        tier: opts.tier,
        seed: opts.seed,
        level: "exploration",
        evaluations: res.runs,
        distinct_nontrivial: res.distinct_interleavings,
        rule: "one evaluation = one simulated BerTest::run under a seeded schedule/clock/script (configuration swarm: code, modulation, puncturing, interleaver, workers, error target, outer-code threshold, points, reporter, scheduler, clock, faults); non-trivial and distinct = distinct order of transport events on the results/terminate/report channels (runs with no received result all collapse into a few signatures)".into(),
        samples: res.samples.clone(),
        extra,
        assumptions: vec![
            "threads, channels, clock, RNG source and CPU count are dstsim models of the std/rand/num_cpus items (DESIGN.md 2.1)".into(),
            "the decoder is a scripted stub: frame outcomes are what the script says, so a defect inside a real decoder is out of scope here (C10)".into(),
            "runs whose LLR chain does not reproduce the systematic codeword are skipped (C12 territory) and counted".into(),
        ],
        wall_s: res.wall_s,
        violations: violations.len() as u64,
    }
    .write();
    Verdict { property: "C13".into(), violations, known }.finish()
}
