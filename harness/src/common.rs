//! Shared harness infrastructure: tiers/seeds, the parallel run driver, evidence and replay
//! files, known findings.

use serde_json::{Value, json};
use std::collections::BTreeMap;
use std::sync::Mutex;
use std::sync::atomic::{AtomicBool, AtomicU64, Ordering};
use std::time::Instant;

pub const DEFAULT_SEED: u64 = 20261004;

#[derive(Clone, Copy, Debug, PartialEq)]
pub enum Tier {
    Quick,
    Thorough,
}

impl Tier {
    pub fn name(&self) -> &'static str {
        match self {
            Tier::Quick => "quick",
            Tier::Thorough => "thorough",
        }
    }
}

#[derive(Clone, Debug)]
pub struct Opts {
    pub tier: Tier,
    pub seed: u64,
    pub threads: usize,
    /// multiplies the number of runs (testing aid)
    pub scale: f64,
}

pub fn parse_opts(args: &[String]) -> Opts {
    let mut tier = match std::env::var("VERIF_TIER").ok().as_deref() {
        Some("thorough") => Tier::Thorough,
        _ => Tier::Quick,
    };
    let mut seed = std::env::var("VERIF_SEED")
        .ok()
        .and_then(|s| s.trim().parse::<u64>().ok())
        .unwrap_or(DEFAULT_SEED);
    let mut threads = std::env::var("VERIF_THREADS")
        .ok()
        .and_then(|s| s.parse().ok())
        .unwrap_or_else(|| std::thread::available_parallelism().map(|n| n.get()).unwrap_or(4));
    let mut scale = std::env::var("VERIF_SCALE").ok().and_then(|s| s.parse().ok()).unwrap_or(1.0);
    let mut i = 0;
    while i < args.len() {
        match args[i].as_str() {
            "--tier" => {
                i += 1;
                tier = match args.get(i).map(|s| s.as_str()) {
                    Some("thorough") => Tier::Thorough,
                    Some("quick") => Tier::Quick,
                    other => harness_error(&format!("bad --tier {:?}", other)),
                };
            }
            "quick" => tier = Tier::Quick,
            "thorough" => tier = Tier::Thorough,
            "--seed" => {
                i += 1;
                seed = args
                    .get(i)
                    .and_then(|s| s.parse().ok())
                    .unwrap_or_else(|| harness_error("bad --seed"));
            }
            "--threads" => {
                i += 1;
                threads = args
                    .get(i)
                    .and_then(|s| s.parse().ok())
                    .unwrap_or_else(|| harness_error("bad --threads"));
            }
            "--scale" => {
                i += 1;
                scale = args
                    .get(i)
                    .and_then(|s| s.parse().ok())
                    .unwrap_or_else(|| harness_error("bad --scale"));
            }
            other => harness_error(&format!("unknown argument {}", other)),
        }
        i += 1;
    }
    Opts { tier, seed, threads: threads.max(1), scale }
}

/// Exit code 2: the harness itself is broken or undecided; never a property verdict.
pub fn harness_error(msg: &str) -> ! {
    eprintln!("HARNESS-ERROR: {}", msg);
    std::process::exit(2)
}

/// Second opinion on a determinism mismatch. Two executions of one case *in this process*
/// differed; that is a defect of the simulator only if two executions in *fresh processes* differ
/// too. Code under test may legitimately keep state across calls (a process-wide memo of
/// outcomes keyed by the complete configuration — rewrite C16-p5a-3): the second execution then
/// takes another path through the code, with another event log, although every answer is the same
/// (answers are judged by the oracles, not here). Replay files are always run in a fresh process.
/// `args`: arguments of a `verif child ...` command that prints the fingerprint of the case.
/// Ok(true): the two fresh processes agree.
pub fn fresh_processes_agree(args: &[String]) -> Result<bool, String> {
    let exe = std::env::current_exe().map_err(|e| e.to_string())?;
    let mut outs = Vec::new();
    for _ in 0..2 {
        let o = std::process::Command::new(&exe).args(args).stderr(std::process::Stdio::null()).output().map_err(|e| e.to_string())?;
        if !o.status.success() {
            return Err(format!("child {:?} ended with {:?}", args, o.status));
        }
        outs.push(o.stdout);
    }
    Ok(!outs[0].is_empty() && outs[0] == outs[1])
}

static RECHECK_FILE_NO: std::sync::atomic::AtomicU64 = std::sync::atomic::AtomicU64::new(0);

/// A scratch file for handing a case to a child process (removed by the caller).
pub fn recheck_file(body: &str) -> std::path::PathBuf {
    let n = RECHECK_FILE_NO.fetch_add(1, std::sync::atomic::Ordering::SeqCst);
    let p = std::env::temp_dir().join(format!("verif-recheck-{}-{}.json", std::process::id(), n));
    let _ = std::fs::write(&p, body);
    p
}

pub fn verif_dir() -> std::path::PathBuf {
    std::env::var("VERIF_DIR").map(Into::into).unwrap_or_else(|_| "/verif".into())
}

// ---------------------------------------------------------------------------
// violations
// ---------------------------------------------------------------------------

#[derive(Clone, Debug)]
pub struct Violation {
    /// class of the violation; minimisation preserves it
    pub kind: String,
    pub detail: String,
}

impl Violation {
    pub fn new(kind: &str, detail: impl Into<String>) -> Violation {
        Violation { kind: kind.to_string(), detail: detail.into() }
    }
}

// ---------------------------------------------------------------------------
// counters
// ---------------------------------------------------------------------------

/// Named counters merged across worker threads.
#[derive(Clone, Debug, Default)]
pub struct Counters(pub BTreeMap<String, u64>);

impl Counters {
    pub fn add(&mut self, k: &str, n: u64) {
        *self.0.entry(k.to_string()).or_insert(0) += n;
    }
    pub fn inc(&mut self, k: &str) {
        self.add(k, 1);
    }
    pub fn merge(&mut self, o: &Counters) {
        for (k, v) in &o.0 {
            *self.0.entry(k.clone()).or_insert(0) += v;
        }
    }
    pub fn get(&self, k: &str) -> u64 {
        self.0.get(k).copied().unwrap_or(0)
    }
    /// counters whose name starts with `prefix/`, with the prefix removed
    pub fn group(&self, prefix: &str) -> Value {
        let p = format!("{}/", prefix);
        let mut m = serde_json::Map::new();
        for (k, v) in &self.0 {
            if let Some(rest) = k.strip_prefix(&p) {
                m.insert(rest.to_string(), json!(v));
            }
        }
        Value::Object(m)
    }
}

// ---------------------------------------------------------------------------
// parallel driver
// ---------------------------------------------------------------------------

/// Run `f(i)` for i in 0..n on `threads` OS threads; stops handing out work when `stop` is
/// raised or the deadline passes. Returns the results in index order (None = not run).
/// Watchdog for engines that call the code under test in-process: if one item keeps a harness
/// thread busy for longer than `limit_s` of real time, the code under test does not come back
/// (an endless loop has no yield point, no file operation, no child to kill). That is reported as
/// a violation of `property` with what `describe(item)` says — never silently waited for.
pub struct Watch {
    pub property: &'static str,
    pub limit_s: u64,
    pub describe: Box<dyn Fn(u64) -> String + Send + Sync>,
}
static WATCH: Mutex<Option<Watch>> = Mutex::new(None);
pub fn set_watch(w: Watch) {
    *WATCH.lock().unwrap() = Some(w);
}

pub fn par_map<R: Send>(
    n: u64,
    threads: usize,
    deadline: Option<Instant>,
    stop: &AtomicBool,
    f: impl Fn(u64) -> R + Sync,
) -> Vec<(u64, R)> {
    let next = AtomicU64::new(0);
    let out: Mutex<Vec<(u64, R)>> = Mutex::new(Vec::new());
    // (item + 1, start in ms since t0) per harness thread; 0 = idle
    let t0 = Instant::now();
    let busy: Vec<(AtomicU64, AtomicU64)> = (0..threads).map(|_| (AtomicU64::new(0), AtomicU64::new(0))).collect();
    let finished = AtomicBool::new(false);
    std::thread::scope(|s| {
        let busy = &busy;
        let finished = &finished;
        s.spawn(move || {
            while !finished.load(Ordering::SeqCst) {
                std::thread::sleep(std::time::Duration::from_millis(500));
                let g = WATCH.lock().unwrap();
                let Some(w) = g.as_ref() else { continue };
                let now = t0.elapsed().as_millis() as u64;
                for (item, start) in busy.iter() {
                    let it = item.load(Ordering::SeqCst);
                    if it != 0 && now.saturating_sub(start.load(Ordering::SeqCst)) > w.limit_s * 1000 {
                        let what = (w.describe)(it - 1);
                        let body = serde_json::json!({"property": w.property, "engine": "watchdog", "item": it - 1, "case": what,
                            "violation": {"kind": "no-return", "detail": format!("the code under test did not come back within {} s of real time", w.limit_s)}, "replay_verified": false});
                        let path = write_replay(w.property, 0, it - 1, &body);
                        println!("VIOLATION property={} replay={}", w.property, path);
                        println!("  kind=no-return detail=item {} kept a harness thread busy for more than {} s: {}", it - 1, w.limit_s, what.chars().take(600).collect::<String>());
                        std::process::exit(1);
                    }
                }
            }
        });
        let mut handles = Vec::new();
        for t in 0..threads {
            let next = &next;
            let out = &out;
            let f = &f;
            let h = std::thread::Builder::new()
                .name(format!("harness-{}", t))
                .stack_size(8 * 1024 * 1024)
                .spawn_scoped(s, move || {
                    loop {
                        if stop.load(Ordering::SeqCst) {
                            break;
                        }
                        if let Some(d) = deadline {
                            if Instant::now() >= d {
                                break;
                            }
                        }
                        let i = next.fetch_add(1, Ordering::SeqCst);
                        if i >= n {
                            break;
                        }
                        busy[t].1.store(t0.elapsed().as_millis() as u64, Ordering::SeqCst);
                        busy[t].0.store(i + 1, Ordering::SeqCst);
                        let r = f(i);
                        busy[t].0.store(0, Ordering::SeqCst);
                        out.lock().unwrap().push((i, r));
                    }
                })
                .unwrap();
            handles.push(h);
        }
        for h in handles {
            let _ = h.join();
        }
        finished.store(true, Ordering::SeqCst);
    });
    let mut v = out.into_inner().unwrap();
    v.sort_by_key(|x| x.0);
    v
}

// ---------------------------------------------------------------------------
// evidence
// ---------------------------------------------------------------------------

pub struct Evidence {
    pub property_id: String,
    pub tier: Tier,
    pub seed: u64,
    pub level: &'static str,
    pub evaluations: u64,
    pub distinct_nontrivial: u64,
    pub rule: String,
    pub samples: Vec<Value>,
    pub extra: serde_json::Map<String, Value>,
    pub assumptions: Vec<String>,
    pub wall_s: f64,
    pub violations: u64,
}

impl Evidence {
    pub fn write(&self) {
        let mut cov = serde_json::Map::new();
        cov.insert("evaluations".into(), json!(self.evaluations));
        cov.insert("distinct_nontrivial".into(), json!(self.distinct_nontrivial));
        cov.insert("rule".into(), json!(self.rule));
        cov.insert("samples".into(), json!(self.samples));
        for (k, v) in &self.extra {
            cov.insert(k.clone(), v.clone());
        }
        let v = json!({
            "property_id": self.property_id,
            "tier": self.tier.name(),
            "seed": self.seed,
            "level": self.level,
            "coverage": Value::Object(cov),
            "assumptions": self.assumptions,
            "wall_s": self.wall_s,
            "violations": self.violations,
        });
        let dir = verif_dir().join("evidence");
        let _ = std::fs::create_dir_all(&dir);
        let path = dir.join(format!("{}.json", self.property_id));
        let tmp = dir.join(format!("{}.json.tmp", self.property_id));
        std::fs::write(&tmp, serde_json::to_string_pretty(&v).unwrap())
            .unwrap_or_else(|e| harness_error(&format!("cannot write evidence: {}", e)));
        std::fs::rename(&tmp, &path).unwrap_or_else(|e| harness_error(&format!("cannot write evidence: {}", e)));
    }
}

// ---------------------------------------------------------------------------
// replay files
// ---------------------------------------------------------------------------

pub fn write_replay(property: &str, seed: u64, run: u64, body: &Value) -> String {
    let dir = verif_dir().join("replays");
    let _ = std::fs::create_dir_all(&dir);
    let path = dir.join(format!("{}-{}-{}.json", property, seed, run));
    std::fs::write(&path, serde_json::to_string_pretty(body).unwrap())
        .unwrap_or_else(|e| harness_error(&format!("cannot write replay: {}", e)));
    path.to_string_lossy().into_owned()
}

/// Re-run the minimised replay in a fresh process; true iff it reports the same violation.
pub fn verify_replay_fresh(path: &str) -> bool {
    let exe = std::env::current_exe().unwrap_or_else(|e| harness_error(&format!("current_exe: {}", e)));
    let out = std::process::Command::new(exe)
        .arg("replay")
        .arg(path)
        .env("VERIF_REPLAY_CHILD", "1")
        .output();
    match out {
        Ok(o) => o.status.code() == Some(1) && String::from_utf8_lossy(&o.stdout).contains("VIOLATION"),
        Err(_) => false,
    }
}

// ---------------------------------------------------------------------------
// known findings
// ---------------------------------------------------------------------------

/// Lines of /verif/known_findings.txt of the form
/// `finding: property=<id> key=<signature> :: <description>` suppress exactly the violation
/// with that signature; `fixed: ...` lines suppress nothing.
pub struct KnownFindings {
    pub findings: Vec<(String, String, String)>,
}

impl KnownFindings {
    pub fn load() -> KnownFindings {
        let p = verif_dir().join("known_findings.txt");
        let mut findings = Vec::new();
        if let Ok(s) = std::fs::read_to_string(p) {
            for line in s.lines() {
                let line = line.trim();
                if let Some(rest) = line.strip_prefix("finding:") {
                    let rest = rest.trim();
                    let (head, descr) = rest.split_once("::").unwrap_or((rest, ""));
                    let mut prop = String::new();
                    let mut key = String::new();
                    for tok in head.split_whitespace() {
                        if let Some(v) = tok.strip_prefix("property=") {
                            prop = v.to_string();
                        } else if let Some(v) = tok.strip_prefix("key=") {
                            key = v.to_string();
                        }
                    }
                    if !prop.is_empty() && !key.is_empty() {
                        findings.push((prop, key, descr.trim().to_string()));
                    }
                }
            }
        }
        KnownFindings { findings }
    }
    pub fn matches(&self, property: &str, key: &str) -> Option<&str> {
        self.findings
            .iter()
            .find(|(p, k, _)| p == property && k == key)
            .map(|(_, _, d)| d.as_str())
    }
}

// ---------------------------------------------------------------------------
// final report
// ---------------------------------------------------------------------------

pub struct Verdict {
    pub property: String,
    /// (replay path, kind, detail)
    pub violations: Vec<(String, String, String)>,
    pub known: Vec<String>,
}

impl Verdict {
    pub fn finish(&self) -> ! {
        for k in &self.known {
            println!("KNOWN-FINDING: property={} {}", self.property, k);
        }
        if self.violations.is_empty() {
            println!("OK property={} held on everything explored", self.property);
            std::process::exit(0)
        }
        for (path, kind, detail) in &self.violations {
            println!("VIOLATION property={} replay={}", self.property, path);
            println!("  kind={} detail={}", kind, detail);
        }
        std::process::exit(1)
    }
}

pub fn hash_str(s: &str) -> u64 {
    let mut h: u64 = 0xcbf29ce484222325;
    for b in s.bytes() {
        h ^= u64::from(b);
        h = h.wrapping_mul(0x100000001b3);
    }
    h
}

/// The harness's own reading of a puncturing pattern string: comma-separated tokens, each
/// exactly "0" or "1", at least one token. Err for anything else.
pub fn own_parse_pattern(s: &str) -> Result<Vec<bool>, ()> {
    if s.is_empty() {
        return Err(());
    }
    s.split(',')
        .map(|t| match t {
            "0" => Ok(false),
            "1" => Ok(true),
            _ => Err(()),
        })
        .collect()
}

/// `SparseMatrix::from_alist` for texts the harness does not trust (damaged on purpose): a panic
/// of the parser is an error here (the harness must survive it; the checks that own the parser
/// report it), never a crash of the harness.
pub fn parse_untrusted(text: &str) -> Result<ldpc_toolbox::sparse::SparseMatrix, String> {
    match dstsim::quiet(|| std::panic::catch_unwind(|| ldpc_toolbox::sparse::SparseMatrix::from_alist(text))) {
        Ok(Ok(h)) => Ok(h),
        Ok(Err(e)) => Err(e.to_string()),
        Err(_) => {
            let _ = dstsim::take_last_panic();
            Err("the parser panicked".to_string())
        }
    }
}

/// What `./run.sh selftest` last recorded about the simulator's stubs (model conformance against
/// real std and shuttle), for the evidence of the checks that rest on those stubs.
pub fn stub_conformance() -> serde_json::Value {
    std::fs::read_to_string(verif_dir().join("selftest_report.json"))
        .ok()
        .and_then(|t| serde_json::from_str::<serde_json::Value>(&t).ok())
        .map(|v| serde_json::json!({"source": "selftest_report.json (written by ./run.sh selftest)", "model_conformance": v["model_conformance"]}))
        .unwrap_or(serde_json::json!({"source": "selftest_report.json not found; run ./run.sh selftest"}))
}
