//! `verif` — the verification harness. See /verif/DESIGN.md.

mod bersim;
mod c08;
mod c10;
mod c12;
mod c13;
mod c16;
mod c17;
mod c19;
mod c20;
mod campaign;
mod common;
mod conform;
mod fsfault;
mod gf2;
mod hist;
mod selftest;

use common::*;

fn usage() -> ! {
    eprintln!("usage: verif <C08|C10|C12|C13|C16|C17|C19|C20> [--tier quick|thorough] [--seed N] [--threads N]\n       verif replay <file>\n       verif selftest");
    std::process::exit(2)
}

fn main() {
    dstsim::install_panic_hook();
    let args: Vec<String> = std::env::args().skip(1).collect();
    if args.is_empty() {
        usage();
    }
    match args[0].as_str() {
        "C13" => c13::main(&parse_opts(&args[1..])),
        "C12" => c12::main(&parse_opts(&args[1..])),
        "C10" => c10::main(&parse_opts(&args[1..])),
        "C08" => c08::main(&parse_opts(&args[1..])),
        "C16" => c16::main(&parse_opts(&args[1..])),
        "C19" => c19::main(&parse_opts(&args[1..])),
        "C20" => c20::main(&parse_opts(&args[1..])),
        "child" => match args.get(1).map(|s| s.as_str()) {
            Some("ffi-batch") => {
                let p = |i: usize| -> u64 { args.get(i).and_then(|s| s.parse().ok()).unwrap_or_else(|| harness_error("child args")) };
                c19::child_batch(p(2), p(3), p(4), args.get(5).unwrap_or_else(|| harness_error("child args")))
            }
            Some("ber-hash") => campaign::child_ber_hash(args.get(2).unwrap_or_else(|| harness_error("child args"))),
            Some("c16-hash") => {
                let p = |i: usize| -> u64 { args.get(i).and_then(|s| s.parse().ok()).unwrap_or_else(|| harness_error("child args")) };
                c16::child_case_hash(p(2), p(3))
            }
            Some("cli-ber") => c20::child_cli_ber(args.get(2).unwrap_or_else(|| harness_error("child args"))),
            Some("ffi-replay") => c19::child_replay(
                args.get(2).unwrap_or_else(|| harness_error("child args")),
                args.get(3).unwrap_or_else(|| harness_error("child args")),
            ),
            _ => usage(),
        },
        "C17" => c17::main(&parse_opts(&args[1..])),
        "selftest" => selftest::main(&parse_opts(&args[1..])),
        "replay" => {
            let path = args.get(1).unwrap_or_else(|| usage());
            let body: serde_json::Value = serde_json::from_str(
                &std::fs::read_to_string(path).unwrap_or_else(|e| harness_error(&format!("cannot read {}: {}", path, e))),
            )
            .unwrap_or_else(|e| harness_error(&format!("bad replay file: {}", e)));
            match (body["engine"].as_str(), body["property"].as_str()) {
                (Some("bersim"), Some("C13")) => {
                    campaign::replay_file(&body, path, &|c, o| bersim::oracle_c13(c, o))
                }
                (Some("bersim"), Some("C10")) => {
                    campaign::replay_file(&body, path, &|c, o| c10::oracle_ber(c, o))
                }
                (Some("histsim-decode"), _) => c10::replay_history(&body, path),
                (Some("histsim-matrix"), _) => c17::replay(&body, path),
                (Some("watchdog"), _) => harness_error("this file records a case on which the code under test did not come back; it is not re-run automatically (the case is in the file, the check that found it re-runs it)"),
                (Some("alistsim"), _) => c08::replay(&body, path),
                (Some("ffisim"), _) => c19::replay(&body, path),
                (Some("clisim"), _) => c20::replay(&body, path),
                (Some("parsim"), _) | (Some("parsim-peg"), _) | (Some("parsim-mn-sweep"), _) => c16::replay(&body, path),
                (Some("bersim"), Some("C12")) => {
                    campaign::replay_file(&body, path, &|c, o| c12::oracle_c12(c, o))
                }
                (Some("bersim-repeated-ebn0"), Some("C12")) => {
                    let l: Vec<f32> = body["config"]["ebn0s_db"].as_array().map(|a| a.iter().filter_map(|x| x.as_f64().map(|y| y as f32)).collect()).unwrap_or_default();
                    let sd: u64 = body["config"]["probe_seed"].as_str().and_then(|x| x.parse().ok()).unwrap_or(0);
                    match c12::repeated_ebn0_probe(&l, sd) {
                        Some(x) => {
                            println!("VIOLATION property=C12 replay={}", path);
                            println!("  kind={} detail={}", x.kind, x.detail);
                            std::process::exit(1)
                        }
                        None => {
                            println!("NOT-REPRODUCED property=C12 replay={}", path);
                            std::process::exit(0)
                        }
                    }
                }
                (Some("bersim-long-frame"), Some("C12")) => {
                    let lc = c12::LongCfg::from_json(&body["config"]).unwrap_or_else(|| harness_error("bad long-frame replay"));
                    match c12::long_frame_probe(&lc) {
                        Some(x) => {
                            println!("VIOLATION property=C12 replay={}", path);
                            println!("  kind={} detail={}", x.kind, x.detail);
                            std::process::exit(1)
                        }
                        None => {
                            println!("NOT-REPRODUCED property=C12 replay={}", path);
                            std::process::exit(0)
                        }
                    }
                }
                (Some("bersim-calibration"), Some("C12")) => {
                    let cfg = bersim::BerCfg::from_json(&body["config"]).unwrap_or_else(|e| harness_error(&e));
                    let obs = bersim::run_one(&cfg);
                    let (v, _) = c12::check_noise(&cfg, &obs, &c12::describe_cal(&cfg));
                    match v.first() {
                        Some(x) => {
                            println!("VIOLATION property=C12 replay={}", path);
                            println!("  kind={} detail={}", x.kind, x.detail);
                            std::process::exit(1)
                        }
                        None => {
                            println!("NOT-REPRODUCED property=C12 replay={}", path);
                            std::process::exit(0)
                        }
                    }
                }
                other => harness_error(&format!("unknown replay kind {:?}", other)),
            }
        }
        _ => usage(),
    }
}
