//! C20 — the command-line tool emits exactly what the library computes.
//!
//! `clisim`: the binary built from the working tree runs as a child process in a simulated
//! environment (a scratch directory with generated files, injected file faults, truncated and
//! short-read input); the `ber` subcommand runs in-process under the dstsim scheduler (one
//! child per run, because `console::Term` owns stdout).

use crate::c16::{check_mackay_neal, own_girth};
use crate::common::*;
use crate::gf2::*;
use dstsim::{ClockProfile, RunResult, Strategy, Stream, keyed};
use ldpc_toolbox::codes::ccsds::{AR4JACode, AR4JAInfoSize, AR4JARate, C2Code};
use ldpc_toolbox::codes::dvbs2::Code;
use ldpc_toolbox::mackay_neal::{Config as MnConfig, FillPolicy};
use ldpc_toolbox::peg::Config as PegConfig;
use ldpc_toolbox::sparse::SparseMatrix;
use ldpc_toolbox::systematic::parity_to_systematic;
use serde_json::{Value, json};
use std::collections::BTreeSet;
use std::io::Write;
use std::os::unix::process::CommandExt;
use std::panic::{AssertUnwindSafe, catch_unwind};
use std::path::{Path, PathBuf};
use std::sync::Mutex;
use std::sync::atomic::{AtomicBool, AtomicU64, Ordering};

pub fn bin_path() -> PathBuf {
    let exe = std::env::current_exe().unwrap_or_else(|e| harness_error(&format!("current_exe: {}", e)));
    exe.parent().unwrap().join("ldpc-toolbox")
}

pub struct ProcOut {
    pub code: Option<i32>,
    pub stdout: Vec<u8>,
    pub stderr: String,
    pub timed_out: bool,
    pub status: String,
}

impl ProcOut {
    pub fn panicked(&self) -> bool {
        self.stderr.contains("panicked at") || self.code == Some(101)
    }
}

thread_local! {
    /// multiplier of every wall-clock limit on this thread (raised for the second opinion on a timeout)
    static TIMEOUT_SCALE: std::cell::Cell<u64> = const { std::cell::Cell::new(1) };
}

/// Run the ldpc-toolbox binary (or any program) under a wall-clock limit, RLIMIT_FSIZE and RLIMIT_AS.
pub fn run_prog(prog: &Path, args: &[String], cwd: &Path, timeout_s: u64) -> ProcOut {
    let timeout_s = timeout_s * TIMEOUT_SCALE.with(|c| c.get());
    let mut cmd = std::process::Command::new(prog);
    cmd.args(args)
        .current_dir(cwd)
        .stdin(std::process::Stdio::null())
        .stdout(std::process::Stdio::piped())
        .stderr(std::process::Stdio::piped())
        .env("RUST_BACKTRACE", "0");
    unsafe {
        cmd.pre_exec(|| {
            let fs = libc::rlimit { rlim_cur: 256 << 20, rlim_max: 256 << 20 };
            libc::setrlimit(libc::RLIMIT_FSIZE, &fs);
            let asl = libc::rlimit { rlim_cur: 8 << 30, rlim_max: 8 << 30 };
            libc::setrlimit(libc::RLIMIT_AS, &asl);
            Ok(())
        });
    }
    let mut child = cmd.spawn().unwrap_or_else(|e| harness_error(&format!("cannot run {:?}: {}", prog, e)));
    let mut so = child.stdout.take().unwrap();
    let mut se = child.stderr.take().unwrap();
    let t1 = std::thread::spawn(move || {
        let mut s = Vec::new();
        let _ = std::io::Read::read_to_end(&mut so, &mut s);
        s
    });
    let t2 = std::thread::spawn(move || {
        let mut s = Vec::new();
        let _ = std::io::Read::read_to_end(&mut se, &mut s);
        String::from_utf8_lossy(&s).into_owned()
    });
    let t0 = std::time::Instant::now();
    let mut timed_out = false;
    let status = loop {
        match child.try_wait() {
            Ok(Some(st)) => break st,
            Ok(None) => {
                if t0.elapsed().as_secs() >= timeout_s {
                    let _ = child.kill();
                    timed_out = true;
                    break child.wait().unwrap();
                }
                std::thread::sleep(std::time::Duration::from_millis(2));
            }
            Err(e) => harness_error(&format!("wait: {}", e)),
        }
    };
    ProcOut { code: status.code(), stdout: t1.join().unwrap_or_default(), stderr: t2.join().unwrap_or_default(), timed_out, status: format!("{}", status) }
}

fn scratch() -> PathBuf {
    static N: AtomicU64 = AtomicU64::new(0);
    let d = verif_dir().join("work").join(format!("cli-{}-{}", std::process::id(), N.fetch_add(1, Ordering::SeqCst)));
    std::fs::create_dir_all(&d).unwrap_or_else(|e| harness_error(&format!("scratch dir: {}", e)));
    d
}

// ---------------------------------------------------------------------------
// cases
// ---------------------------------------------------------------------------

#[derive(Clone, Debug)]
pub enum FileFault {
    Missing,
    Directory,
    NonUtf8,
    Truncated(usize),
    OutOfRange,
    Empty,
}

#[derive(Clone, Debug)]
pub enum CliCase {
    Dvbs2 { rate: String, short: bool, girth: bool },
    Ccsds { rate: String, block_size: u64, girth: bool },
    CcsdsC2,
    Peg { rows: usize, cols: usize, wc: usize, seed: u64, girth: bool },
    MackayNeal { conf: MnConfig, seed: u64, search: Option<u64> },
    Systematic { alist: String },
    Encode { alist: String, punct: Option<String>, input: Vec<u8>, fifo_chunks: Option<Vec<usize>> },
    /// encode with the output on a full device (every write fails with ENOSPC)
    EncodeFull { alist: String, input: Vec<u8> },
    /// encode in-process under the fault-injecting file layer: one fault at every operation index
    EncodeSim { alist: String, punct: Option<String>, input: Vec<u8>, seed: u64 },
    BadFile { sub: String, fault: FileFault, alist: String },
    BadArg { args: Vec<String> },
    Ber { alist: String, args: Vec<String>, workers: usize, strategy: String, clock: String, seeds: [u64; 3], expect_err: bool, fs_plan: crate::fsfault::FsPlan },
}

fn mn_json(c: &MnConfig) -> Value {
    json!({"nrows": c.nrows, "ncols": c.ncols, "wr": c.wr, "wc": c.wc, "backtrack_cols": c.backtrack_cols, "backtrack_trials": c.backtrack_trials,
           "min_girth": c.min_girth, "girth_trials": c.girth_trials, "uniform": c.fill_policy == FillPolicy::Uniform})
}

impl CliCase {
    pub fn to_json(&self) -> Value {
        match self {
            CliCase::Dvbs2 { rate, short, girth } => json!({"kind": "dvbs2", "rate": rate, "short": short, "girth": girth}),
            CliCase::Ccsds { rate, block_size, girth } => json!({"kind": "ccsds", "rate": rate, "block_size": block_size, "girth": girth}),
            CliCase::CcsdsC2 => json!({"kind": "ccsds-c2"}),
            CliCase::Peg { rows, cols, wc, seed, girth } => json!({"kind": "peg", "rows": rows, "cols": cols, "wc": wc, "seed": seed.to_string(), "girth": girth}),
            CliCase::MackayNeal { conf, seed, search } => json!({"kind": "mackay-neal", "conf": mn_json(conf), "seed": seed.to_string(), "search": search}),
            CliCase::Systematic { alist } => json!({"kind": "systematic", "alist": alist}),
            CliCase::Encode { alist, punct, input, fifo_chunks } => json!({"kind": "encode", "alist": alist, "puncturing": punct, "input": input, "fifo_chunks": fifo_chunks}),
            CliCase::EncodeFull { alist, input } => json!({"kind": "encode-full", "alist": alist, "input": input}),
            CliCase::EncodeSim { alist, punct, input, seed } => json!({"kind": "encode-simfs", "alist": alist, "puncturing": punct, "input": input, "seed": seed.to_string()}),
            CliCase::BadFile { sub, fault, alist } => json!({"kind": "bad-file", "sub": sub, "fault": format!("{:?}", fault), "alist": alist}),
            CliCase::BadArg { args } => json!({"kind": "bad-arg", "args": args}),
            CliCase::Ber { alist, args, workers, strategy, clock, seeds, expect_err, fs_plan } => json!({"kind": "ber", "alist": alist, "args": args, "workers": workers, "strategy": strategy, "clock": clock,
                "seeds": seeds.iter().map(|s| s.to_string()).collect::<Vec<_>>(), "expect_err": expect_err, "fs_plan": fs_plan.to_json()}),
        }
    }
    pub fn from_json(v: &Value) -> Option<CliCase> {
        let s = |k: &str| v[k].as_str().map(|x| x.to_string());
        Some(match v["kind"].as_str()? {
            "dvbs2" => CliCase::Dvbs2 { rate: s("rate")?, short: v["short"].as_bool()?, girth: v["girth"].as_bool()? },
            "ccsds" => CliCase::Ccsds { rate: s("rate")?, block_size: v["block_size"].as_u64()?, girth: v["girth"].as_bool()? },
            "ccsds-c2" => CliCase::CcsdsC2,
            "peg" => CliCase::Peg { rows: v["rows"].as_u64()? as usize, cols: v["cols"].as_u64()? as usize, wc: v["wc"].as_u64()? as usize, seed: s("seed")?.parse().ok()?, girth: v["girth"].as_bool()? },
            "mackay-neal" => {
                let c = &v["conf"];
                CliCase::MackayNeal {
                    conf: MnConfig {
                        nrows: c["nrows"].as_u64()? as usize,
                        ncols: c["ncols"].as_u64()? as usize,
                        wr: c["wr"].as_u64()? as usize,
                        wc: c["wc"].as_u64()? as usize,
                        backtrack_cols: c["backtrack_cols"].as_u64()? as usize,
                        backtrack_trials: c["backtrack_trials"].as_u64()? as usize,
                        min_girth: c["min_girth"].as_u64().map(|x| x as usize),
                        girth_trials: c["girth_trials"].as_u64()? as usize,
                        fill_policy: if c["uniform"].as_bool()? { FillPolicy::Uniform } else { FillPolicy::Random },
                    },
                    seed: s("seed")?.parse().ok()?,
                    search: v["search"].as_u64(),
                }
            }
            "systematic" => CliCase::Systematic { alist: s("alist")? },
            "encode" => CliCase::Encode {
                alist: s("alist")?,
                punct: s("puncturing"),
                input: v["input"].as_array()?.iter().map(|x| x.as_u64().unwrap_or(0) as u8).collect(),
                fifo_chunks: v["fifo_chunks"].as_array().map(|a| a.iter().map(|x| x.as_u64().unwrap_or(1) as usize).collect()),
            },
            "encode-full" => CliCase::EncodeFull { alist: s("alist")?, input: v["input"].as_array()?.iter().map(|x| x.as_u64().unwrap_or(0) as u8).collect() },
            "encode-simfs" => CliCase::EncodeSim {
                alist: s("alist")?,
                punct: s("puncturing"),
                input: v["input"].as_array()?.iter().map(|x| x.as_u64().unwrap_or(0) as u8).collect(),
                seed: s("seed")?.parse().ok()?,
            },
            "bad-file" => {
                let f = s("fault")?;
                let fault = if f == "Missing" {
                    FileFault::Missing
                } else if f == "Directory" {
                    FileFault::Directory
                } else if f == "NonUtf8" {
                    FileFault::NonUtf8
                } else if f == "OutOfRange" {
                    FileFault::OutOfRange
                } else if f == "Empty" {
                    FileFault::Empty
                } else if let Some(n) = f.strip_prefix("Truncated(").and_then(|x| x.strip_suffix(')')) {
                    FileFault::Truncated(n.parse().ok()?)
                } else {
                    return None;
                };
                CliCase::BadFile { sub: s("sub")?, fault, alist: s("alist")? }
            }
            "bad-arg" => CliCase::BadArg { args: v["args"].as_array()?.iter().filter_map(|x| x.as_str().map(|y| y.to_string())).collect() },
            "ber" => {
                let sd: Vec<u64> = v["seeds"].as_array()?.iter().filter_map(|x| x.as_str()?.parse().ok()).collect();
                CliCase::Ber {
                    alist: s("alist")?,
                    args: v["args"].as_array()?.iter().filter_map(|x| x.as_str().map(|y| y.to_string())).collect(),
                    workers: v["workers"].as_u64()? as usize,
                    strategy: s("strategy")?,
                    clock: s("clock")?,
                    seeds: [*sd.first()?, *sd.get(1)?, *sd.get(2)?],
                    expect_err: v["expect_err"].as_bool().unwrap_or(false),
                    fs_plan: crate::fsfault::FsPlan::from_json(&v["fs_plan"])?,
                }
            }
            _ => return None,
        })
    }
}

// the harness's own name -> code tables
pub fn dvbs2_table() -> Vec<(&'static str, bool, Code, usize, usize)> {
    // (rate, short, code, n, k)
    vec![
        ("1/4", false, Code::R1_4, 64800, 16200),
        ("1/3", false, Code::R1_3, 64800, 21600),
        ("2/5", false, Code::R2_5, 64800, 25920),
        ("1/2", false, Code::R1_2, 64800, 32400),
        ("3/5", false, Code::R3_5, 64800, 38880),
        ("2/3", false, Code::R2_3, 64800, 43200),
        ("3/4", false, Code::R3_4, 64800, 48600),
        ("4/5", false, Code::R4_5, 64800, 51840),
        ("5/6", false, Code::R5_6, 64800, 54000),
        ("8/9", false, Code::R8_9, 64800, 57600),
        ("9/10", false, Code::R9_10, 64800, 58320),
        ("1/4", true, Code::R1_4short, 16200, 3240),
        ("1/3", true, Code::R1_3short, 16200, 5400),
        ("2/5", true, Code::R2_5short, 16200, 6480),
        ("1/2", true, Code::R1_2short, 16200, 7200),
        ("3/5", true, Code::R3_5short, 16200, 9720),
        ("2/3", true, Code::R2_3short, 16200, 10800),
        ("3/4", true, Code::R3_4short, 16200, 11880),
        ("4/5", true, Code::R4_5short, 16200, 12600),
        ("5/6", true, Code::R5_6short, 16200, 13320),
        ("8/9", true, Code::R8_9short, 16200, 14400),
    ]
}

fn ccsds_code(rate: &str, k: u64) -> Option<(AR4JACode, usize)> {
    let (r, div) = match rate {
        "1/2" => (AR4JARate::R1_2, 2),
        "2/3" => (AR4JARate::R2_3, 4),
        "4/5" => (AR4JARate::R4_5, 8),
        _ => return None,
    };
    let s = match k {
        1024 => AR4JAInfoSize::K1024,
        4096 => AR4JAInfoSize::K4096,
        16384 => AR4JAInfoSize::K16384,
        _ => return None,
    };
    Some((AR4JACode::new(r, s), k as usize / div))
}

fn first_diff(a: &[u8], b: &[u8]) -> String {
    let p = a.iter().zip(b.iter()).position(|(x, y)| x != y).unwrap_or(a.len().min(b.len()));
    let line = a[..p.min(a.len())].iter().filter(|&&c| c == b'\n').count() + 1;
    format!("lengths {} vs {}, first difference at byte {} (line {})", a.len(), b.len(), p, line)
}

fn expect_error_exit(out: &ProcOut, what: &str) -> Option<Violation> {
    if out.timed_out {
        return Some(Violation::new("timeout", format!("{}: no exit within the wall-clock limit", what)));
    }
    if out.panicked() {
        return Some(Violation::new("panic-on-invalid", format!("{}: the tool panicked instead of reporting an error: {}", what, out.stderr.lines().next().unwrap_or(""))));
    }
    if out.code == Some(0) {
        return Some(Violation::new("exit-status", format!("{}: exit status 0", what)));
    }
    if out.code.is_none() {
        return Some(Violation::new("exit-status", format!("{}: killed by a signal ({})", what, out.status)));
    }
    if out.stderr.trim().is_empty() {
        return Some(Violation::new("exit-status", format!("{}: non-zero exit without a message on stderr", what)));
    }
    None
}

fn expect_ok_exit(out: &ProcOut, what: &str) -> Option<Violation> {
    if out.timed_out {
        return Some(Violation::new("timeout", format!("{}: no exit within the wall-clock limit", what)));
    }
    if out.panicked() {
        return Some(Violation::new("panic-on-valid", format!("{}: the tool panicked on valid arguments: {}", what, out.stderr.lines().next().unwrap_or(""))));
    }
    if out.code != Some(0) {
        return Some(Violation::new("exit-status", format!("{}: exit status {:?} on valid arguments; stderr: {}", what, out.code, out.stderr.lines().next().unwrap_or(""))));
    }
    None
}

fn sv(v: &[&str]) -> Vec<String> {
    v.iter().map(|s| s.to_string()).collect()
}

/// Own puncturing of a byte vector by a pattern string like "1,1,0".
fn own_puncture_bytes(cw: &[u8], pat: &[bool]) -> Vec<u8> {
    let b = cw.len() / pat.len();
    (0..cw.len()).filter(|&i| pat[i / b]).map(|i| cw[i]).collect()
}

pub fn eval(case: &CliCase, stats: &mut Counters) -> Option<Violation> {
    let bin = bin_path();
    let dir = scratch();
    let mut r = eval_in(case, stats, &bin, &dir);
    let _ = std::fs::remove_dir_all(&dir);
    if r.as_ref().is_some_and(|v| v.kind == "timeout" || v.detail.contains("wall-clock limit")) {
        // A wall-clock limit says "slow", which on a loaded machine is not "hangs". Second
        // opinion with every limit 15 times longer; only a case that still does not end is reported.
        stats.inc("wall-clock limit hit once; case re-evaluated with 15x limits");
        let dir = scratch();
        TIMEOUT_SCALE.with(|c| c.set(15));
        let mut s2 = Counters::default();
        r = eval_in(case, &mut s2, &bin, &dir);
        TIMEOUT_SCALE.with(|c| c.set(1));
        let _ = std::fs::remove_dir_all(&dir);
    }
    r
}

fn eval_in(case: &CliCase, stats: &mut Counters, bin: &Path, dir: &Path) -> Option<Violation> {
    match case {
        CliCase::Dvbs2 { rate, short, girth } => {
            let mut args = sv(&["dvbs2", "--rate", rate]);
            if *short {
                args.push("--short".into());
            }
            if *girth {
                args.push("--girth".into());
            }
            let out = run_prog(bin, &args, dir, 600);
            let entry = dvbs2_table().into_iter().find(|e| e.0 == rate && e.1 == *short);
            let what = format!("dvbs2 --rate {}{}", rate, if *short { " --short" } else { "" });
            match entry {
                None => {
                    stats.inc("invalid rate/frame combination rejected");
                    expect_error_exit(&out, &what)
                }
                Some((_, _, code, n, k)) => {
                    if let Some(v) = expect_ok_exit(&out, &what) {
                        return Some(v);
                    }
                    if *girth {
                        stats.inc("--girth run");
                        let s = String::from_utf8_lossy(&out.stdout);
                        return if s.trim() == "Code girth = 6" { None } else { Some(Violation::new("girth", format!("{} --girth printed {:?}, documented girth is 6", what, s.trim()))) };
                    }
                    let h = code.h();
                    if h.num_cols() != n || h.num_rows() != n - k {
                        // conformance of the library's matrix to the standard is C06, not a CLI
                        // statement: counted, never judged here
                        stats.inc("library dimensions differ from the standard's table");
                        eprintln!("note: Code::{:?} is {} x {}, the standard says {} x {} (C06 territory, not judged by C20)", code, h.num_rows(), h.num_cols(), n - k, n);
                    }
                    let want = h.alist();
                    stats.inc("code-generation output compared");
                    if out.stdout != want.as_bytes() {
                        return Some(Violation::new("output", format!("{}: stdout is not the alist of Code::{:?} ({})", what, code, first_diff(&out.stdout, want.as_bytes()))));
                    }
                    None
                }
            }
        }
        CliCase::Ccsds { rate, block_size, girth } => {
            let mut args = sv(&["ccsds", "--rate", rate, "--block-size", &block_size.to_string()]);
            if *girth {
                args.push("--girth".into());
            }
            let out = run_prog(bin, &args, dir, 600);
            let what = format!("ccsds --rate {} --block-size {}", rate, block_size);
            match ccsds_code(rate, *block_size) {
                None => {
                    stats.inc("invalid rate/frame combination rejected");
                    expect_error_exit(&out, &what)
                }
                Some((code, m)) => {
                    if let Some(v) = expect_ok_exit(&out, &what) {
                        return Some(v);
                    }
                    if *girth {
                        stats.inc("--girth run");
                        let s = String::from_utf8_lossy(&out.stdout);
                        return if s.trim() == "Code girth = 6" { None } else { Some(Violation::new("girth", format!("{} --girth printed {:?}, documented girth is 6", what, s.trim()))) };
                    }
                    let want = code.h().alist();
                    stats.inc("code-generation output compared");
                    if out.stdout != want.as_bytes() {
                        return Some(Violation::new("output", format!("{}: stdout is not the alist of the library's AR4JA code ({})", what, first_diff(&out.stdout, want.as_bytes()))));
                    }
                    let (rows, cols) = (3 * m, *block_size as usize + 3 * m);
                    if !want.starts_with(&format!("{} {}\n", cols, rows)) {
                        // conformance of the library's matrix to the Blue Book is C07, not a CLI statement
                        stats.inc("library dimensions differ from the standard's table");
                    }
                    None
                }
            }
        }
        CliCase::CcsdsC2 => {
            let out = run_prog(bin, &sv(&["ccsds-c2"]), dir, 600);
            if let Some(v) = expect_ok_exit(&out, "ccsds-c2") {
                return Some(v);
            }
            let want = C2Code::new().h().alist();
            stats.inc("code-generation output compared");
            if out.stdout != want.as_bytes() {
                return Some(Violation::new("output", format!("ccsds-c2: stdout is not the alist of C2Code ({})", first_diff(&out.stdout, want.as_bytes()))));
            }
            if !want.starts_with("8176 1022\n") {
                stats.inc("library dimensions differ from the standard's table");
            }
            None
        }
        CliCase::Peg { rows, cols, wc, seed, girth } => {
            let mut args = vec!["peg".to_string(), rows.to_string(), cols.to_string(), wc.to_string(), seed.to_string()];
            if *girth {
                args.push("--girth".into());
            }
            let out = run_prog(bin, &args, dir, 120);
            let what = format!("peg {} {} {} {}", rows, cols, wc, seed);
            let conf = PegConfig { nrows: *rows, ncols: *cols, wc: *wc };
            match conf.run(*seed) {
                Ok(h) => {
                    if let Some(v) = expect_ok_exit(&out, &what) {
                        return Some(v);
                    }
                    let want = format!("{}\n", h.alist());
                    stats.inc("peg output compared");
                    if out.stdout != want.as_bytes() {
                        return Some(Violation::new("output", format!("{}: stdout is not the alist of peg::Config::run ({})", what, first_diff(&out.stdout, want.as_bytes()))));
                    }
                    if *girth {
                        let g = own_girth(&BitMat::from_sparse(&h));
                        let want_line = match g {
                            Some(g) => format!("Code girth = {}", g),
                            None => "Code girth = infinity (there are no cycles)".to_string(),
                        };
                        stats.inc("--girth run");
                        if out.stderr.trim() != want_line {
                            return Some(Violation::new("girth", format!("{} --girth: stderr {:?}, the matrix has {}", what, out.stderr.trim(), want_line)));
                        }
                    }
                    None
                }
                Err(_) => expect_error_exit(&out, &what),
            }
        }
        CliCase::MackayNeal { conf, seed, search } => {
            let mut args = vec!["mackay-neal".to_string(), conf.nrows.to_string(), conf.ncols.to_string(), conf.wr.to_string(), conf.wc.to_string(), seed.to_string()];
            args.extend(["--backtrack-cols".to_string(), conf.backtrack_cols.to_string(), "--backtrack-trials".to_string(), conf.backtrack_trials.to_string(), "--girth-trials".to_string(), conf.girth_trials.to_string()]);
            if let Some(g) = conf.min_girth {
                args.extend(["--min-girth".to_string(), g.to_string()]);
            }
            if conf.fill_policy == FillPolicy::Uniform {
                args.push("--uniform".into());
            }
            if let Some(t) = search {
                args.extend(["--search".to_string(), "--seed-trials".to_string(), t.to_string()]);
            }
            let out = run_prog(bin, &args, dir, 120);
            let what = format!("mackay-neal {:?} seed {} search {:?}", conf, seed, search);
            match search {
                None => match conf.run(*seed) {
                    Ok(h) => {
                        if let Some(v) = expect_ok_exit(&out, &what) {
                            return Some(v);
                        }
                        let want = format!("{}\n", h.alist());
                        stats.inc("mackay-neal output compared");
                        if out.stdout != want.as_bytes() {
                            return Some(Violation::new("output", format!("{}: stdout is not the alist of Config::run ({})", what, first_diff(&out.stdout, want.as_bytes()))));
                        }
                        None
                    }
                    Err(_) => {
                        stats.inc("construction failure reported");
                        expect_error_exit(&out, &what)
                    }
                },
                Some(t) => {
                    let any_ok = (*seed..*seed + *t).any(|s| conf.run(s).is_ok());
                    if !any_ok {
                        stats.inc("search with no solution reported");
                        return expect_error_exit(&out, &what);
                    }
                    if let Some(v) = expect_ok_exit(&out, &what) {
                        return Some(v);
                    }
                    let s: Option<u64> = out.stderr.lines().find_map(|l| l.trim().strip_prefix("seed = ").and_then(|x| x.parse().ok()));
                    let Some(s) = s else {
                        return Some(Violation::new("output", format!("{}: no 'seed = N' line on stderr ({:?})", what, out.stderr)));
                    };
                    if s < *seed || s >= *seed + *t {
                        return Some(Violation::new("output", format!("{}: reported seed {} outside the requested range", what, s)));
                    }
                    stats.inc("mackay-neal --search output compared");
                    match conf.run(s) {
                        Ok(h) => {
                            let want = format!("{}\n", h.alist());
                            if out.stdout != want.as_bytes() {
                                return Some(Violation::new("output", format!("{}: the printed matrix is not what the reported seed {} generates ({})", what, s, first_diff(&out.stdout, want.as_bytes()))));
                            }
                            check_mackay_neal(conf, s, &h).map(|d| Violation::new("output", d))
                        }
                        Err(e) => Some(Violation::new("output", format!("{}: reported seed {} fails ({})", what, s, e))),
                    }
                }
            }
        }
        CliCase::Systematic { alist } => {
            let f = dir.join("in.alist");
            // the same matrix in either form of the format: padded, or without padding zeros
            // (where an all-zero column is a blank line: seeded change C20-r7-3 drops blank lines)
            let as_written = match (hash_str(alist) % 3, parse_untrusted(alist)) {
                (0, Ok(h0)) => {
                    stats.inc("input alist in the unpadded form");
                    crate::c08::own_unpadded(&BitMat::from_sparse(&h0))
                }
                _ => alist.clone(),
            };
            std::fs::write(&f, &as_written).ok()?;
            let out = run_prog(bin, &sv(&["systematic", "in.alist"]), dir, 120);
            let h = SparseMatrix::from_alist(alist).ok()?;
            let m = BitMat::from_sparse(&h);
            let what = format!("systematic on a {}x{} matrix of rank {}", m.r, m.c, m.rank());
            if m.r == 0 {
                stats.inc("skipped/systematic input with no rows");
                return None;
            }
            if m.r > m.c {
                // more checks than bits: no systematic form exists; an error, not a panic
                stats.inc("overdetermined input rejected");
                return expect_error_exit(&out, &what);
            }
            if m.rank() < m.r {
                stats.inc("rank-deficient input rejected");
                return expect_error_exit(&out, &what);
            }
            if let Some(v) = expect_ok_exit(&out, &what) {
                return Some(v);
            }
            // the library's own answer (may itself panic: then there is nothing to compare with,
            // and the tool has already been required to succeed above)
            let lib = dstsim::quiet(|| catch_unwind(AssertUnwindSafe(|| parity_to_systematic(&h))));
            stats.inc("systematic output compared");
            if m.r == m.c {
                stats.inc("square full-rank input");
            }
            match lib {
                Ok(Ok(hs)) => {
                    let want = format!("{}\n", hs.alist());
                    if out.stdout != want.as_bytes() {
                        return Some(Violation::new("output", format!("{}: stdout is not the alist of parity_to_systematic ({})", what, first_diff(&out.stdout, want.as_bytes()))));
                    }
                    None
                }
                _ => Some(Violation::new("output", format!("{}: the library call fails or panics although the tool succeeded", what))),
            }
        }
        CliCase::Encode { alist, punct, input, fifo_chunks } => {
            std::fs::write(dir.join("code.alist"), alist).ok()?;
            let h = SparseMatrix::from_alist(alist).ok()?;
            let m = BitMat::from_sparse(&h);
            let enc = RefEncoder::new(&m)?;
            let k = enc.k;
            if k == 0 {
                return None;
            }
            let pat_parsed: Option<Result<Vec<bool>, ()>> = punct.as_ref().map(|p| own_parse_pattern(p));
            let malformed = matches!(pat_parsed, Some(Err(())));
            let pat: Option<Vec<bool>> = pat_parsed.and_then(|r| r.ok());
            if pat.as_ref().is_some_and(|p| !p.iter().any(|&b| b)) {
                stats.inc("skipped/pattern keeps no block");
                return None;
            }
            let mut args = sv(&["encode", "code.alist", "in.bin", "out.bin"]);
            if let Some(p) = punct {
                args.extend(["--puncturing".to_string(), p.clone()]);
            }
            // the output path already holds an earlier run's bytes
            let _ = std::fs::write(dir.join("out.bin"), b"stale bytes of an earlier run");
            let inpath = dir.join("in.bin");
            let writer = match fifo_chunks {
                None => {
                    std::fs::write(&inpath, input).ok()?;
                    None
                }
                Some(chunks) => {
                    let c = std::ffi::CString::new(inpath.to_string_lossy().as_bytes()).ok()?;
                    if unsafe { libc::mkfifo(c.as_ptr(), 0o600) } != 0 {
                        harness_error("mkfifo failed");
                    }
                    let (input, chunks, p) = (input.clone(), chunks.clone(), inpath.clone());
                    stats.inc("faults_fired/input through a FIFO in short chunks");
                    Some(std::thread::spawn(move || {
                        // opening blocks until the tool opens the read side
                        if let Ok(mut f) = std::fs::OpenOptions::new().write(true).open(&p) {
                            let mut pos = 0;
                            let mut ci = 0;
                            while pos < input.len() {
                                let n = chunks[ci % chunks.len()].max(1).min(input.len() - pos);
                                if f.write_all(&input[pos..pos + n]).is_err() {
                                    break;
                                }
                                let _ = f.flush();
                                pos += n;
                                ci += 1;
                                std::thread::sleep(std::time::Duration::from_micros(300));
                            }
                        }
                    }))
                }
            };
            let out = run_prog(bin, &args, dir, 60);
            if let Some(w) = writer {
                // the tool has exited: open the read side ourselves (non-blocking) so that a writer
                // still blocked in open() or write() gets through, whatever the tool did
                // (and drain what it still writes: with a reader that never reads the feeder would
                // block for ever once the pipe buffer is full)
                let mut unblock = std::fs::OpenOptions::new().read(true).custom_flags_nonblock().open(&inpath);
                let mut sink = vec![0u8; 65536];
                let t0 = std::time::Instant::now();
                while !w.is_finished() {
                    let got = match unblock.as_mut() {
                        Ok(f) => std::io::Read::read(f, &mut sink).unwrap_or(0),
                        Err(_) => 0,
                    };
                    if got == 0 {
                        std::thread::sleep(std::time::Duration::from_millis(1));
                    }
                    if t0.elapsed().as_secs() > 600 {
                        harness_error("the FIFO feeder thread does not end");
                    }
                }
                let _ = w.join();
                drop(unblock);
            }
            let what = format!("encode (k = {}, n = {}, puncturing {:?}, {} input bytes{})", k, m.c, punct, input.len(), if fifo_chunks.is_some() { ", FIFO" } else { "" });
            if malformed {
                stats.inc("malformed puncturing pattern rejected");
                return expect_error_exit(&out, &what);
            }
            if let Some(p) = &pat {
                if m.c % p.len() != 0 {
                    // pattern does not fit: an error is expected as soon as a word is encoded
                    if input.len() >= k {
                        stats.inc("indivisible puncturing pattern rejected");
                        return expect_error_exit(&out, &what);
                    }
                    return expect_ok_exit(&out, &what);
                }
            }
            if let Some(v) = expect_ok_exit(&out, &what) {
                return Some(v);
            }
            let got = std::fs::read(dir.join("out.bin")).unwrap_or_default();
            let mut want = Vec::new();
            for w in input.chunks(k) {
                if w.len() < k {
                    stats.inc("faults_fired/EOF inside a word (producer crashed mid-record)");
                    break;
                }
                let cw = enc.encode(w);
                match &pat {
                    None => want.extend(cw),
                    Some(p) => want.extend(own_puncture_bytes(&cw, p)),
                }
            }
            stats.inc("encode output compared");
            if punct.is_some() {
                stats.inc("encode with puncturing compared");
            }
            if got != want {
                return Some(Violation::new(
                    "encode-output",
                    format!("{}: output file has {} bytes, the (punctured) codewords of the {} complete words are {} bytes; {}", what, got.len(), input.len() / k, want.len(), first_diff(&got, &want)),
                ));
            }
            None
        }
        CliCase::EncodeFull { alist, input } => {
            std::fs::write(dir.join("code.alist"), alist).ok()?;
            std::fs::write(dir.join("in.bin"), input).ok()?;
            if !Path::new("/dev/full").exists() {
                stats.inc("skipped/no /dev/full on this system");
                return None;
            }
            let h = SparseMatrix::from_alist(alist).ok()?;
            let k = h.num_cols() - h.num_rows();
            let out = run_prog(bin, &sv(&["encode", "code.alist", "in.bin", "/dev/full"]), dir, 60);
            let what = format!("encode of {} complete words to a full device", input.len() / k.max(1));
            if k == 0 || input.len() < k {
                return expect_ok_exit(&out, &what);
            }
            stats.inc("faults_fired/ENOSPC on every write of the output (/dev/full)");
            // codewords could not be written: success must not be claimed
            expect_error_exit(&out, &what)
        }
        CliCase::EncodeSim { alist, punct, input, seed } => crate::fsfault::eval_encode_sim(alist, punct, input, *seed, dir, stats),
        CliCase::BadFile { sub, fault, alist } => {
            let name = "bad.alist";
            let p = dir.join(name);
            let bytes: Option<Vec<u8>> = match fault {
                FileFault::Missing => None,
                FileFault::Directory => {
                    let _ = std::fs::create_dir_all(&p);
                    None
                }
                FileFault::NonUtf8 => {
                    let mut b = alist.as_bytes().to_vec();
                    let pos = b.len() / 2;
                    b[pos] = 0xFF;
                    Some(b)
                }
                FileFault::Truncated(n) => Some(alist.as_bytes()[..(*n).min(alist.len())].to_vec()),
                FileFault::Empty => Some(Vec::new()),
                FileFault::OutOfRange => {
                    let mut lines: Vec<String> = alist.split('\n').map(|s| s.to_string()).collect();
                    if lines.len() > 5 {
                        lines[4] = format!("{} 9999", lines[4]);
                    }
                    Some(lines.join("\n").into_bytes())
                }
            };
            if let Some(b) = &bytes {
                std::fs::write(&p, b).ok()?;
            }
            // is the file still acceptable to the parser? then this is not a fault case
            if let Some(b) = &bytes {
                if let Ok(t) = String::from_utf8(b.clone()) {
                    if parse_untrusted(&t).is_ok() {
                        stats.inc("skipped/damaged file still parses");
                        return None;
                    }
                }
            }
            std::fs::write(dir.join("good.alist"), alist).ok()?;
            std::fs::write(dir.join("in.bin"), [0u8, 1, 1, 0]).ok()?;
            let args = match sub.as_str() {
                "systematic" => sv(&["systematic", name]),
                "encode-alist" => sv(&["encode", name, "in.bin", "out.bin"]),
                "encode-input" => sv(&["encode", "good.alist", name, "out.bin"]),
                "ber" => sv(&["ber", "--min-ebn0", "0", "--max-ebn0", "0.5", "--step-ebn0", "1", "--frame-errors", "1", name]),
                _ => return None,
            };
            if sub == "encode-input" && !matches!(fault, FileFault::Missing | FileFault::Directory) {
                return None; // any bytes are a valid input stream
            }
            let out = run_prog(bin, &args, dir, 60);
            stats.inc(&format!("faults_fired/{} file for {}", match fault {
                FileFault::Missing => "missing",
                FileFault::Directory => "directory as",
                FileFault::NonUtf8 => "non-UTF-8",
                FileFault::Truncated(_) => "truncated",
                FileFault::OutOfRange => "out-of-range index in",
                FileFault::Empty => "empty",
            }, sub));
            expect_error_exit(&out, &format!("{} with a {:?} file", sub, fault))
        }
        CliCase::BadArg { args } => {
            let out = run_prog(bin, args, dir, 60);
            stats.inc("invalid argument rejected");
            expect_error_exit(&out, &format!("{:?}", args))
        }
        CliCase::Ber { alist, args, workers, strategy, clock, seeds, expect_err, fs_plan } => {
            let _ = fs_plan;
            std::fs::write(dir.join("code.alist"), alist).ok()?;
            let casefile = dir.join("case.json");
            std::fs::write(&casefile, case.to_json().to_string()).ok()?;
            let me = std::env::current_exe().ok()?;
            let mut out = run_prog(&me, &["child".into(), "cli-ber".into(), casefile.to_string_lossy().into_owned()], dir, 120);
            // A *directed* fault: "the write that completes the last result line fails" cannot be
            // drawn (the number of writes depends on the run), so a fault index of DIRECTED_LAST + d
            // means: run once with the file layer installed and no fault taking effect, count the
            // writes on that file, then run again with the fault at (count - 1 - d). (Seeded change
            // C13-r9-3: after a failed write the progress thread keeps receiving until `Finished`
            // and ignores a closed channel — if the failing write was the last one, `Finished` is
            // already consumed and the thread spins for ever.)
            if let Some(pos) = fs_plan.faults.iter().position(|f| f.index >= DIRECTED_LAST) {
                let sim0: Value = out.stderr.lines().find_map(|l| l.strip_prefix("SIMRESULT ")).and_then(|j| serde_json::from_str(j).ok()).unwrap_or(Value::Null);
                let n = sim0["fs_writes"][fs_plan.faults[pos].file.as_str()].as_u64().unwrap_or(0);
                let d = fs_plan.faults[pos].index - DIRECTED_LAST;
                if sim0["kind"].as_str() != Some("ok") || n == 0 || out.timed_out {
                    // the counting pass is an ordinary fault-free run: judge it as such
                    stats.inc("directed last-write fault: counting pass did not end normally (judged as a fault-free run)");
                } else {
                    let mut plan2 = fs_plan.clone();
                    plan2.faults[pos].index = n.saturating_sub(1 + d);
                    let case2 = CliCase::Ber { alist: alist.clone(), args: args.clone(), workers: *workers, strategy: strategy.clone(), clock: clock.clone(), seeds: *seeds, expect_err: *expect_err, fs_plan: plan2 };
                    std::fs::write(&casefile, case2.to_json().to_string()).ok()?;
                    stats.inc("faults_fired/directed: hard fault at one of the last writes of a result file");
                    out = run_prog(&me, &["child".into(), "cli-ber".into(), casefile.to_string_lossy().into_owned()], dir, 120);
                }
            }
            let _ = (workers, strategy, clock, seeds);
            if *expect_err {
                // block sizes that do not fit: the subcommand must end with an error, not hang or panic
                stats.inc("faults_fired/ber with a block size that does not fit the codeword");
                let sim: Value = out.stderr.lines().find_map(|l| l.strip_prefix("SIMRESULT ")).and_then(|j| serde_json::from_str(j).ok()).unwrap_or(Value::Null);
                if out.timed_out {
                    return Some(Violation::new("timeout", format!("ber {:?}: the simulated run did not finish within the wall-clock limit", args)));
                }
                if sim.is_null() {
                    return Some(Violation::new("ber-crash", format!("ber {:?}: child ended without a result ({})", args, out.status)));
                }
                return match sim["kind"].as_str() {
                    Some("err") => None,
                    Some(k) => Some(Violation::new(&format!("ber-{}", k), format!("ber {:?} with a block size that does not fit: expected an error return, got {}: {}", args, k, sim["detail"].as_str().unwrap_or("")))),
                    None => Some(Violation::new("ber-crash", "no kind".to_string())),
                };
            }
            check_ber_outputs(alist, args, dir, &out, stats)
        }
    }
}

/// fault indices from here on are resolved against the number of writes of a counting pass
pub const DIRECTED_LAST: u64 = 1 << 62;

trait NonBlock {
    fn custom_flags_nonblock(&mut self) -> &mut Self;
}
impl NonBlock for std::fs::OpenOptions {
    fn custom_flags_nonblock(&mut self) -> &mut Self {
        use std::os::unix::fs::OpenOptionsExt;
        self.custom_flags(libc::O_NONBLOCK)
    }
}

// ---------------------------------------------------------------------------
// ber in-process under the scheduler
// ---------------------------------------------------------------------------

/// Child: run `ldpc-toolbox ber ...` as the root task of a simulation (cwd = scratch dir).
pub fn child_cli_ber(casefile: &str) -> ! {
    use clap::Parser;
    use ldpc_toolbox::cli::{Args, Run};
    let v: Value = serde_json::from_str(&std::fs::read_to_string(casefile).unwrap_or_default()).unwrap_or(Value::Null);
    let Some(CliCase::Ber { args, workers, strategy, clock, seeds, fs_plan, .. }) = CliCase::from_json(&v) else {
        harness_error("bad cli-ber case");
    };
    // the fault-injecting file layer is installed only for cases that plan file faults, so that
    // the other cases keep exactly the scheduling points they had
    let fs = if fs_plan.is_empty() { None } else { Some(fs_plan.install()) };
    dstsim::simfs::set(fs.clone());
    let cfg = dstsim::Config {
        sched_seed: seeds[0],
        clock_seed: seeds[1],
        entropy_seed: seeds[2],
        strategy: Strategy::parse(&strategy).unwrap_or(Strategy::Uniform),
        clock: ClockProfile::parse(&clock).unwrap_or(ClockProfile::Coarse),
        num_cpus: workers,
        max_steps: 3_000_000,
        replay: None,
        stop_rule: true,
        stop_delay_max: 500,
        stop_bound: 300_000,
        par_tasks: 1,
        // debugging aid: VERIF_DUMP_EVENTS=N prints the last N events of the run
        keep_events: std::env::var("VERIF_DUMP_EVENTS").is_ok(),
    };
    let mut argv = vec!["ldpc-toolbox".to_string()];
    argv.extend(args);
    let argv_for_ref = argv.clone();
    let out = dstsim::run(cfg, move || match Args::try_parse_from(&argv) {
        Ok(a) => a.run().map_err(|e| format!("run: {}", e)),
        Err(e) => Err(format!("parse: {}", e)),
    });
    let (kind, detail) = match &out.result {
        RunResult::Done(Ok(())) => ("ok", String::new()),
        RunResult::Done(Err(e)) => ("err", e.clone()),
        RunResult::Deadlock(m) => ("deadlock", m.clone()),
        RunResult::StepBound(m) => ("step-bound", m.clone()),
        RunResult::RootPanicked(m) => ("root-panicked", m.clone()),
    };
    let panicked: Vec<String> = out.tasks.iter().filter_map(|t| if let dstsim::TaskEnd::Panicked(m) = &t.end { Some(format!("task {}: {}", t.id, m)) } else { None }).collect();
    if let Ok(n) = std::env::var("VERIF_DUMP_EVENTS") {
        let n: usize = n.parse().unwrap_or(100);
        for ev in out.events.iter().skip(out.events.len().saturating_sub(n)) {
            eprintln!("EVENT step {} task {} {:?}", ev.step, ev.task, ev.ev);
        }
    }
    if kind == "ok" && workers == 1 {
        // With one worker the frames the collector consumes are a prefix of that worker's
        // stream, whatever the schedule; the worker's random stream is keyed by its task id.
        // So the library, called with the parameters the arguments *mean*, must reproduce the
        // counts the tool wrote (a dummy task takes the place of the progress thread).
        // That argument needs the library's own result to be a function of (arguments, entropy)
        // alone. It is for the present design; a design that keeps its workers (and their random
        // streams) across Eb/N0 points and discards frames in flight at the end of a point is
        // schedule dependent from the second line on without violating anything. The reference
        // is therefore computed under three different schedules, and a line is compared only
        // if the three agree on it.
        let refs: Vec<_> = (0..3u64).filter_map(|variant| reference_ber_rows(&argv_for_ref, seeds, &strategy, &clock, variant)).collect();
        if refs.len() == 3 {
            let mut rows = refs[0].clone();
            // one fresh random stream per Eb/N0 point (the present design: every point spawns its
            // worker anew, and the worker asks for its generator once)? If not — a worker, and
            // its stream, kept across points — the frames of a later point depend on how many
            // frames of the earlier ones were still in flight when they ended: only the first
            // line is then a function of (arguments, entropy).
            let points = rows.first().map_or(0, |v| v.len());
            let stream_per_point = out.rng_calls as usize == points;
            for (vi, view) in rows.iter_mut().enumerate() {
                for (li, line) in view.iter_mut().enumerate() {
                    if refs.iter().any(|r| r.get(vi).and_then(|v| v.get(li)) != Some(&*line)) || (li > 0 && !stream_per_point) {
                        line.clear();
                    }
                }
            }
            eprintln!("REFSTATS {}", serde_json::to_string(&rows).unwrap());
        }
    }
    eprintln!(
        "SIMRESULT {}",
        json!({"kind": kind, "detail": detail, "steps": out.steps, "leaked": out.leaked, "hash": format!("{:x}", out.event_hash), "tasks": out.tasks.len(), "panicked": panicked, "sim_time_ns": out.clock_ns,
               "fs_fired": fs.as_ref().map(|f| f.fired()), "fs_hard": fs.as_ref().is_some_and(|f| f.hard_fault_fired()),
               "fs_writes": fs.as_ref().map(|f| json!({"out.txt": f.count("out.txt", dstsim::simfs::OpKind::Write), "out_ldpc.txt": f.count("out_ldpc.txt", dstsim::simfs::OpKind::Write)}))})
    );
    std::process::exit(0)
}

/// Run BerTestBuilder in-process with the meaning of the arguments; rows of
/// [frames, bit errs, frame errs, false decodes, BER, FER, avg iter, avg corr] as printed,
/// first in the default view (outer code if configured) then in the LDPC-only view.
fn reference_ber_rows(argv: &[String], seeds: [u64; 3], strategy: &str, clock: &str, variant: u64) -> Option<Vec<Vec<Vec<String>>>> {
    use ldpc_toolbox::decoder::factory::DecoderImplementation;
    use ldpc_toolbox::simulation::factory::{BerTestBuilder, Modulation};
    let h = SparseMatrix::from_alist(&std::fs::read_to_string("code.alist").ok()?).ok()?;
    let k = h.num_cols() - h.num_rows();
    let min: f64 = arg_val(argv, "--min-ebn0")?.parse().ok()?;
    let max: f64 = arg_val(argv, "--max-ebn0")?.parse().ok()?;
    let step: f64 = arg_val(argv, "--step-ebn0")?.parse().ok()?;
    let np = ((max - min) / step).floor() as usize + 1;
    let ebn0s: Vec<f32> = (0..np).map(|i| (min + i as f64 * step) as f32).collect();
    let dec: DecoderImplementation = arg_val(argv, "--decoder").unwrap_or("Phif64").parse().ok()?;
    let modulation = match arg_val(argv, "--modulation") {
        Some("PSK8") => Modulation::Psk8,
        _ => Modulation::Bpsk,
    };
    let pat: Option<Vec<bool>> = arg_val(argv, "--puncturing").and_then(|p| own_parse_pattern(p).ok());
    let il: Option<isize> = arg_val(argv, "--interleaving").and_then(|s| s.parse().ok());
    let target: u64 = arg_val(argv, "--frame-errors").unwrap_or("100").parse().ok()?;
    let max_iter: usize = arg_val(argv, "--max-iter").unwrap_or("100").parse().ok()?;
    let bch: u64 = arg_val(argv, "--bch-max-errors").unwrap_or("0").parse().ok()?;
    let cfg = dstsim::Config {
        sched_seed: (seeds[0] ^ 0x5555).wrapping_add(variant.wrapping_mul(0x9E37_79B9_7F4A_7C15)),
        clock_seed: seeds[1],
        entropy_seed: seeds[2],
        strategy: match variant {
            0 => Strategy::parse(strategy).unwrap_or(Strategy::Uniform),
            1 => Strategy::Uniform,
            _ => Strategy::Sticky(900),
        },
        clock: ClockProfile::parse(clock).unwrap_or(ClockProfile::Coarse),
        num_cpus: 1,
        max_steps: 3_000_000,
        replay: None,
        stop_rule: true,
        stop_delay_max: 500,
        stop_bound: 300_000,
        par_tasks: 1,
        keep_events: false,
    };
    let out = dstsim::run(cfg, move || {
        // stands where the tool's progress thread stands in the task numbering
        let d = ldpc_toolbox::verif_seam::std::thread::spawn(|| ());
        let _ = d.join();
        let test = BerTestBuilder {
            h,
            decoder_implementation: dec,
            modulation,
            puncturing_pattern: pat.as_deref(),
            interleaving_columns: il,
            max_frame_errors: target,
            max_iterations: max_iter,
            ebn0s_db: &ebn0s,
            reporter: None,
            bch_max_errors: bch,
        }
        .build()
        .map_err(|e| e.to_string())?;
        test.run().map_err(|e| e.to_string())
    });
    let RunResult::Done(Ok(stats)) = out.result else { return None };
    let row = |frames: u64, be: u64, fe: u64, fd: u64, ti: u64, ci: u64| -> Vec<String> {
        vec![
            frames.to_string(),
            be.to_string(),
            fe.to_string(),
            fd.to_string(),
            format!("{:7.2e}", be as f64 / (k as f64 * frames as f64)).trim().to_string(),
            format!("{:7.2e}", fe as f64 / frames as f64).trim().to_string(),
            format!("{:8.1}", ti as f64 / frames as f64).trim().to_string(),
            format!("{:8.1}", ci as f64 / (frames - fe) as f64).trim().to_string(),
        ]
    };
    let ldpc_view: Vec<Vec<String>> = stats.iter().map(|s| row(s.num_frames, s.ldpc.bit_errors, s.ldpc.frame_errors, s.false_decodes, s.total_iterations, s.ldpc.correct_iterations)).collect();
    let default_view: Vec<Vec<String>> = stats
        .iter()
        .map(|s| match &s.bch {
            Some(b) => row(s.num_frames, b.bit_errors, b.frame_errors, s.false_decodes, s.total_iterations, b.correct_iterations),
            None => row(s.num_frames, s.ldpc.bit_errors, s.ldpc.frame_errors, s.false_decodes, s.total_iterations, s.ldpc.correct_iterations),
        })
        .collect();
    Some(vec![default_view, ldpc_view])
}

fn arg_val<'a>(args: &'a [String], name: &str) -> Option<&'a str> {
    let eq = format!("{}=", name);
    if let Some(a) = args.iter().find(|a| a.starts_with(&eq)) {
        return Some(&a[eq.len()..]);
    }
    args.iter().position(|a| a == name).and_then(|i| args.get(i + 1)).map(|s| s.as_str())
}

fn parse_result_lines(text: &str) -> Vec<Vec<String>> {
    let mut rows = Vec::new();
    let mut in_table = false;
    for l in text.lines() {
        if l.starts_with("--------|") {
            in_table = true;
            continue;
        }
        if in_table && l.contains('|') {
            rows.push(l.split('|').map(|t| t.trim().to_string()).collect());
        }
    }
    rows
}

fn check_ber_outputs(alist: &str, args: &[String], dir: &Path, out: &ProcOut, stats: &mut Counters) -> Option<Violation> {
    if out.timed_out {
        return Some(Violation::new("timeout", "ber: the simulated run did not finish within the wall-clock limit".to_string()));
    }
    let sim: Value = out.stderr.lines().find_map(|l| l.strip_prefix("SIMRESULT ")).and_then(|j| serde_json::from_str(j).ok()).unwrap_or(Value::Null);
    if sim.is_null() {
        return Some(Violation::new("ber-crash", format!("ber child died without a result ({}); stderr: {}", out.status, out.stderr.lines().last().unwrap_or(""))));
    }
    stats.add("ber steps", sim["steps"].as_u64().unwrap_or(0));
    stats.add("ber_sim_time_ms", sim["sim_time_ns"].as_u64().unwrap_or(0) / 1_000_000);
    let kind = sim["kind"].as_str().unwrap_or("");
    if let Some(m) = sim["fs_fired"].as_object() {
        for (kname, n) in m {
            stats.add(&format!("faults_fired/simfs (ber): {}", kname), n.as_u64().unwrap_or(0));
        }
    }
    if sim["fs_hard"].as_bool() == Some(true) {
        // A read of the alist or a write of a result file failed for good (EIO / ENOSPC at a
        // planned operation index). The run must end (no deadlock, no step bound) and must not
        // claim success. Whether the failure surfaces as the returned error or as a panic of the
        // main thread (its report channel lost its receiver) is not judged: the property's
        // "message rather than a panic" clause is about invalid arguments and files.
        stats.inc("ber run hit by a hard file fault");
        return match kind {
            "err" => {
                stats.inc("hard file fault in ber surfaced as the returned error");
                None
            }
            "root-panicked" => {
                stats.inc("hard file fault in ber surfaced as a panic of the main thread (not judged)");
                None
            }
            "ok" => Some(Violation::new("ber-fault-swallowed", format!("ber {:?}: a file operation failed ({}) but the subcommand reported success", args, sim["fs_fired"]))),
            k => Some(Violation::new(&format!("ber-{}", k), format!("ber {:?} after a file fault ({}): {}: {}", args, sim["fs_fired"], k, sim["detail"].as_str().unwrap_or("")))),
        };
    }
    if kind != "ok" {
        return Some(Violation::new(&format!("ber-{}", kind), format!("ber {:?}: {}: {}", args, kind, sim["detail"].as_str().unwrap_or(""))));
    }
    if sim["leaked"].as_array().is_some_and(|a| !a.is_empty()) {
        return Some(Violation::new("ber-leak", format!("ber returned while tasks {:?} were alive", sim["leaked"])));
    }
    if sim["panicked"].as_array().is_some_and(|a| !a.is_empty()) {
        return Some(Violation::new("ber-panic", format!("a thread panicked: {:?}", sim["panicked"])));
    }
    let h = SparseMatrix::from_alist(alist).ok()?;
    let n_cw = h.num_cols();
    let k = n_cw - h.num_rows();
    let min: f64 = arg_val(args, "--min-ebn0")?.parse().ok()?;
    let max: f64 = arg_val(args, "--max-ebn0")?.parse().ok()?;
    let step: f64 = arg_val(args, "--step-ebn0")?.parse().ok()?;
    let target: u64 = arg_val(args, "--frame-errors")?.parse().ok()?;
    let bch: u64 = arg_val(args, "--bch-max-errors").and_then(|s| s.parse().ok()).unwrap_or(0);
    let want_points = ((max - min) / step).floor() as usize + 1;
    let pat: Option<Vec<bool>> = arg_val(args, "--puncturing").and_then(|p| own_parse_pattern(p).ok());
    let n_tx = match &pat {
        None => n_cw,
        Some(p) => n_cw / p.len() * p.iter().filter(|&&b| b).count(),
    };
    let refrows: Option<Vec<Vec<Vec<String>>>> = out.stderr.lines().find_map(|l| l.strip_prefix("REFSTATS ")).and_then(|j| serde_json::from_str(j).ok());
    // with an outer code and both files: the same frames are behind line i of either file, and
    // the frames the outer code corrects (at most `bch` bit errors each, at least one) are exactly
    // those that are LDPC frame errors but not outer-code frame errors (seeded change C20-r7-1
    // counts their bit errors in the outer-code column too)
    if bch > 0 && arg_val(args, "--output-file-ldpc").is_some() {
        if let (Ok(a), Ok(b)) = (std::fs::read_to_string(dir.join("out.txt")), std::fs::read_to_string(dir.join("out_ldpc.txt"))) {
            for (i, (ra, rb)) in parse_result_lines(&a).iter().zip(parse_result_lines(&b).iter()).enumerate() {
                let num = |r: &Vec<String>, c: usize| r.get(c).and_then(|x| x.parse::<u64>().ok());
                if let (Some(fa), Some(fb), Some(bea), Some(beb), Some(fea), Some(feb)) = (num(ra, 1), num(rb, 1), num(ra, 2), num(rb, 2), num(ra, 3), num(rb, 3)) {
                    let corrected = feb.saturating_sub(fea);
                    let diff = beb.saturating_sub(bea);
                    if fa != fb || fea > feb || bea > beb || diff < corrected || diff > corrected * bch {
                        return Some(Violation::new(
                            "ber-output",
                            format!("line {}: the two result files disagree: LDPC+BCH (frames {}, bit errors {}, frame errors {}) vs LDPC only (frames {}, bit errors {}, frame errors {}) with an outer code correcting up to {} bit errors: the {} corrected frames must account for between {} and {} bit errors, not {}", i, fa, bea, fea, fb, beb, feb, bch, corrected, corrected, corrected * bch, diff),
                        ));
                    }
                    stats.inc("ber: outer-code and LDPC-only lines cross-checked");
                }
            }
        }
    }
    let mut files = Vec::new();
    if arg_val(args, "--output-file").is_some() {
        files.push(("out.txt", false));
    }
    if bch > 0 && arg_val(args, "--output-file-ldpc").is_some() {
        files.push(("out_ldpc.txt", true));
    }
    for (fname, ldpc_only) in files {
        let text = match std::fs::read_to_string(dir.join(fname)) {
            Ok(t) => t,
            Err(e) => return Some(Violation::new("ber-output", format!("result file {} unreadable: {}", fname, e))),
        };
        // header details
        for (label, want) in [
            (" - Information bits (k): ", k.to_string()),
            (" - Codeword size (N_cw): ", n_cw.to_string()),
            (" - Frame size (N): ", n_tx.to_string()),
            (" - Code rate: ", format!("{:.3}", k as f64 / n_tx as f64)),
            (" - Number of frame errors: ", target.to_string()),
        ] {
            match text.lines().find_map(|l| l.strip_prefix(label)) {
                Some(v) if v.trim() == want => {}
                other => return Some(Violation::new("ber-output", format!("{}: header line {:?} is {:?}, expected {}", fname, label, other, want))),
            }
        }
        let rows = parse_result_lines(&text);
        stats.inc("ber result file checked");
        if rows.len() != want_points {
            return Some(Violation::new("ber-output", format!("{}: {} result lines for {} requested Eb/N0 values (min {}, max {}, step {})", fname, rows.len(), want_points, min, max, step)));
        }
        for (i, r) in rows.iter().enumerate() {
            if r.len() != 11 {
                return Some(Violation::new("ber-output", format!("{}: line {} has {} columns", fname, i, r.len())));
            }
            let want_ebn0 = format!("{:.2}", (min + i as f64 * step) as f32);
            if r[0] != want_ebn0 {
                return Some(Violation::new("ber-output", format!("{}: line {} is for Eb/N0 {} instead of {}", fname, i, r[0], want_ebn0)));
            }
            let frames: u64 = r[1].parse().ok()?;
            let bit_errs: u64 = r[2].parse().ok()?;
            let frame_errs: u64 = r[3].parse().ok()?;
            let false_dec: u64 = r[4].parse().ok()?;
            if ldpc_only {
                if frame_errs < target {
                    return Some(Violation::new("ber-output", format!("{}: line {}: {} LDPC frame errors, fewer than the {} outer-code frame errors collected", fname, i, frame_errs, target)));
                }
            } else if frame_errs != target {
                return Some(Violation::new("ber-output", format!("{}: line {}: {} frame errors collected, requested {}", fname, i, frame_errs, target)));
            }
            if frame_errs > frames || false_dec > frames || bit_errs < frame_errs * (if !ldpc_only && bch > 0 { bch + 1 } else { 1 }) || bit_errs > frames * k as u64 {
                return Some(Violation::new("ber-output", format!("{}: line {}: inconsistent counts frames={} bit errors={} frame errors={} false decodes={}", fname, i, frames, bit_errs, frame_errs, false_dec)));
            }
            let want_ber = format!("{:7.2e}", bit_errs as f64 / (k as f64 * frames as f64));
            let want_fer = format!("{:7.2e}", frame_errs as f64 / frames as f64);
            if r[5] != want_ber.trim() {
                return Some(Violation::new("ber-output", format!("{}: line {}: BER {} but {} bit errors / ({} x {} frames) = {}", fname, i, r[5], bit_errs, k, frames, want_ber.trim())));
            }
            if r[6] != want_fer.trim() {
                return Some(Violation::new("ber-output", format!("{}: line {}: FER {} but {} / {} = {}", fname, i, r[6], frame_errs, frames, want_fer.trim())));
            }
            if let Some(rr) = &refrows {
                let view = &rr[usize::from(ldpc_only)];
                match view.get(i) {
                    Some(want) if want.is_empty() => stats.inc("ber line not compared: the library's own result for it depends on the schedule"),
                    Some(want) if want[..] == r[1..9] => stats.inc("ber line compared with the library run on the same random streams"),
                    other => {
                        return Some(Violation::new(
                            "ber-mapping",
                            format!("{}: line {}: the tool wrote {:?} but BerTestBuilder called with what the arguments mean ({:?}) gives {:?} on the same random streams (single worker)", fname, i, &r[1..9], args, other),
                        ));
                    }
                }
            }
        }
    }
    None
}

// ---------------------------------------------------------------------------
// generation
// ---------------------------------------------------------------------------

fn gen_sampled(seed: u64, i: u64) -> CliCase {
    let mut g = Stream::new(keyed(seed, &[i]), "c20-case");
    match i % 8 {
        0 => CliCase::Peg { rows: 1 + g.below(12) as usize, cols: 1 + g.below(20) as usize, wc: 1 + g.below(4) as usize, seed: if g.chance(1, 2) { g.below(100) } else { g.next() }, girth: g.chance(1, 3) },
        1 => {
            // several candidates are drawn and the one whose result depends on the most
            // arguments is kept, so that a mis-mapped argument cannot hide behind a
            // configuration in which it does not matter
            let mut best: Option<(usize, MnConfig, u64)> = None;
            for _ in 0..10 {
                let nrows = 2 + g.below(11) as usize;
                let ncols = 2 + g.below(20) as usize;
                let wc = 1 + g.below(3.min(nrows as u64)) as usize;
                let need = (ncols * wc).div_ceil(nrows);
                let conf = MnConfig {
                    nrows,
                    ncols,
                    wr: *g.pick(&[need.saturating_sub(1).max(1), need, need, need, need + 1, need + 3]),
                    wc,
                    backtrack_cols: *g.pick(&[0usize, 1, 2, 3, 7, 40]),
                    backtrack_trials: *g.pick(&[0usize, 1, 2, 5, 11, 30]),
                    min_girth: *g.pick(&[None, None, Some(4), Some(5), Some(6), Some(7)]),
                    girth_trials: *g.pick(&[0usize, 2, 10, 25]),
                    fill_policy: if g.chance(1, 2) { FillPolicy::Uniform } else { FillPolicy::Random },
                };
                let seed = g.below(10_000);
                let score = mn_sensitivity(&conf, seed);
                if best.as_ref().is_none_or(|b| score > b.0) {
                    best = Some((score, conf, seed));
                }
            }
            let (_, conf, seed) = best.unwrap();
            let search = if g.chance(1, 2) { Some(*g.pick(&[1u64, 4, 16, 64])) } else { None };
            CliCase::MackayNeal { conf, seed, search }
        }
        2 => {
            // systematic: full rank incl. square and late-pivot, and rank-deficient inputs
            let r = 1 + g.below(6) as usize;
            let c = match g.below(4) {
                0 => r,
                _ => r + g.below(7) as usize,
            };
            let mut m = BitMat::zeros(r, c);
            let shape = g.below(6);
            if shape == 4 {
                // already in the shape the DVB-S2 matrices have (dual-diagonal last columns): the
                // library still takes its pivots from the left, and the tool must print that
                // (seeded change C20-r5-3 prints such inputs unchanged)
                let kk = 1 + g.below(6) as usize;
                return CliCase::Systematic { alist: random_code(&mut g, kk, r, Tail::Staircase, 1).to_alist() };
            }
            if shape == 5 {
                // more rows than columns
                let mut t = BitMat::zeros(c + 1 + g.below(3) as usize, c.max(1));
                for i in 0..t.r {
                    for j in 0..t.c {
                        t.a[i][j] = g.below(2) as u8;
                    }
                }
                t.a[0][0] = 1;
                return CliCase::Systematic { alist: t.to_alist() };
            }
            match shape {
                0 => {
                    // late pivots: free (zero or duplicate) columns first, an invertible block last
                    let inv = random_invertible(&mut g, r);
                    for i in 0..r {
                        for j in 0..r {
                            m.a[i][c - r + j] = inv.a[i][j];
                        }
                    }
                    for j in 0..c - r {
                        if g.chance(1, 2) {
                            let src = c - r + g.below(r as u64) as usize;
                            for i in 0..r {
                                m.a[i][j] = m.a[i][src];
                            }
                        }
                    }
                }
                1 => {
                    // rank deficient
                    for i in 0..r {
                        for j in 0..c {
                            m.a[i][j] = g.below(2) as u8;
                        }
                    }
                    if r > 1 {
                        m.a[r - 1] = m.a[0].clone();
                    } else {
                        m.a[0] = vec![0; c];
                    }
                }
                _ => {
                    for i in 0..r {
                        for j in 0..c {
                            m.a[i][j] = g.below(2) as u8;
                        }
                    }
                }
            }
            if c > r && g.chance(1, 3) {
                let z = g.below(c as u64) as usize;
                for i in 0..r {
                    m.a[i][z] = 0;
                }
            }
            CliCase::Systematic { alist: m.to_alist() }
        }
        3 | 4 => {
            let mut k = 1 + g.below(8) as usize;
            let mut r = 1 + g.below(6) as usize;
            // one case in three: the codeword length is a multiple of a drawn pattern length
            // 2..=12 (lengths 7, 9, 11 with n = 14, 35, 63, ... are where a size computed through a
            // floating-point rate comes out one short, seeded change C20-r4-2)
            if g.chance(1, 3) {
                let p = 2 + g.below(11) as usize;
                let n = p * (1 + g.below(6) as usize);
                if n >= 3 {
                    r = 1 + g.below((n as u64 - 1).min(10)) as usize;
                    k = n - r;
                }
            }
            let tail = match g.below(5) {
                0 | 1 => Tail::Staircase,
                2 => Tail::GappedStaircase,
                _ => Tail::Invertible,
            };
            let m = random_code(&mut g, k, r, tail, 1);
            let n = k + r;
            let punct = if g.chance(1, 10) {
                Some(g.pick(&["", "1,0,", ",", "1,,0", " 1,0", "1,2", "a", "1;0", "10", "1,0,1,", "1, 0", "01", ",1"]).to_string())
            } else if g.chance(1, 2) {
                let ds: Vec<usize> = (2..=n).filter(|d| n % d == 0).collect();
                if ds.is_empty() || g.chance(1, 10) {
                    if g.chance(1, 2) { Some("1,1,1,1,1,1,1,0".to_string()) } else { None }
                } else {
                    let p = *g.pick(&ds);
                    let mut v: Vec<bool> = (0..p).map(|_| g.chance(2, 3)).collect();
                    if !v.iter().any(|&b| b) {
                        v[0] = true;
                    }
                    Some(v.iter().map(|&b| if b { "1" } else { "0" }).collect::<Vec<_>>().join(","))
                }
            } else {
                None
            };
            // mostly a few words; sometimes a stream longer than any I/O buffer (8 KiB, 64 KiB)
            let len = match g.below(12) {
                0 => 8000 + g.below(9000) as usize,
                1 => 65_000 + g.below(3000) as usize,
                _ => g.below(3 * k as u64 + 3) as usize,
            };
            let input: Vec<u8> = (0..len).map(|_| g.below(2) as u8).collect();
            if g.chance(1, 12) {
                return CliCase::EncodeFull { alist: m.to_alist(), input };
            }
            if g.chance(1, 3) {
                // in-process under the fault-injecting file layer; only valid patterns
                let ok_pat = match &punct {
                    None => true,
                    Some(p) => own_parse_pattern(p).is_ok_and(|v| n % v.len() == 0 && v.iter().any(|&b| b)),
                };
                if ok_pat {
                    let input = if input.len() > 20_000 { input[..20_000 - (g.below(7) as usize)].to_vec() } else { input };
                    return CliCase::EncodeSim { alist: m.to_alist(), punct, input, seed: g.next() };
                }
            }
            // (for long inputs the chunks are scaled so that the feeder needs at most ~2000 writes;
            // tiny chunks on long inputs are covered in-process by the simfs cases)
            let unit = (input.len() / 2000).max(1);
            let fifo_chunks = if g.chance(1, 3) { Some((0..4).map(|_| unit * (1 + g.below(k as u64 + 2) as usize) + if unit > 1 { g.below(k as u64 + 1) as usize } else { 0 }).collect()) } else { None };
            CliCase::Encode { alist: m.to_alist(), punct, input, fifo_chunks }
        }
        5 => {
            let (kk, rr) = (1 + g.below(6) as usize, 1 + g.below(5) as usize);
            let m = random_code(&mut g, kk, rr, Tail::Invertible, 2);
            let alist = m.to_alist();
            let sub = g.pick(&["systematic", "encode-alist", "encode-input", "ber"]).to_string();
            let fault = match g.below(6) {
                0 => FileFault::Missing,
                1 => FileFault::Directory,
                2 => FileFault::NonUtf8,
                3 => FileFault::Truncated(g.below(alist.len() as u64) as usize),
                4 => FileFault::Empty,
                _ => FileFault::OutOfRange,
            };
            CliCase::BadFile { sub, fault, alist }
        }
        6 => {
            let choices: Vec<Vec<&str>> = vec![
                vec!["dvbs2", "--rate", "7/8"],
                vec!["dvbs2", "--rate", "9/10", "--short"],
                vec!["dvbs2", "--rate", ""],
                vec!["dvbs2"],
                vec!["ccsds", "--rate", "3/4", "--block-size", "1024"],
                vec!["ccsds", "--rate", "1/2", "--block-size", "2048"],
                vec!["ccsds", "--rate", "1/2", "--block-size", "x"],
                vec!["peg", "4", "8"],
                vec!["peg", "-1", "8", "2", "0"],
                vec!["mackay-neal", "4", "8", "1", "2", "0"],
                vec!["encode", "code.alist", "in.bin", "out.bin", "--puncturing", "1,2"],
                vec!["ber", "--min-ebn0", "0", "--max-ebn0", "1", "--step-ebn0", "1", "--decoder", "Phif16", "x.alist"],
                vec!["ber", "--min-ebn0", "0", "--max-ebn0", "1", "--step-ebn0", "1", "--modulation", "QPSK", "x.alist"],
                vec!["frobnicate"],
                vec![],
            ];
            CliCase::BadArg { args: g.pick(&choices).iter().map(|s| s.to_string()).collect() }
        }
        _ => gen_ber(&mut g),
    }
}

/// Number of single-argument perturbations (swaps and shifts of the numeric options) that
/// change what `run(seed)` returns.
fn mn_sensitivity(c: &MnConfig, seed: u64) -> usize {
    let base = c.run(seed).map_err(|e| e.to_string());
    let mut variants: Vec<(MnConfig, u64)> = Vec::new();
    variants.push((MnConfig { backtrack_cols: c.backtrack_trials, backtrack_trials: c.backtrack_cols, ..c.clone() }, seed));
    variants.push((MnConfig { backtrack_trials: c.backtrack_cols, ..c.clone() }, seed));
    variants.push((MnConfig { backtrack_cols: c.backtrack_trials, ..c.clone() }, seed));
    variants.push((MnConfig { girth_trials: c.backtrack_trials, backtrack_trials: c.girth_trials, ..c.clone() }, seed));
    variants.push((MnConfig { girth_trials: 0, ..c.clone() }, seed));
    variants.push((MnConfig { backtrack_trials: 0, ..c.clone() }, seed));
    variants.push((MnConfig { backtrack_cols: 0, ..c.clone() }, seed));
    variants.push((MnConfig { min_girth: None, ..c.clone() }, seed));
    variants.push((MnConfig { fill_policy: if c.fill_policy == FillPolicy::Uniform { FillPolicy::Random } else { FillPolicy::Uniform }, ..c.clone() }, seed));
    variants.push((MnConfig { wr: c.wr + 1, ..c.clone() }, seed));
    variants.push((c.clone(), seed + 1));
    variants.iter().filter(|(v, s)| v.run(*s).map_err(|e| e.to_string()) != base).count()
}

fn gen_ber(g: &mut Stream) -> CliCase {
    let names = crate::hist::all_decoder_names();
    let n = *g.pick(&[6usize, 8, 9, 12, 12, 15, 18]);
    let r = 2 + g.below((n as u64 / 2).min(6)) as usize;
    let k = n - r;
    let tail = match g.below(5) {
        0 | 1 => Tail::Staircase,
        2 => Tail::GappedStaircase,
        _ => Tail::Invertible,
    };
    let m = random_code(g, k, r, tail, 2);
    let min = -2.0 + g.below(5) as f64 * 0.5;
    // (also sweeps that go downwards, and steps finer than the two decimals the table shows:
    // seeded changes C20-r8b-2 and C13-r8b-3)
    let step = *g.pick(&[0.5, 1.0, 0.3, 0.25, 0.5, -0.5, -1.0, 0.004, 0.005]);
    let np = 1.0 + g.below(3) as f64;
    let max = min + step * (np - 1.0) + step.signum() * *g.pick(&[0.0, 0.1, 0.2]) * if step.abs() < 0.01 { 0.01 } else { 1.0 };
    // 0 = fault-free; 1 pattern length, 2 interleaver columns, 3 8PSK symbol size do not fit;
    // 4 malformed pattern; 5 result file on a full device
    let fault = if g.chance(20, 100) { 1 + g.below(5) } else { 0 };
    // "--opt=value" form: clap would take a separate negative number for a flag
    let mut args: Vec<String> = vec!["ber".into(), format!("--min-ebn0={}", min), format!("--max-ebn0={}", max), format!("--step-ebn0={}", step)];
    args.extend(["--frame-errors".to_string(), (if fault == 0 {
        // a target of zero frame errors is legal: every point ends at once with a line of zero frames
        // (seeded change C20-r10-1 sends no report for a point without frames, and no line is written);
        // only fault-free, since a run that processes no frame need not notice sizes that do not fit
        *g.pick(&[1u64, 2, 3, 5, 10, 1, 2, 3, 5, 0])
    } else {
        *g.pick(&[1u64, 2, 3, 5, 10])
    })
    .to_string()]);
    args.extend(["--max-iter".to_string(), g.pick(&[1usize, 3, 10]).to_string()]);
    args.extend(["--decoder".to_string(), g.pick(&names).clone()]);
    args.extend(["--output-file".to_string(), if fault == 5 { "/dev/full".to_string() } else { "out.txt".to_string() }]);
    let mut l = n;
    if fault == 1 {
        // a pattern whose length does not divide the codeword
        let nd: Vec<usize> = (2..=n + 2).filter(|p| n % p != 0).collect();
        let p = *g.pick(&nd);
        args.extend(["--puncturing".to_string(), (0..p).map(|i| if i == 0 || g.chance(2, 3) { "1" } else { "0" }).collect::<Vec<_>>().join(",")]);
    } else if fault != 4 && g.chance(1, 3) {
        let ds: Vec<usize> = (2..=n).filter(|d| n % d == 0).collect();
        if !ds.is_empty() {
            let p = *g.pick(&ds);
            let b = n / p;
            let v: Vec<bool> = (0..p).map(|i| i * b < k || g.chance(1, 2)).collect();
            l = b * v.iter().filter(|&&x| x).count();
            args.extend(["--puncturing".to_string(), v.iter().map(|&x| if x { "1" } else { "0" }).collect::<Vec<_>>().join(",")]);
        }
    }
    if fault == 2 {
        let nd: Vec<usize> = (2..=l + 2).filter(|c| l % c != 0).collect();
        let c = *g.pick(&nd) as i64;
        args.push(format!("--interleaving={}", if g.chance(1, 2) { c } else { -c }));
    } else if fault != 1 && g.chance(1, 3) {
        let ds: Vec<usize> = (1..=l).filter(|d| l % d == 0).collect();
        let c = *g.pick(&ds) as i64;
        args.push(format!("--interleaving={}", if g.chance(1, 2) { c } else { -c }));
    }
    let mut fault = fault;
    if fault == 4 {
        args.extend(["--puncturing".to_string(), g.pick(&["", "1,0,", ",", "1,,0", " 1,0", "1,2", "a", "10", "1, 0"]).to_string()]);
    }
    if fault == 3 {
        if l % 3 != 0 {
            args.extend(["--modulation".to_string(), "PSK8".to_string()]);
        } else {
            fault = 0;
        }
    } else if fault == 0 && l % 3 == 0 && g.chance(1, 3) {
        args.extend(["--modulation".to_string(), "PSK8".to_string()]);
    }
    if g.chance(1, 4) && k > 2 {
        args.extend(["--bch-max-errors".to_string(), "1".to_string(), "--output-file-ldpc".to_string(), "out_ldpc.txt".to_string()]);
        // now and then only the LDPC-only file is asked for (seeded change C20-r8b-1)
        if fault == 0 && g.chance(1, 3) {
            if let Some(i) = args.iter().position(|a| a == "--output-file") {
                args.drain(i..i + 2);
            }
        }
    }
    args.push("code.alist".into());
    // file faults through the seam (only on otherwise fault-free cases): transparent ones (EINTR,
    // short transfers: nothing may change) or one hard fault at a drawn operation index
    let mut fs_plan = crate::fsfault::FsPlan::default();
    if fault == 0 && g.chance(2, 5) {
        use dstsim::simfs::{Fault, OpKind, Planned};
        let outfile = if args.iter().any(|a| a == "out_ldpc.txt") && g.chance(1, 3) { "out_ldpc.txt" } else { "out.txt" };
        match g.below(5) {
            0 => {
                fs_plan.write_chunks.push((outfile.into(), (0..3).map(|_| 1 + g.below(9) as usize).collect()));
                fs_plan.read_chunks.push(("code.alist".into(), vec![1 + g.below(7) as usize]));
            }
            1 => {
                for _ in 0..1 + g.below(4) {
                    fs_plan.faults.push(Planned { file: outfile.into(), kind: OpKind::Write, index: g.below(200), fault: Fault::Interrupted, sticky: false });
                }
                fs_plan.faults.push(Planned { file: "code.alist".into(), kind: OpKind::Read, index: g.below(3), fault: Fault::Interrupted, sticky: false });
            }
            2 => fs_plan.faults.push(Planned { file: "code.alist".into(), kind: OpKind::Read, index: g.below(2), fault: Fault::Io, sticky: false }),
            3 if g.chance(1, 2) => fs_plan.faults.push(Planned {
                file: outfile.into(),
                kind: OpKind::Write,
                index: DIRECTED_LAST + *g.pick(&[0u64, 0, 0, 1, 2]),
                fault: if g.chance(3, 4) { Fault::NoSpace } else { Fault::Io },
                sticky: g.chance(1, 2),
            }),
            _ => fs_plan.faults.push(Planned {
                file: outfile.into(),
                kind: OpKind::Write,
                // the header block is ~60 write calls, each result line ~25
                index: match g.below(3) {
                    0 => g.below(60),
                    1 => 60 + g.below(80),
                    _ => g.below(400),
                },
                fault: if g.chance(3, 4) { Fault::NoSpace } else { Fault::Io },
                sticky: g.chance(1, 2),
            }),
        }
    }
    CliCase::Ber {
        fs_plan,
        alist: m.to_alist(),
        args,
        workers: *g.pick(&[1usize, 1, 1, 2, 2, 3, 4]),
        strategy: crate::c13::pick_strategy(g).name(),
        clock: g.pick(&["fine", "coarse", "coarse", "jumpy"]).to_string(),
        seeds: [g.next(), g.next(), g.next()],
        expect_err: fault != 0,
    }
}

fn exhaustive_cases(thorough: bool) -> Vec<CliCase> {
    let mut v = Vec::new();
    for (rate, short, _, _, _) in dvbs2_table() {
        v.push(CliCase::Dvbs2 { rate: rate.to_string(), short, girth: false });
    }
    for rate in ["9/10", "7/8", "1/5", "", "1/2 ", "12"] {
        v.push(CliCase::Dvbs2 { rate: rate.to_string(), short: true, girth: false });
    }
    for rate in ["7/8", "1/5", "", "10/9"] {
        v.push(CliCase::Dvbs2 { rate: rate.to_string(), short: false, girth: false });
    }
    for rate in ["1/2", "2/3", "4/5"] {
        for k in [1024u64, 4096, 16384] {
            v.push(CliCase::Ccsds { rate: rate.to_string(), block_size: k, girth: false });
        }
    }
    for (rate, k) in [("3/4", 1024u64), ("1/2", 2048), ("1/2", 0), ("", 1024), ("4/5", 16385)] {
        v.push(CliCase::Ccsds { rate: rate.to_string(), block_size: k, girth: false });
    }
    v.push(CliCase::CcsdsC2);
    v.push(CliCase::Ccsds { rate: "1/2".into(), block_size: 1024, girth: true });
    if thorough {
        v.push(CliCase::Dvbs2 { rate: "1/2".into(), short: false, girth: true });
    }
    v
}

pub fn replay(body: &Value, path: &str) -> ! {
    let case = CliCase::from_json(&body["case"]).unwrap_or_else(|| harness_error("bad C20 replay"));
    match eval(&case, &mut Counters::default()) {
        Some(v) => {
            println!("VIOLATION property=C20 replay={}", path);
            println!("  kind={} detail={}", v.kind, v.detail);
            std::process::exit(1)
        }
        None => {
            println!("NOT-REPRODUCED property=C20 replay={}", path);
            std::process::exit(0)
        }
    }
}

fn case_label(c: &CliCase) -> &'static str {
    match c {
        CliCase::Dvbs2 { .. } => "dvbs2",
        CliCase::Ccsds { .. } => "ccsds",
        CliCase::CcsdsC2 => "ccsds-c2",
        CliCase::Peg { .. } => "peg",
        CliCase::MackayNeal { .. } => "mackay-neal",
        CliCase::Systematic { .. } => "systematic",
        CliCase::Encode { .. } => "encode",
        CliCase::EncodeFull { .. } => "encode",
        CliCase::EncodeSim { .. } => "encode",
        CliCase::BadFile { .. } => "file-fault",
        CliCase::BadArg { .. } => "bad-arg",
        CliCase::Ber { .. } => "ber",
    }
}

pub fn main(opts: &Opts) -> ! {
    let t0 = std::time::Instant::now();
    if !bin_path().exists() {
        harness_error(&format!("{:?} not built", bin_path()));
    }
    let thorough = opts.tier == Tier::Thorough;
    let n_sampled = if thorough { (40_000.0 * opts.scale) as u64 } else { (2400.0 * opts.scale) as u64 };
    let mut cases: Vec<CliCase> = exhaustive_cases(thorough);
    let n_exh = cases.len();
    // encode: every input length 0..=3k+2 for one fixed code, with and without puncturing
    {
        let mut g = Stream::new(opts.seed, "c20-encode-lengths");
        let m = random_code(&mut g, 4, 2, Tail::Invertible, 1);
        for len in 0..=3 * 4 + 2 {
            let input: Vec<u8> = (0..len).map(|_| g.below(2) as u8).collect();
            cases.push(CliCase::Encode { alist: m.to_alist(), punct: None, input: input.clone(), fifo_chunks: None });
            cases.push(CliCase::EncodeSim { alist: m.to_alist(), punct: if len % 2 == 0 { None } else { Some("1,1,0".into()) }, input: input.clone(), seed: g.next() });
            cases.push(CliCase::Encode { alist: m.to_alist(), punct: Some("1,1,0".into()), input, fifo_chunks: if len % 3 == 0 { Some(vec![1, 3, 2]) } else { None } });
        }
    }
    for i in 0..n_sampled {
        cases.push(gen_sampled(opts.seed, i));
    }
    struct Acc {
        counters: Counters,
        failures: Vec<(u64, CliCase, Violation)>,
        distinct: BTreeSet<u64>,
        samples: Vec<Value>,
    }
    let acc = Mutex::new(Acc { counters: Counters::default(), failures: vec![], distinct: BTreeSet::new(), samples: vec![] });
    let stop = AtomicBool::new(false);
    let budget = if thorough { 3000.0 } else { 400.0 };
    let deadline = Some(t0 + std::time::Duration::from_secs_f64(budget));
    let done = par_map(cases.len() as u64, opts.threads, deadline, &stop, |i| {
        let case = &cases[i as usize];
        let mut c = Counters::default();
        let r = eval(case, &mut c);
        c.inc(&format!("subcommand/{}", case_label(case)));
        let mut a = acc.lock().unwrap();
        a.counters.merge(&c);
        a.distinct.insert(hash_str(&case.to_json().to_string()));
        if a.samples.len() < 4 && (i as usize) >= n_exh && matches!(case, CliCase::Encode { .. } | CliCase::Ber { .. }) && a.samples.iter().all(|s: &Value| s["kind"] != case.to_json()["kind"]) {
            a.samples.push(case.to_json());
        }
        if let Some(v) = r {
            if a.failures.len() < 200 {
                a.failures.push((i, case.clone(), v));
            }
        }
    });
    let exhaustive_done = done.iter().filter(|(i, _)| (*i as usize) < n_exh).count() == n_exh;
    let a = acc.into_inner().unwrap();
    eprintln!("[C20] {} cases ({} exhaustive), {} failures, {:.1}s", done.len(), n_exh, a.failures.len(), t0.elapsed().as_secs_f64());
    if !exhaustive_done {
        harness_error("C20: the exhaustive part did not complete within the budget");
    }
    let known = KnownFindings::load();
    let mut violations = Vec::new();
    let mut known_out = Vec::new();
    let mut seen = BTreeSet::new();
    for (i, case, v) in &a.failures {
        let class = format!("{}|{}", v.kind, case_label(case));
        if !seen.insert(class.clone()) || violations.len() >= 5 {
            continue;
        }
        if let Some(d) = known.matches("C20", &class) {
            known_out.push(format!("{} ({})", class, d));
            continue;
        }
        let mut body = json!({
            "property": "C20", "engine": "clisim", "seed": opts.seed, "run": i,
            "case": case.to_json(), "violation": {"kind": v.kind, "detail": v.detail}, "signature": class,
            "replay_verified": false,
        });
        let path = write_replay("C20", opts.seed, *i, &body);
        let ok = verify_replay_fresh(&path);
        body["replay_verified"] = json!(ok);
        write_replay("C20", opts.seed, *i, &body);
        violations.push((path, v.kind.clone(), v.detail.clone()));
    }
    let mut extra = serde_json::Map::new();
    extra.insert("cases".into(), json!(done.len()));
    extra.insert("exhaustive_cases".into(), json!(n_exh));
    extra.insert("exhaustive_part".into(), json!("dvbs2: 21 valid + 10 invalid rate/frame combinations; ccsds: 9 valid + 5 invalid; ccsds-c2; encode input lengths 0..=3k+2 for one code with and without puncturing"));
    extra.insert("subcommands".into(), a.counters.group("subcommand"));
    extra.insert("faults_fired".into(), a.counters.group("faults_fired"));
    extra.insert("skipped".into(), a.counters.group("skipped"));
    let mut probes = serde_json::Map::new();
    for (k, v) in &a.counters.0 {
        if !k.contains('/') {
            probes.insert(k.clone(), json!(v));
        }
    }
    extra.insert("probes".into(), Value::Object(probes));
    extra.insert("sim_time_s".into(), json!(a.counters.get("ber_sim_time_ms") as f64 * 1e-3));
    extra.insert("runs_per_hour".into(), json!((done.len() as f64 / t0.elapsed().as_secs_f64() * 3600.0) as u64));
    extra.insert("components".into(), json!({
        "real": ["the ldpc-toolbox binary built from the working tree (all subcommands but ber run as child processes)", "cli::ber::Args::run + Progress thread + BerTest with real decoders, in-process under dstsim", "real files, FIFOs", "cli::encode::Args::run in-process on real files behind the fault-injecting file layer"],
        "stub": ["for ber only: threads, channels, clock, RNG source, CPU count, ctrlc (dstsim)", "mackay-neal --search runs on the real rayon pool (winner not controlled; the oracle does not depend on it)", "simfs: the outcome of individual read/write/open calls of encode and ber (short, EINTR, EIO, ENOSPC) is decided by the plan, the bytes come from / go to real files"],
    }));
    Evidence {
        property_id: "C20".into(),
        tier: opts.tier,
        seed: opts.seed,
        level: "exploration",
        evaluations: done.len() as u64,
        distinct_nontrivial: a.distinct.len() as u64,
        rule: "one evaluation = one invocation of the tool (or one simulated in-process ber run) in a scratch directory, compared with the library called in-process / the harness's own encoder; exhaustive part as listed, the rest sampled round-robin over peg, mackay-neal, systematic, encode, file faults, invalid arguments, ber; distinct = distinct case descriptors".into(),
        samples: a.samples.clone(),
        extra,
        assumptions: vec![
            "excluded degenerate arguments: encode with a square H (k = 0, never terminates by design of read_exact on empty words) and ber --step-ebn0 0".into(),
            "file faults below std::fs (EINTR, short transfers, EIO, ENOSPC, EACCES) are injected for encode and ber only, where hooks H3/H7 route std::fs through the seam; the other subcommands and the C constructors see real files with injected shapes".into(),
            "every child runs under a wall-clock limit, RLIMIT_FSIZE and RLIMIT_AS; hitting one is reported".into(),
        ],
        wall_s: t0.elapsed().as_secs_f64(),
        violations: violations.len() as u64,
    }
    .write();
    Verdict { property: "C20".into(), violations, known: known_out }.finish()
}
