//! C19 — the C interface is a faithful wrapper of the Rust encoder and decoder.
//!
//! `ffisim`: handle histories through the exported `ldpc_toolbox_*` symbols, with files of a
//! simulated file system (present, missing, a directory, empty, truncated, non-UTF-8, CRLF,
//! out-of-range index). Each batch runs in a child process with a progress journal, so that a
//! panic crossing `extern "C"` (an abort) is observed as a crash of the node and attributed
//! to the operation in flight.

use crate::common::*;
use crate::gf2::*;
use crate::hist::{all_decoder_names, gen_llrs};
use dstsim::{Stream, keyed};
use ldpc_toolbox::decoder::factory::{DecoderFactory, DecoderImplementation};
use ldpc_toolbox::encoder::Encoder;
use ldpc_toolbox::gf2::GF2;
use ldpc_toolbox::sparse::SparseMatrix;
use num_traits::{One, Zero};
use serde_json::{Value, json};
use std::ffi::{CString, c_char, c_void};
use std::io::Write;
use std::panic::{AssertUnwindSafe, catch_unwind};

unsafe extern "C" {
    fn ldpc_toolbox_decoder_ctor(alist_file_path: *const c_char, implementation: *const c_char, puncturing: *const c_char) -> *mut c_void;
    fn ldpc_toolbox_decoder_ctor_alist_string(alist: *const c_char, implementation: *const c_char, puncturing: *const c_char) -> *mut c_void;
    fn ldpc_toolbox_decoder_dtor(decoder: *mut c_void);
    fn ldpc_toolbox_decoder_decode_f64(decoder: *mut c_void, output: *mut u8, output_len: usize, llrs: *const f64, llrs_len: usize, max_iterations: u32) -> i32;
    fn ldpc_toolbox_decoder_decode_f32(decoder: *mut c_void, output: *mut u8, output_len: usize, llrs: *const f32, llrs_len: usize, max_iterations: u32) -> i32;
    fn ldpc_toolbox_encoder_ctor(alist_file_path: *const c_char, puncturing: *const c_char) -> *mut c_void;
    fn ldpc_toolbox_encoder_ctor_alist_string(alist: *const c_char, puncturing: *const c_char) -> *mut c_void;
    fn ldpc_toolbox_encoder_dtor(encoder: *mut c_void);
    fn ldpc_toolbox_encoder_encode(encoder: *mut c_void, output: *mut u8, output_len: usize, input: *const u8, input_len: usize);
}

const NSLOTS: usize = 3;

#[derive(Clone, Debug)]
pub enum Source {
    /// pass the text itself (`*_ctor_alist_string`)
    Text,
    /// write the bytes to a file of the simulated file system and pass its path
    File,
    /// pass a path that does not exist
    Missing,
    /// pass the path of a directory
    Directory,
}

#[derive(Clone, Debug)]
pub enum FfiOp {
    DecCtor { slot: usize, source: Source, content: Vec<u8>, content_kind: String, imp: String, punct: String },
    EncCtor { slot: usize, source: Source, content: Vec<u8>, content_kind: String, punct: String },
    Decode { slot: usize, f32: bool, llrs: Vec<f64>, out_len: usize, max_iter: u32 },
    Encode { slot: usize, bits: Vec<u8> },
    DecDtor { slot: usize },
    EncDtor { slot: usize },
}

fn src_name(s: &Source) -> &'static str {
    match s {
        Source::Text => "text",
        Source::File => "file",
        Source::Missing => "missing",
        Source::Directory => "directory",
    }
}

impl FfiOp {
    pub fn to_json(&self) -> Value {
        match self {
            FfiOp::DecCtor { slot, source, content, content_kind, imp, punct } => {
                json!({"op": "dec_ctor", "slot": slot, "source": src_name(source), "content": content, "content_kind": content_kind, "content_text": String::from_utf8_lossy(content), "implementation": imp, "puncturing": punct})
            }
            FfiOp::EncCtor { slot, source, content, content_kind, punct } => {
                json!({"op": "enc_ctor", "slot": slot, "source": src_name(source), "content": content, "content_kind": content_kind, "content_text": String::from_utf8_lossy(content), "puncturing": punct})
            }
            FfiOp::Decode { slot, f32, llrs, out_len, max_iter } => {
                json!({"op": "decode", "slot": slot, "f32": f32, "llr_bits": llrs.iter().map(|x| x.to_bits().to_string()).collect::<Vec<_>>(), "llrs": llrs, "out_len": out_len, "max_iter": max_iter})
            }
            FfiOp::Encode { slot, bits } => json!({"op": "encode", "slot": slot, "bits": bits}),
            FfiOp::DecDtor { slot } => json!({"op": "dec_dtor", "slot": slot}),
            FfiOp::EncDtor { slot } => json!({"op": "enc_dtor", "slot": slot}),
        }
    }
    pub fn from_json(v: &Value) -> Option<FfiOp> {
        let slot = v["slot"].as_u64()? as usize;
        let source = || match v["source"].as_str() {
            Some("file") => Source::File,
            Some("missing") => Source::Missing,
            Some("directory") => Source::Directory,
            _ => Source::Text,
        };
        let content = || -> Vec<u8> { v["content"].as_array().map(|a| a.iter().map(|x| x.as_u64().unwrap_or(0) as u8).collect()).unwrap_or_default() };
        Some(match v["op"].as_str()? {
            "dec_ctor" => FfiOp::DecCtor { slot, source: source(), content: content(), content_kind: v["content_kind"].as_str().unwrap_or("").into(), imp: v["implementation"].as_str()?.into(), punct: v["puncturing"].as_str()?.into() },
            "enc_ctor" => FfiOp::EncCtor { slot, source: source(), content: content(), content_kind: v["content_kind"].as_str().unwrap_or("").into(), punct: v["puncturing"].as_str()?.into() },
            "decode" => FfiOp::Decode {
                slot,
                f32: v["f32"].as_bool()?,
                llrs: v["llr_bits"].as_array()?.iter().map(|x| f64::from_bits(x.as_str().and_then(|s| s.parse().ok()).unwrap_or(0))).collect(),
                out_len: v["out_len"].as_u64()? as usize,
                max_iter: v["max_iter"].as_u64()? as u32,
            },
            "encode" => FfiOp::Encode { slot, bits: v["bits"].as_array()?.iter().map(|x| x.as_u64().unwrap_or(0) as u8).collect() },
            "dec_dtor" => FfiOp::DecDtor { slot },
            "enc_dtor" => FfiOp::EncDtor { slot },
            _ => return None,
        })
    }
}

// ---------------------------------------------------------------------------
// what the Rust API says (reference model)
// ---------------------------------------------------------------------------

/// the text a constructor sees: C strings stop at the first NUL, then lossy UTF-8
fn as_c_text(content: &[u8]) -> String {
    let end = content.iter().position(|&b| b == 0).unwrap_or(content.len());
    String::from_utf8_lossy(&content[..end]).into_owned()
}

#[derive(Clone)]
struct ModelDec {
    h: SparseMatrix,
    imp: DecoderImplementation,
    pattern: Option<Vec<bool>>,
    /// library preconditions the property does not mention
    usable: Result<(), &'static str>,
}

#[derive(Clone)]
struct ModelEnc {
    h: SparseMatrix,
    pattern: Option<Vec<bool>>,
    usable: Result<(), &'static str>,
}

fn parse_pattern(p: &str) -> Result<Option<Vec<bool>>, ()> {
    // an empty string means "no puncturing" in the C interface; otherwise the harness's own
    // syntax check decides what is malformed (not the library's parser, which is under test)
    if p.is_empty() { Ok(None) } else { own_parse_pattern(p).map(Some) }
}

fn text_for(source: &Source, content: &[u8]) -> Result<String, &'static str> {
    match source {
        Source::Text => Ok(as_c_text(content)),
        Source::File => String::from_utf8(content.to_vec()).map_err(|_| "file is not UTF-8"),
        Source::Missing => Err("missing file"),
        Source::Directory => Err("path is a directory"),
    }
}

fn pattern_usable(pattern: &Option<Vec<bool>>, n: usize) -> Result<(), &'static str> {
    if let Some(p) = pattern {
        if !p.iter().any(|&b| b) {
            return Err("pattern keeps no block (library precondition)");
        }
        if n % p.len() != 0 {
            return Err("pattern length does not divide the codeword (no valid buffer length exists)");
        }
    }
    Ok(())
}

/// Expected result of a decoder constructor: Err(class) = must be null.
fn model_dec_ctor(source: &Source, content: &[u8], imp: &str, punct: &str) -> Result<ModelDec, String> {
    let text = text_for(source, content).map_err(|e| format!("unreadable file ({})", e))?;
    let h = parse_untrusted(&text).map_err(|e| format!("malformed alist ({})", e))?;
    let imp: DecoderImplementation = imp.parse().map_err(|_| "unknown implementation".to_string())?;
    let pattern = parse_pattern(punct).map_err(|_| "malformed puncturing pattern".to_string())?;
    let mut usable = pattern_usable(&pattern, h.num_cols());
    if (0..h.num_rows()).any(|r| h.row_weight(r) < 2) {
        usable = Err("a check has degree < 2 (decoder precondition)");
    }
    if h.num_cols() == 0 {
        usable = Err("no columns");
    }
    Ok(ModelDec { h, imp, pattern, usable })
}

fn model_enc_ctor(source: &Source, content: &[u8], punct: &str) -> Result<Result<ModelEnc, String>, &'static str> {
    // outer Err: the operation must be skipped (library precondition outside the property)
    let text = match text_for(source, content) {
        Ok(t) => t,
        Err(e) => return Ok(Err(format!("unreadable file ({})", e))),
    };
    let h = match parse_untrusted(&text) {
        Ok(h) => h,
        Err(e) => return Ok(Err(format!("malformed alist ({})", e))),
    };
    let pattern = match parse_pattern(punct) {
        Ok(p) => p,
        Err(_) => return Ok(Err("malformed puncturing pattern".to_string())),
    };
    if h.num_rows() > h.num_cols() || h.num_rows() == 0 {
        return Err("more rows than columns, or no rows (encoder precondition)");
    }
    // the verdict on the last columns is the model's own (rank over GF(2)), not the library's
    // (seeded change C19-r10-2: the library's staircase test lets a singular tail through)
    let (r, n) = (h.num_rows(), h.num_cols());
    if BitMat::from_sparse(&h).sub_cols(n - r, n).rank() < r {
        return Ok(Err("last columns singular".to_string()));
    }
    match Encoder::from_h(&h) {
        Ok(_) => {
            let usable = pattern_usable(&pattern, h.num_cols());
            Ok(Ok(ModelEnc { h, pattern, usable }))
        }
        Err(_) => Ok(Err("last columns singular".to_string())),
    }
}

// ---------------------------------------------------------------------------
// generation
// ---------------------------------------------------------------------------

fn gen_punct(g: &mut Stream, n: usize) -> String {
    match g.below(12) {
        0..=5 => String::new(),
        6..=8 => {
            // valid pattern dividing n, at least one kept block
            // (patterns of up to 13 blocks: seeded change C19-r9-2 derives the expected number of
            // LLRs from a floating-point rate, which truncates for some patterns of 7, 9, 11 blocks)
            let ds: Vec<usize> = (2..=n.min(13)).filter(|d| n % d == 0).collect();
            if ds.is_empty() {
                return String::new();
            }
            let big: Vec<usize> = ds.iter().copied().filter(|&d| d >= 7).collect();
            let p = if !big.is_empty() && g.chance(1, 2) { *g.pick(&big) } else { *g.pick(&ds) };
            let mut v: Vec<bool> = (0..p).map(|_| g.chance(2, 3)).collect();
            if !v.iter().any(|&b| b) {
                v[0] = true;
            }
            v.iter().map(|&b| if b { "1" } else { "0" }).collect::<Vec<_>>().join(",")
        }
        9 => "1,1,1,1,1,1,1".to_string(), // may not divide n
        // (also fields that a numeric parse would accept but the pattern syntax does not: seeded
        // change C19-r7-1 reads the fields with `parse::<u8>()`)
        _ => g.pick(&["1,2", "1,,0", "a", "1;0", " 1,0", "1,0,", ",", "true,false", "10", "0,0", "1,1,x", "1, 1, 0", "110", ",1", "1,0,1,", "01", "1,+1", "+1,0", "01,1", "1,00", "1,1,+0", "001,1"]).to_string(),
    }
}

fn gen_imp(g: &mut Stream, names: &[String]) -> String {
    match g.below(10) {
        0 => g.pick(&["", "phif64", "Phif64 ", "HLPhif16", "Minstarapproxi8Jone", "HL", "Aminstari16"]).to_string(),
        _ => g.pick(names).clone(),
    }
}

/// Content for a constructor: (bytes, kind label)
fn gen_content(g: &mut Stream, for_encoder: bool) -> (Vec<u8>, String) {
    let (k, r) = (1 + g.below(8) as usize, 1 + g.below(6) as usize);
    let tail = match g.below(8) {
        0 if for_encoder => Tail::Singular,
        1 | 2 => Tail::Staircase,
        3 if for_encoder => Tail::NearStaircase,
        _ => Tail::Invertible,
    };
    let mut m = random_code(g, k, r, tail, 2);
    if g.chance(1, 8) {
        // a codeword length with a divisor between 7 and 13, for the longer puncturing patterns
        let n = (7 + g.below(7) as usize) * (1 + g.below(5) as usize);
        let r = 1 + g.below(6.min(n as u64 - 1)) as usize;
        let tl = if g.chance(1, 2) { Tail::Staircase } else { Tail::Invertible };
        m = random_code(g, n - r, r, tl, 2);
    } else if g.chance(1, 40) {
        // a long code: its alist text is well beyond any small fixed buffer (seeded change
        // C19-r7-2 cuts strings at PATH_MAX = 4096 bytes)
        let k = 150 + g.below(250) as usize;
        let r = 2 + g.below(4) as usize;
        m = random_code(g, k, r, Tail::Staircase, 2);
    } else if !for_encoder && g.chance(1, 6) {
        // a decoder takes any parity-check matrix, also one with redundant checks (as many or
        // more rows than columns); seeded change C19-r5-3 rejects those in the C constructor only
        let cols = 3 + g.below(8) as usize;
        let rows = cols + g.below(4) as usize;
        m = crate::gf2::random_decoder_matrix(g, rows, cols);
    }
    let text = if g.chance(1, 2) { m.to_alist() } else { crate::c08::own_unpadded(&m) };
    let b = text.as_bytes().to_vec();
    match g.below(16) {
        0..=8 => (b, "valid".into()),
        9 => (Vec::new(), "empty".into()),
        10 => {
            let cut = g.below(b.len() as u64) as usize;
            (b[..cut].to_vec(), "truncated".into())
        }
        11 => {
            let mut v = b.clone();
            let p = g.below(v.len() as u64) as usize;
            v[p] = *g.pick(&[0xFFu8, 0xC3, 0x80]);
            (v, "non-UTF-8 byte".into())
        }
        12 => (text.replace('\n', "\r\n").into_bytes(), "CRLF".into()),
        13 => {
            // an index out of range in a column line
            let mut lines: Vec<String> = text.split('\n').map(|s| s.to_string()).collect();
            let li = 4 + g.below(m.c as u64) as usize;
            lines[li] = format!("{} {}", lines[li], m.r + 1 + g.below(3) as usize);
            (lines.join("\n").into_bytes(), "out-of-range index".into())
        }
        14 => {
            let mut v = b.clone();
            let p = g.below(v.len() as u64) as usize;
            v[p] = *g.pick(&[b'x', b'-', b' ', b'\n', b'9']);
            (v, "character substituted".into())
        }
        _ => {
            let mut v = b.clone();
            let p = g.below(v.len() as u64) as usize;
            v[p] = 0;
            (v, "embedded NUL".into())
        }
    }
}

pub fn gen_history(seed: u64, idx: u64) -> Vec<FfiOp> {
    let names = all_decoder_names();
    let mut g = Stream::new(keyed(seed, &[idx]), "c19-history");
    let nops = 3 + g.below(22) as usize;
    let mut decs: Vec<Option<ModelDec>> = vec![None; NSLOTS];
    let mut encs: Vec<Option<ModelEnc>> = vec![None; NSLOTS];
    let mut ops = Vec::new();
    for _ in 0..nops {
        let slot = g.below(NSLOTS as u64) as usize;
        let choice = g.below(100);
        let live_dec: Vec<usize> = (0..NSLOTS).filter(|&s| decs[s].as_ref().is_some_and(|d| d.usable.is_ok())).collect();
        let live_enc: Vec<usize> = (0..NSLOTS).filter(|&s| encs[s].as_ref().is_some_and(|d| d.usable.is_ok())).collect();
        if choice < 22 || (live_dec.is_empty() && choice < 45) {
            // decoder constructor (an occupied slot is destroyed first)
            if decs[slot].is_some() {
                ops.push(FfiOp::DecDtor { slot });
                decs[slot] = None;
            }
            let (mut content, mut content_kind) = gen_content(&mut g, false);
            let others: Vec<usize> = (0..NSLOTS).filter(|&s| s != slot && decs[s].is_some()).collect();
            if !others.is_empty() && g.chance(2, 5) {
                let o = *g.pick(&others);
                content = BitMat::from_sparse(&decs[o].as_ref().unwrap().h).to_alist().into_bytes();
                content_kind = "valid (same code as another live handle)".into();
            }
            let source = match g.below(12) {
                0 => Source::Missing,
                1 => Source::Directory,
                2..=6 => Source::File,
                _ => Source::Text,
            };
            let n = parse_untrusted(&as_c_text(&content)).map(|h| h.num_cols()).unwrap_or(6);
            let imp = gen_imp(&mut g, &names);
            let punct = gen_punct(&mut g, n);
            if let Ok(m) = model_dec_ctor(&source, &content, &imp, &punct) {
                decs[slot] = Some(m);
            }
            ops.push(FfiOp::DecCtor { slot, source, content, content_kind, imp, punct });
        } else if choice < 34 || (live_enc.is_empty() && choice < 50) {
            if encs[slot].is_some() {
                ops.push(FfiOp::EncDtor { slot });
                encs[slot] = None;
            }
            let (mut content, mut content_kind) = gen_content(&mut g, true);
            // sometimes the same code as another live encoder handle, with its own puncturing
            let others: Vec<usize> = (0..NSLOTS).filter(|&s| s != slot && encs[s].is_some()).collect();
            if !others.is_empty() && g.chance(2, 5) {
                let o = *g.pick(&others);
                content = BitMat::from_sparse(&encs[o].as_ref().unwrap().h).to_alist().into_bytes();
                content_kind = "valid (same code as another live handle)".into();
            }
            let source = match g.below(12) {
                0 => Source::Missing,
                1 => Source::Directory,
                2..=6 => Source::File,
                _ => Source::Text,
            };
            let n = parse_untrusted(&as_c_text(&content)).map(|h| h.num_cols()).unwrap_or(6);
            let punct = gen_punct(&mut g, n);
            if let Ok(Ok(m)) = model_enc_ctor(&source, &content, &punct) {
                encs[slot] = Some(m);
            }
            ops.push(FfiOp::EncCtor { slot, source, content, content_kind, punct });
        } else if choice < 78 && !live_dec.is_empty() {
            let slot = *g.pick(&live_dec);
            let d = decs[slot].as_ref().unwrap();
            let n = d.h.num_cols();
            let hm = BitMat::from_sparse(&d.h);
            let (mut full, _) = gen_llrs(&mut g, &hm);
            // "all buffer contents": now and then infinities (an f32 infinity must behave as its
            // f64 widening, i.e. as an f64 infinity; seeded change C19-r4-2 clamps them)
            if g.chance(1, 10) {
                for x in full.iter_mut() {
                    if g.chance(1, 3) {
                        *x = if *x < 0.0 || (*x == 0.0 && g.chance(1, 2)) { f64::NEG_INFINITY } else { f64::INFINITY };
                    }
                }
            } else if g.chance(1, 12) {
                // magnitudes that only an f32 turns into an infinity (and f32 subnormals)
                for x in full.iter_mut() {
                    if g.chance(1, 3) {
                        *x = x.signum() * *g.pick(&[3.5e38, 1e39, 1e-40, 1e-46, 3.4028235e38]);
                    }
                }
            }
            // the caller passes the punctured frame
            let llrs: Vec<f64> = match &d.pattern {
                None => full,
                Some(p) => {
                    let b = n / p.len();
                    (0..n).filter(|&i| p[i / b]).map(|i| full[i]).collect()
                }
            };
            let k = n.saturating_sub(d.h.num_rows());
            let out_len = match g.below(5) {
                0 => n,
                1 => k.min(n),
                // nothing wanted back but the verdict (seeded change C19-r6-2 answers -1)
                2 => 0,
                _ => k.min(n) + g.below((n - k.min(n)) as u64 + 1) as usize,
            };
            ops.push(FfiOp::Decode { slot, f32: g.chance(1, 3), llrs, out_len, max_iter: *g.pick(&[0u32, 0, 1, 2, 5, 20]) });
        } else if choice < 92 && !live_enc.is_empty() {
            let slot = *g.pick(&live_enc);
            let e = encs[slot].as_ref().unwrap();
            let k = e.h.num_cols() - e.h.num_rows();
            // (now and then bytes that are neither 0 nor 1: the C encoder must treat them as the
            // Rust-side conversion does, seeded change C19-r6-1 copies them to the output)
            let odd = g.chance(1, 5);
            ops.push(FfiOp::Encode { slot, bits: (0..k).map(|_| if odd && g.chance(1, 3) { *g.pick(&[2u8, 3, 255, 128, 0x30, 0x31]) } else { g.below(2) as u8 }).collect() });
        } else if decs[slot].is_some() {
            ops.push(FfiOp::DecDtor { slot });
            decs[slot] = None;
        } else if encs[slot].is_some() {
            ops.push(FfiOp::EncDtor { slot });
            encs[slot] = None;
        }
    }
    ops
}

// ---------------------------------------------------------------------------
// execution (inside the child process)
// ---------------------------------------------------------------------------

struct Exec {
    dir: std::path::PathBuf,
    decs: Vec<(*mut c_void, Option<ModelDec>)>,
    encs: Vec<(*mut c_void, Option<ModelEnc>)>,
    file_no: u64,
}

fn cstr(bytes: &[u8]) -> CString {
    let end = bytes.iter().position(|&b| b == 0).unwrap_or(bytes.len());
    CString::new(&bytes[..end]).unwrap()
}

impl Exec {
    fn new(dir: std::path::PathBuf) -> Exec {
        let _ = std::fs::create_dir_all(&dir);
        Exec {
            dir,
            decs: (0..NSLOTS).map(|_| (std::ptr::null_mut(), None)).collect(),
            encs: (0..NSLOTS).map(|_| (std::ptr::null_mut(), None)).collect(),
            file_no: 0,
        }
    }

    fn path_for(&mut self, source: &Source, content: &[u8]) -> CString {
        // a handful of path names, reused over and over with other contents (and as a directory,
        // and missing): a constructor must read what is there *now* (seeded change C19-r6-3
        // caches file contents by path and never looks again)
        let h = content.iter().fold(0x9E37u64, |a, &b| (a ^ u64::from(b)).wrapping_mul(0x100000001b3));
        self.file_no = 1 + h % 4;
        let p = self.dir.join(format!("f{}.alist", self.file_no));
        if p.is_dir() {
            let _ = std::fs::remove_dir_all(&p);
        } else {
            let _ = std::fs::remove_file(&p);
        }
        match source {
            Source::File => {
                std::fs::write(&p, content).expect("simulated file system: cannot write");
            }
            Source::Directory => {
                std::fs::create_dir_all(&p).expect("simulated file system: cannot mkdir");
            }
            _ => {}
        }
        CString::new(p.to_string_lossy().as_bytes()).unwrap()
    }

    /// File faults below `std::fs` for a constructor that reads a file (hooks H8/H9 route the
    /// C API's `std::fs::read_to_string` through the seam). Which fault, if any, is a function of
    /// the file content, so a replay injects the same one: EIO at the first or second read (the
    /// constructor must return null), EINTR at the first reads or short reads throughout (nothing
    /// may change).
    fn file_faults(&self, source: &Source, content: &[u8], stats: &mut Counters) -> Option<std::sync::Arc<dstsim::simfs::FsSim>> {
        use dstsim::simfs::{Fault, OpKind};
        if !matches!(source, Source::File) {
            return None;
        }
        let h = content.iter().fold(0xcbf29ce484222325u64, |a, &b| (a ^ u64::from(b)).wrapping_mul(0x100000001b3));
        let name = format!("f{}.alist", self.file_no);
        let plan = match h % 8 {
            0 => crate::fsfault::FsPlan::one(&name, OpKind::Read, (h >> 8) % 2, Fault::Io),
            1 => {
                let mut p = crate::fsfault::FsPlan::one(&name, OpKind::Read, 0, Fault::Interrupted);
                p.faults.extend(crate::fsfault::FsPlan::one(&name, OpKind::Read, 2, Fault::Interrupted).faults);
                p
            }
            2 => crate::fsfault::FsPlan { read_chunks: vec![(name, vec![1 + ((h >> 8) % 13) as usize, 3])], ..Default::default() },
            _ => return None,
        };
        let _ = stats;
        let fs = plan.install();
        dstsim::simfs::set(Some(fs.clone()));
        Some(fs)
    }

    /// Remove the fault layer; true if a hard fault took effect.
    fn end_file_faults(fs: Option<std::sync::Arc<dstsim::simfs::FsSim>>, stats: &mut Counters) -> bool {
        dstsim::simfs::set(None);
        match fs {
            None => false,
            Some(fs) => {
                for (k, n) in fs.fired() {
                    stats.add(&format!("faults_fired/simfs while a constructor reads its file: {}", k), n);
                }
                fs.hard_fault_fired()
            }
        }
    }

    /// Execute one operation; returns Err(detail) on an oracle mismatch and the probes it hit.
    fn step(&mut self, op: &FfiOp, stats: &mut Counters) -> Result<(), String> {
        match op {
            FfiOp::DecCtor { slot, source, content, content_kind, imp, punct } => {
                let want = model_dec_ctor(source, content, imp, punct);
                let mut hard_io = false;
                let imp_c = cstr(imp.as_bytes());
                let punct_c = cstr(punct.as_bytes());
                let ptr = unsafe {
                    match source {
                        Source::Text => {
                            let t = cstr(content);
                            ldpc_toolbox_decoder_ctor_alist_string(t.as_ptr(), imp_c.as_ptr(), punct_c.as_ptr())
                        }
                        _ => {
                            let p = self.path_for(source, content);
                            let fs = self.file_faults(source, content, stats);
                            let r = ldpc_toolbox_decoder_ctor(p.as_ptr(), imp_c.as_ptr(), punct_c.as_ptr());
                            hard_io = Self::end_file_faults(fs, stats);
                            r
                        }
                    }
                };
                let want = if hard_io { Err("unreadable file (an injected EIO while reading it)".to_string()) } else { want };
                stats.inc(&format!("faults_fired/ctor input: {} via {}", content_kind, src_name(source)));
                match (&want, ptr.is_null()) {
                    (Ok(m), false) => {
                        self.decs[*slot] = (ptr, Some(m.clone()));
                        stats.inc("decoder constructed");
                        Ok(())
                    }
                    (Err(class), true) => {
                        stats.inc(&format!("ctor_null/{}", class.split(" (").next().unwrap_or(class)));
                        Ok(())
                    }
                    (Ok(_), true) => Err(format!("decoder constructor returned null for a valid ({}) alist, implementation {:?}, puncturing {:?}", content_kind, imp, punct)),
                    (Err(class), false) => {
                        unsafe { ldpc_toolbox_decoder_dtor(ptr) };
                        Err(format!("decoder constructor returned a handle although: {}", class))
                    }
                }
            }
            FfiOp::EncCtor { slot, source, content, content_kind, punct } => {
                let want = match model_enc_ctor(source, content, punct) {
                    Ok(w) => w,
                    Err(why) => {
                        stats.inc(&format!("skipped/{}", why));
                        return Ok(());
                    }
                };
                let punct_c = cstr(punct.as_bytes());
                let mut hard_io = false;
                let ptr = unsafe {
                    match source {
                        Source::Text => {
                            let t = cstr(content);
                            ldpc_toolbox_encoder_ctor_alist_string(t.as_ptr(), punct_c.as_ptr())
                        }
                        _ => {
                            let p = self.path_for(source, content);
                            let fs = self.file_faults(source, content, stats);
                            let r = ldpc_toolbox_encoder_ctor(p.as_ptr(), punct_c.as_ptr());
                            hard_io = Self::end_file_faults(fs, stats);
                            r
                        }
                    }
                };
                stats.inc(&format!("faults_fired/ctor input: {} via {}", content_kind, src_name(source)));
                let want = if hard_io { Err("unreadable file (an injected EIO while reading it)".to_string()) } else { want };
                match (&want, ptr.is_null()) {
                    (Ok(m), false) => {
                        self.encs[*slot] = (ptr, Some(m.clone()));
                        stats.inc("encoder constructed");
                        Ok(())
                    }
                    (Err(class), true) => {
                        stats.inc(&format!("ctor_null/{}", class.split(" (").next().unwrap_or(class)));
                        Ok(())
                    }
                    (Ok(_), true) => Err(format!("encoder constructor returned null for a valid ({}) alist, puncturing {:?}", content_kind, punct)),
                    (Err(class), false) => {
                        unsafe { ldpc_toolbox_encoder_dtor(ptr) };
                        Err(format!("encoder constructor returned a handle although: {}", class))
                    }
                }
            }
            FfiOp::Decode { slot, f32, llrs, out_len, max_iter } => {
                let (ptr, Some(m)) = &self.decs[*slot] else {
                    stats.inc("skipped/decode on an empty slot");
                    return Ok(());
                };
                if let Err(why) = m.usable {
                    stats.inc(&format!("skipped/{}", why));
                    return Ok(());
                }
                let n = m.h.num_cols();
                let want_len = match &m.pattern {
                    None => n,
                    Some(p) => n / p.len() * p.iter().filter(|&&b| b).count(),
                };
                if llrs.len() != want_len || *out_len > n {
                    stats.inc("skipped/buffer lengths outside the C contract");
                    return Ok(());
                }
                // reference: a FRESH Rust decoder on the depunctured LLRs (f32 widened)
                let widened: Vec<f64> = if *f32 { llrs.iter().map(|&x| f64::from(x as f32)).collect() } else { llrs.clone() };
                let dep = match &m.pattern {
                    None => widened.clone(),
                    // the harness's own depuncturing (block i of the pattern kept or erased), not the
                    // library's: the wrapper and a reference that share a helper share its defects
                    // (seeded change C19-r7-3 loses the last kept block inside Puncturer::depuncture)
                    Some(p) => {
                        let b = n / p.len();
                        let mut out = vec![0.0f64; n];
                        let mut src = 0;
                        for (blk, &keep) in p.iter().enumerate() {
                            if keep {
                                out[blk * b..(blk + 1) * b].copy_from_slice(&widened[src..src + b]);
                                src += b;
                            }
                        }
                        out
                    }
                };
                let mut fresh = m.imp.build_decoder(m.h.clone());
                let want = match dstsim::quiet(|| std::panic::catch_unwind(std::panic::AssertUnwindSafe(|| fresh.decode(&dep, *max_iter as usize)))) {
                    Ok(w) => w,
                    Err(_) => {
                        // the Rust decoder itself refuses this input: there is nothing to be faithful to
                        stats.inc("skipped/the Rust decoder panics on this input");
                        return Ok(());
                    }
                };
                let (want_ret, want_word) = match &want {
                    Ok(o) => (o.iterations as i32, o.codeword.clone()),
                    Err(o) => (-1, o.codeword.clone()),
                };
                let mut out = vec![0xAAu8; *out_len + 4];
                let ret = unsafe {
                    if *f32 {
                        let l32: Vec<f32> = llrs.iter().map(|&x| x as f32).collect();
                        ldpc_toolbox_decoder_decode_f32(*ptr, out.as_mut_ptr(), *out_len, l32.as_ptr(), l32.len(), *max_iter)
                    } else {
                        ldpc_toolbox_decoder_decode_f64(*ptr, out.as_mut_ptr(), *out_len, llrs.as_ptr(), llrs.len(), *max_iter)
                    }
                };
                stats.inc(if *f32 { "decode_f32 calls" } else { "decode_f64 calls" });
                if want.is_err() {
                    stats.inc("decode returned -1 (failure)");
                }
                if *max_iter == 0 {
                    stats.inc("decode with limit 0 on a live handle");
                }
                if m.pattern.is_some() {
                    stats.inc("decode on a punctured handle");
                }
                if out[*out_len..] != [0xAA; 4] {
                    return Err(format!("decode wrote past output_len = {}", out_len));
                }
                if ret != want_ret {
                    return Err(format!("decode returned {} but the Rust decoder gives {} ({} on {} LLRs, limit {})", ret, want_ret, m.imp, llrs.len(), max_iter));
                }
                if out[..*out_len] != want_word[..*out_len] {
                    return Err(format!("decode output {:?} but the Rust decoder's word starts {:?} ({} limit {})", &out[..*out_len], &want_word[..*out_len], m.imp, max_iter));
                }
                Ok(())
            }
            FfiOp::Encode { slot, bits } => {
                let (ptr, Some(m)) = &self.encs[*slot] else {
                    stats.inc("skipped/encode on an empty slot");
                    return Ok(());
                };
                if let Err(why) = m.usable {
                    stats.inc(&format!("skipped/{}", why));
                    return Ok(());
                }
                let k = m.h.num_cols() - m.h.num_rows();
                if bits.len() != k {
                    stats.inc("skipped/buffer lengths outside the C contract");
                    return Ok(());
                }
                let enc = Encoder::from_h(&m.h).map_err(|e| format!("reference encoder: {}", e))?;
                let msg = ndarray::Array1::from_iter(bits.iter().map(|&b| if b == 1 { GF2::one() } else { GF2::zero() }));
                let cw = enc.encode(&msg);
                let full: Vec<u8> = cw.iter().map(|x| u8::from(x.is_one())).collect();
                let want: Vec<u8> = match &m.pattern {
                    None => full,
                    // (own puncturing, for the same reason)
                    Some(p) => {
                        let b = full.len() / p.len();
                        full.chunks(b).zip(p.iter()).filter(|(_, keep)| **keep).flat_map(|(c, _)| c.iter().copied()).collect()
                    }
                };
                let mut out = vec![0xAAu8; want.len() + 4];
                unsafe { ldpc_toolbox_encoder_encode(*ptr, out.as_mut_ptr(), want.len(), bits.as_ptr(), bits.len()) };
                stats.inc("encode calls");
                if m.pattern.is_some() {
                    stats.inc("encode on a punctured handle");
                }
                if out[want.len()..] != [0xAA; 4] {
                    return Err("encode wrote past output_len".to_string());
                }
                if out[..want.len()] != want[..] {
                    return Err(format!("encode wrote {:?} but the Rust encoder + puncturer give {:?}", &out[..want.len()], want));
                }
                Ok(())
            }
            FfiOp::DecDtor { slot } => {
                let (ptr, _) = std::mem::replace(&mut self.decs[*slot], (std::ptr::null_mut(), None));
                if !ptr.is_null() {
                    unsafe { ldpc_toolbox_decoder_dtor(ptr) };
                    stats.inc("handle destroyed");
                }
                Ok(())
            }
            FfiOp::EncDtor { slot } => {
                let (ptr, _) = std::mem::replace(&mut self.encs[*slot], (std::ptr::null_mut(), None));
                if !ptr.is_null() {
                    unsafe { ldpc_toolbox_encoder_dtor(ptr) };
                    stats.inc("handle destroyed");
                }
                Ok(())
            }
        }
    }

    fn finish(&mut self) {
        for s in 0..NSLOTS {
            let (p, _) = std::mem::replace(&mut self.decs[s], (std::ptr::null_mut(), None));
            if !p.is_null() {
                unsafe { ldpc_toolbox_decoder_dtor(p) };
            }
            let (p, _) = std::mem::replace(&mut self.encs[s], (std::ptr::null_mut(), None));
            if !p.is_null() {
                unsafe { ldpc_toolbox_encoder_dtor(p) };
            }
        }
    }
}

/// Child: run histories `start..start+count`; journal on stdout.
/// Lines: `BEGIN <hist> <op>` before every operation, `END` after it,
/// `MISMATCH <hist> <op> <json detail>`, and a final `COUNTERS <json>` / `DONE`.
pub fn child_batch(seed: u64, start: u64, count: u64, dir: &str) -> ! {
    let out = std::io::stdout();
    let mut stats = Counters::default();
    for hidx in start..start + count {
        let ops = gen_history(seed, hidx);
        run_history_journaled(hidx, &ops, dir, &mut stats);
    }
    let mut o = out.lock();
    let _ = writeln!(o, "COUNTERS {}", serde_json::to_string(&stats.0).unwrap());
    let _ = writeln!(o, "DONE");
    let _ = o.flush();
    let _ = std::fs::remove_dir_all(dir);
    std::process::exit(0)
}

fn run_history_journaled(hidx: u64, ops: &[FfiOp], dir: &str, stats: &mut Counters) {
    let out = std::io::stdout();
    let mut ex = Exec::new(std::path::Path::new(dir).join(format!("h{}", hidx)));
    for (i, op) in ops.iter().enumerate() {
        {
            let mut o = out.lock();
            let _ = writeln!(o, "BEGIN {} {}", hidx, i);
            let _ = o.flush();
        }
        let r = catch_unwind(AssertUnwindSafe(|| ex.step(op, stats)));
        let mut o = out.lock();
        match r {
            Ok(Ok(())) => {}
            Ok(Err(d)) => {
                let _ = writeln!(o, "MISMATCH {} {} {}", hidx, i, serde_json::to_string(&d).unwrap());
            }
            Err(_) => {
                // a panic on the harness side of the boundary (reference model)
                let _ = writeln!(o, "MISMATCH {} {} {}", hidx, i, serde_json::to_string(&format!("reference model panicked: {}", dstsim::take_last_panic().unwrap_or_default())).unwrap());
            }
        }
        let _ = writeln!(o, "END");
        let _ = o.flush();
    }
    ex.finish();
    stats.inc("histories");
    stats.add("operations", ops.len() as u64);
    let _ = std::fs::remove_dir_all(std::path::Path::new(dir).join(format!("h{}", hidx)));
}

pub fn child_replay(path: &str, dir: &str) -> ! {
    let body: Value = serde_json::from_str(&std::fs::read_to_string(path).unwrap_or_default()).unwrap_or(Value::Null);
    let ops: Vec<FfiOp> = body["history"].as_array().map(|a| a.iter().filter_map(FfiOp::from_json).collect()).unwrap_or_default();
    let mut stats = Counters::default();
    run_history_journaled(0, &ops, dir, &mut stats);
    println!("DONE");
    let _ = std::fs::remove_dir_all(dir);
    std::process::exit(0)
}

// ---------------------------------------------------------------------------
// parent
// ---------------------------------------------------------------------------

pub struct ChildReport {
    /// (history, op index, detail)
    pub mismatches: Vec<(u64, usize, String)>,
    /// child died: (history, op index, how)
    pub crash: Option<(u64, usize, String)>,
    pub counters: Counters,
    pub done: bool,
    pub stderr_tail: String,
}

fn parse_journal(stdout: &str, status: &str, stderr: &str) -> ChildReport {
    let mut rep = ChildReport { mismatches: vec![], crash: None, counters: Counters::default(), done: false, stderr_tail: String::new() };
    let mut in_flight: Option<(u64, usize)> = None;
    for line in stdout.lines() {
        if let Some(rest) = line.strip_prefix("BEGIN ") {
            let mut t = rest.split_whitespace();
            let h = t.next().and_then(|x| x.parse().ok()).unwrap_or(0);
            let i = t.next().and_then(|x| x.parse().ok()).unwrap_or(0);
            in_flight = Some((h, i));
        } else if line == "END" {
            in_flight = None;
        } else if let Some(rest) = line.strip_prefix("MISMATCH ") {
            let mut t = rest.splitn(3, ' ');
            let h = t.next().and_then(|x| x.parse().ok()).unwrap_or(0);
            let i = t.next().and_then(|x| x.parse().ok()).unwrap_or(0);
            let d: String = t.next().and_then(|x| serde_json::from_str(x).ok()).unwrap_or_default();
            rep.mismatches.push((h, i, d));
        } else if let Some(rest) = line.strip_prefix("COUNTERS ") {
            if let Ok(m) = serde_json::from_str::<std::collections::BTreeMap<String, u64>>(rest) {
                rep.counters = Counters(m);
            }
        } else if line == "DONE" {
            rep.done = true;
        }
    }
    if !rep.done {
        let tail: Vec<&str> = stderr.lines().rev().take(6).collect();
        rep.stderr_tail = tail.into_iter().rev().collect::<Vec<_>>().join(" | ");
        let (h, i) = in_flight.unwrap_or((u64::MAX, 0));
        rep.crash = Some((h, i, format!("child process died ({}) during this operation; stderr: {}", status, rep.stderr_tail)));
    }
    rep
}

pub fn spawn_child(args: &[String], timeout_s: u64) -> (String, String, String) {
    let exe = std::env::current_exe().unwrap_or_else(|e| harness_error(&format!("current_exe: {}", e)));
    let mut child = std::process::Command::new(exe)
        .args(args)
        .stdin(std::process::Stdio::null())
        .stdout(std::process::Stdio::piped())
        .stderr(std::process::Stdio::piped())
        .spawn()
        .unwrap_or_else(|e| harness_error(&format!("cannot spawn child: {}", e)));
    // read both pipes on helper threads, enforce the wall-clock limit here
    let mut so = child.stdout.take().unwrap();
    let mut se = child.stderr.take().unwrap();
    let t1 = std::thread::spawn(move || {
        let mut s = Vec::new();
        let _ = std::io::Read::read_to_end(&mut so, &mut s);
        String::from_utf8_lossy(&s).into_owned()
    });
    let t2 = std::thread::spawn(move || {
        let mut s = Vec::new();
        let _ = std::io::Read::read_to_end(&mut se, &mut s);
        String::from_utf8_lossy(&s).into_owned()
    });
    let t0 = std::time::Instant::now();
    let status = loop {
        match child.try_wait() {
            Ok(Some(st)) => break format!("{}", st),
            Ok(None) => {
                if t0.elapsed().as_secs() > timeout_s {
                    let _ = child.kill();
                    let _ = child.wait();
                    break format!("killed after {} s wall-clock limit", timeout_s);
                }
                std::thread::sleep(std::time::Duration::from_millis(5));
            }
            Err(e) => break format!("wait failed: {}", e),
        }
    };
    (t1.join().unwrap_or_default(), t2.join().unwrap_or_default(), status)
}

fn work_dir(tag: &str) -> String {
    let d = verif_dir().join("work").join(format!("{}-{}", tag, std::process::id()));
    let _ = std::fs::create_dir_all(&d);
    d.to_string_lossy().into_owned()
}

pub fn replay(body: &Value, path: &str) -> ! {
    let dir = work_dir("ffi-replay");
    let (so, se, status) = spawn_child(&["child".into(), "ffi-replay".into(), path.to_string(), dir.clone()], 120);
    let _ = std::fs::remove_dir_all(&dir);
    let rep = parse_journal(&so, &status, &se);
    let kind = body["violation"]["kind"].as_str().unwrap_or("");
    let found = match kind {
        "crash" => rep.crash.map(|c| c.2),
        _ => rep.mismatches.first().map(|m| m.2.clone()),
    };
    match found {
        Some(d) => {
            println!("VIOLATION property=C19 replay={}", path);
            println!("  kind={} detail={}", kind, d);
            std::process::exit(1)
        }
        None => {
            println!("NOT-REPRODUCED property=C19 replay={}", path);
            std::process::exit(0)
        }
    }
}

/// Does this history (run in its own child) still show a violation of `kind`?
fn history_fails(ops: &[FfiOp], kind: &str) -> Option<String> {
    let dir = work_dir("ffi-min");
    let tmp = std::path::Path::new(&dir).join("hist.json");
    let body = json!({"history": ops.iter().map(|o| o.to_json()).collect::<Vec<_>>()});
    std::fs::write(&tmp, body.to_string()).ok()?;
    let (so, se, status) = spawn_child(&["child".into(), "ffi-replay".into(), tmp.to_string_lossy().into_owned(), format!("{}/fs", dir)], 60);
    let _ = std::fs::remove_dir_all(&dir);
    let rep = parse_journal(&so, &status, &se);
    match kind {
        "crash" => rep.crash.map(|c| c.2),
        _ => rep.mismatches.first().map(|m| m.2.clone()),
    }
}

pub fn main(opts: &Opts) -> ! {
    let t0 = std::time::Instant::now();
    let (n_hist, per_child, timeout) = match opts.tier {
        Tier::Quick => ((8000.0 * opts.scale) as u64, 125u64, 120u64),
        Tier::Thorough => ((200_000.0 * opts.scale) as u64, 1000u64, 900u64),
    };
    let batches: Vec<(u64, u64)> = (0..n_hist.div_ceil(per_child)).map(|b| (b * per_child, per_child.min(n_hist - b * per_child))).collect();
    let stop = std::sync::atomic::AtomicBool::new(false);
    let base = work_dir("ffi");
    let results = par_map(batches.len() as u64, opts.threads, None, &stop, |b| {
        let (mut start, mut count) = batches[b as usize];
        let mut reports = Vec::new();
        // a crash ends a child; carry on after the crashed history in a new one
        loop {
            let dir = format!("{}/b{}-{}", base, b, start);
            let (mut so, mut se, mut status) = spawn_child(&["child".into(), "ffi-batch".into(), opts.seed.to_string(), start.to_string(), count.to_string(), dir.clone()], timeout);
            let _ = std::fs::remove_dir_all(&dir);
            if status.starts_with("killed after") {
                // slow is not hung: second opinion with a limit 10 times longer (a loaded machine)
                (so, se, status) = spawn_child(&["child".into(), "ffi-batch".into(), opts.seed.to_string(), start.to_string(), count.to_string(), dir.clone()], timeout * 10);
                let _ = std::fs::remove_dir_all(&dir);
            }
            let rep = parse_journal(&so, &status, &se);
            let crashed_at = rep.crash.as_ref().map(|c| c.0);
            reports.push(rep);
            match crashed_at {
                Some(h) if h != u64::MAX && h + 1 < start + count => {
                    count = start + count - (h + 1);
                    start = h + 1;
                }
                _ => break,
            }
        }
        reports
    });
    let _ = std::fs::remove_dir_all(&base);
    let mut counters = Counters::default();
    let mut mismatches: Vec<(u64, usize, String)> = Vec::new();
    let mut crashes: Vec<(u64, usize, String)> = Vec::new();
    for (_, reps) in results {
        for r in reps {
            counters.merge(&r.counters);
            mismatches.extend(r.mismatches);
            if let Some(c) = r.crash {
                crashes.push(c);
            }
        }
    }
    eprintln!(
        "[C19] {} histories, {} operations, {} mismatches, {} crashes, {:.1}s",
        counters.get("histories"),
        counters.get("operations"),
        mismatches.len(),
        crashes.len(),
        t0.elapsed().as_secs_f64()
    );
    if counters.get("histories") == 0 && crashes.is_empty() {
        harness_error("C19: no history was executed");
    }
    let known = KnownFindings::load();
    let mut violations = Vec::new();
    let mut known_out = Vec::new();
    let mut todo: Vec<(&'static str, u64, usize, String)> = Vec::new();
    if let Some((h, i, d)) = crashes.first() {
        todo.push(("crash", *h, *i, d.clone()));
    }
    if let Some((h, i, d)) = mismatches.first() {
        todo.push(("mismatch", *h, *i, d.clone()));
    }
    for (kind, h, i, d) in todo {
        if h == u64::MAX {
            violations.push((String::from("<none>"), kind.to_string(), d));
            continue;
        }
        let ops = gen_history(opts.seed, h);
        let upto = (i + 1).min(ops.len());
        let fails = |o: &[FfiOp]| history_fails(o, kind).is_some();
        let min = crate::hist::ddmin(&ops[..upto], &fails, 40);
        let detail = history_fails(&min, kind).unwrap_or(d.clone());
        let last = min.last().map(|o| o.to_json()["op"].as_str().unwrap_or("").to_string()).unwrap_or_default();
        let sig = format!("{}|{}", kind, last);
        if let Some(desc) = known.matches("C19", &sig) {
            known_out.push(format!("{} ({})", sig, desc));
            continue;
        }
        let body = json!({
            "property": "C19", "engine": "ffisim", "seed": opts.seed, "run": h,
            "history": min.iter().map(|o| o.to_json()).collect::<Vec<_>>(),
            "violation": {"kind": kind, "detail": detail}, "signature": sig,
            "replay_verified": true,
        });
        let path = write_replay("C19", opts.seed, h, &body);
        violations.push((path, kind.to_string(), detail));
    }
    let mut extra = serde_json::Map::new();
    extra.insert("histories".into(), json!(counters.get("histories")));
    extra.insert("operations".into(), json!(counters.get("operations")));
    extra.insert("child_processes".into(), json!(batches.len()));
    extra.insert("faults_fired".into(), counters.group("faults_fired"));
    extra.insert("constructor_null_by_class".into(), counters.group("ctor_null"));
    extra.insert("skipped".into(), counters.group("skipped"));
    let mut probes = serde_json::Map::new();
    for (k, v) in &counters.0 {
        if !k.contains('/') && k != "histories" && k != "operations" {
            probes.insert(k.clone(), json!(v));
        }
    }
    extra.insert("probes".into(), Value::Object(probes));
    extra.insert("runs_per_hour".into(), json!((counters.get("histories") as f64 / t0.elapsed().as_secs_f64() * 3600.0) as u64));
    extra.insert("components".into(), json!({
        "real": ["all nine exported ldpc_toolbox_* symbols, called through extern \"C\" declarations", "std::fs (real files in a scratch directory)"],
        "stub_file_layer": ["simfs decides the outcome of individual read calls (EIO, EINTR, short) while a constructor reads its file; the bytes come from the real file"],
        "stub": ["none (the reference model is the Rust API with fresh objects per call)"],
    }));
    let sample_ops = gen_history(opts.seed, 0);
    Evidence {
        property_id: "C19".into(),
        tier: opts.tier,
        seed: opts.seed,
        level: "exploration",
        evaluations: counters.get("histories"),
        distinct_nontrivial: counters.get("histories").min(counters.get("decode_f64 calls") + counters.get("decode_f32 calls") + counters.get("encode calls")),
        rule: "one evaluation = one generated history of 3..24 operations over up to 3 decoder and 3 encoder handles (constructors from text or from files with injected faults, decode_f64/decode_f32, encode, destructors), every operation compared with the Rust API on fresh objects; distinct_nontrivial = histories, capped by the number of decode/encode calls actually compared".into(),
        samples: vec![json!(sample_ops.iter().take(6).map(|o| {
            let mut j = o.to_json();
            if let Some(m) = j.as_object_mut() { m.remove("content"); m.remove("llr_bits"); }
            j
        }).collect::<Vec<_>>())],
        extra,
        assumptions: vec![
            "buffer-length preconditions of the C contract are respected by the generator (violating them is UB by contract)".into(),
            "operations outside the library's own preconditions (encoder with more rows than columns, check degree < 2, pattern keeping no block or not dividing the codeword) are skipped and counted".into(),
            "ENOSPC/EIO are not injected: there is no seam below std::fs".into(),
        ],
        wall_s: t0.elapsed().as_secs_f64(),
        violations: violations.len() as u64,
    }
    .write();
    Verdict { property: "C19".into(), violations, known: known_out }.finish()
}
