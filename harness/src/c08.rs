//! C08 — alist text and matrices round-trip losslessly and the parser is total.
//!
//! `alistsim`: matrix -> write_alist through a fault-injecting `fmt::Write` -> simulated
//! storage (truncate, tear, flip, drop/duplicate/swap line, CRLF, trailing garbage) ->
//! `from_alist`. Fault points are enumerated per sampled text.

use crate::common::*;
use crate::gf2::*;
use dstsim::{Stream, keyed};
use ldpc_toolbox::sparse::SparseMatrix;
use serde_json::{Value, json};
use std::collections::BTreeSet;
use std::panic::{AssertUnwindSafe, catch_unwind};
use std::sync::Mutex;
use std::sync::atomic::AtomicBool;

pub const MAX_DECLARED: usize = 4096;
const WRITER_CAP: usize = 1 << 20;

/// `fmt::Write` seam with injected faults.
pub struct FaultyWriter {
    pub out: String,
    pub calls: usize,
    pub fail_at_call: Option<usize>,
    pub byte_budget: Option<usize>,
    pub fired: bool,
    pub overflow: bool,
}

impl FaultyWriter {
    pub fn new(fail_at_call: Option<usize>, byte_budget: Option<usize>) -> FaultyWriter {
        FaultyWriter { out: String::new(), calls: 0, fail_at_call, byte_budget, fired: false, overflow: false }
    }
}

impl std::fmt::Write for FaultyWriter {
    fn write_str(&mut self, s: &str) -> std::fmt::Result {
        let idx = self.calls;
        self.calls += 1;
        if self.fail_at_call == Some(idx) {
            self.fired = true;
            return Err(std::fmt::Error);
        }
        if let Some(b) = self.byte_budget {
            let room = b.saturating_sub(self.out.len());
            if s.len() > room {
                // short write, then the error (a full disk)
                self.out.push_str(&s[..room]);
                self.fired = true;
                return Err(std::fmt::Error);
            }
        }
        if self.out.len() + s.len() > WRITER_CAP {
            self.overflow = true;
            self.fired = true;
            return Err(std::fmt::Error);
        }
        self.out.push_str(s);
        Ok(())
    }
}

pub fn gen_matrix(seed: u64, idx: u64) -> BitMat {
    let mut g = Stream::new(keyed(seed, &[idx]), "c08-matrix");
    let (r, c) = match g.below(12) {
        0 => (1, 1),
        1 => (1, 1 + g.below(12) as usize),
        2 => (1 + g.below(12) as usize, 1),
        _ => (1 + g.below(12) as usize, 1 + g.below(12) as usize),
    };
    let mut m = BitMat::zeros(r, c);
    let density = match g.below(8) {
        0 => 0,
        1 => 100,
        2 => 3,
        _ => 5 + g.below(70),
    };
    for i in 0..r {
        for j in 0..c {
            if g.below(100) < density {
                m.a[i][j] = 1;
            }
        }
    }
    // empty rows / columns on purpose
    if g.chance(1, 3) {
        let i = g.below(r as u64) as usize;
        for j in 0..c {
            m.a[i][j] = 0;
        }
    }
    if g.chance(1, 3) {
        let j = g.below(c as u64) as usize;
        for i in 0..r {
            m.a[i][j] = 0;
        }
    }
    m
}

/// The harness's own unpadded text.
pub fn own_unpadded(m: &BitMat) -> String {
    let cols: Vec<Vec<usize>> = (0..m.c).map(|j| (0..m.r).filter(|&i| m.a[i][j] == 1).map(|i| i + 1).collect()).collect();
    let rows: Vec<Vec<usize>> = (0..m.r).map(|i| (0..m.c).filter(|&j| m.a[i][j] == 1).map(|j| j + 1).collect()).collect();
    let mc = cols.iter().map(|v| v.len()).max().unwrap_or(0);
    let mr = rows.iter().map(|v| v.len()).max().unwrap_or(0);
    let mut s = format!("{} {}\n{} {}\n", m.c, m.r, mc, mr);
    s.push_str(&cols.iter().map(|v| v.len().to_string()).collect::<Vec<_>>().join(" "));
    s.push('\n');
    s.push_str(&rows.iter().map(|v| v.len().to_string()).collect::<Vec<_>>().join(" "));
    s.push('\n');
    for list in cols.iter().chain(rows.iter()) {
        s.push_str(&list.iter().map(|x| x.to_string()).collect::<Vec<_>>().join(" "));
        s.push('\n');
    }
    s
}

/// Check that `text` is the alist of `m` in the prescribed layout (whitespace inside a line
/// is not compared).
pub fn check_format(m: &BitMat, text: &str, padded: bool) -> Result<(), String> {
    let mut lines: Vec<&str> = text.split('\n').collect();
    if lines.last() != Some(&"") {
        return Err("text does not end with a newline".into());
    }
    lines.pop();
    let want_lines = 4 + m.c + m.r;
    if lines.len() != want_lines {
        return Err(format!("{} lines, expected {}", lines.len(), want_lines));
    }
    let toks = |l: &str| -> Result<Vec<usize>, String> {
        l.split_whitespace().map(|t| t.parse::<usize>().map_err(|_| format!("token {:?} is not a number", t))).collect()
    };
    if toks(lines[0])? != vec![m.c, m.r] {
        return Err(format!("header {:?}, expected \"{} {}\"", lines[0], m.c, m.r));
    }
    let cw: Vec<usize> = (0..m.c).map(|j| m.col_weight(j)).collect();
    let rw: Vec<usize> = (0..m.r).map(|i| m.row_weight(i)).collect();
    let mc = cw.iter().cloned().max().unwrap_or(0);
    let mr = rw.iter().cloned().max().unwrap_or(0);
    if toks(lines[1])? != vec![mc, mr] {
        return Err(format!("maximum-weight line {:?}, expected \"{} {}\"", lines[1], mc, mr));
    }
    if toks(lines[2])? != cw {
        return Err(format!("column-weight line {:?}, expected {:?}", lines[2], cw));
    }
    if toks(lines[3])? != rw {
        return Err(format!("row-weight line {:?}, expected {:?}", lines[3], rw));
    }
    let check_list = |line: &str, want: Vec<usize>, maxw: usize, what: String| -> Result<(), String> {
        let t = toks(line)?;
        let nz: Vec<usize> = t.iter().cloned().take_while(|&x| x != 0).collect();
        if t[nz.len()..].iter().any(|&x| x != 0) {
            return Err(format!("{}: non-zero after padding in {:?}", what, line));
        }
        if nz != want {
            return Err(format!("{}: indices {:?}, expected sorted 1-based {:?}", what, nz, want));
        }
        let zeros = t.len() - nz.len();
        if padded {
            let ok = if maxw == 0 { zeros <= 1 } else { t.len() == maxw };
            if !ok {
                return Err(format!("{}: {} tokens for maximum weight {} in padded form ({:?})", what, t.len(), maxw, line));
            }
        } else {
            // unpadded: the indices only, no zero at all (an empty list is an empty line)
            if zeros != 0 {
                return Err(format!("{}: padding zeros in unpadded form ({:?})", what, line));
            }
        }
        Ok(())
    };
    for j in 0..m.c {
        let want: Vec<usize> = (0..m.r).filter(|&i| m.a[i][j] == 1).map(|i| i + 1).collect();
        check_list(lines[4 + j], want, mc, format!("column {}", j))?;
    }
    for i in 0..m.r {
        let want: Vec<usize> = (0..m.c).filter(|&j| m.a[i][j] == 1).map(|j| j + 1).collect();
        check_list(lines[4 + m.c + i], want, mr, format!("row {}", i))?;
    }
    Ok(())
}

fn declared_dims(text: &str) -> Option<(usize, usize)> {
    let first = text.split('\n').next()?;
    let mut t = first.split_whitespace();
    let a = t.next()?.parse::<usize>().ok()?;
    let b = t.next()?.parse::<usize>().ok()?;
    Some((a, b))
}

pub enum ParseOutcome {
    Ok(SparseMatrix),
    Err,
    Panic(String),
    Skipped,
}

pub fn guarded_parse(text: &str) -> ParseOutcome {
    if let Some((a, b)) = declared_dims(text) {
        if a > MAX_DECLARED || b > MAX_DECLARED {
            return ParseOutcome::Skipped;
        }
    }
    match dstsim::quiet(|| catch_unwind(AssertUnwindSafe(|| SparseMatrix::from_alist(text)))) {
        Ok(Ok(m)) => ParseOutcome::Ok(m),
        Ok(Err(_)) => ParseOutcome::Err,
        Err(_) => ParseOutcome::Panic(dstsim::take_last_panic().unwrap_or_default()),
    }
}

fn write_with(m: &SparseMatrix, padded: bool, w: &mut FaultyWriter) -> Result<std::fmt::Result, String> {
    dstsim::quiet(|| {
        catch_unwind(AssertUnwindSafe(|| if padded { m.write_alist(w) } else { m.write_alist_no_padding(w) }))
    })
    .map_err(|_| dstsim::take_last_panic().unwrap_or_default())
}

/// A failing case, in replayable form.
#[derive(Clone, Debug)]
pub enum Case {
    RoundTrip { matrix: String, padded: bool, shuffle: u64 },
    WriterCall { matrix: String, padded: bool, call: usize },
    WriterBudget { matrix: String, padded: bool, budget: usize },
    Text { text: String, origin: String },
    /// `ws` = 0: the plain text; otherwise a whitespace-equivalent rendering drawn from this seed
    OwnText { matrix: String, padded: bool, ws: u64 },
}

impl Case {
    pub fn to_json(&self) -> Value {
        match self {
            Case::RoundTrip { matrix, padded, shuffle } => json!({"kind": "roundtrip", "matrix_alist": matrix, "padded": padded, "insertion_order_seed": shuffle.to_string()}),
            Case::WriterCall { matrix, padded, call } => json!({"kind": "writer-call", "matrix_alist": matrix, "padded": padded, "fail_at_call": call}),
            Case::WriterBudget { matrix, padded, budget } => json!({"kind": "writer-budget", "matrix_alist": matrix, "padded": padded, "byte_budget": budget}),
            Case::Text { text, origin } => json!({"kind": "text", "text": text, "origin": origin}),
            Case::OwnText { matrix, padded, ws } => json!({"kind": "own-text", "matrix_alist": matrix, "padded": padded, "ws": ws.to_string()}),
        }
    }
    pub fn from_json(v: &Value) -> Option<Case> {
        let m = || v["matrix_alist"].as_str().map(|s| s.to_string());
        let p = || v["padded"].as_bool();
        Some(match v["kind"].as_str()? {
            "roundtrip" => Case::RoundTrip { matrix: m()?, padded: p()?, shuffle: v["insertion_order_seed"].as_str().and_then(|s| s.parse().ok()).unwrap_or(0) },
            "writer-call" => Case::WriterCall { matrix: m()?, padded: p()?, call: v["fail_at_call"].as_u64()? as usize },
            "writer-budget" => Case::WriterBudget { matrix: m()?, padded: p()?, budget: v["byte_budget"].as_u64()? as usize },
            "text" => Case::Text { text: v["text"].as_str()?.to_string(), origin: v["origin"].as_str().unwrap_or("").to_string() },
            "own-text" => Case::OwnText { matrix: m()?, padded: p()?, ws: v["ws"].as_str().and_then(|x| x.parse().ok()).unwrap_or(0) },
            _ => return None,
        })
    }
}

/// The harness's own strict reader of its own texts (used only for replay of matrix cases).
fn matrix_from_own_alist(s: &str) -> Option<BitMat> {
    let lines: Vec<&str> = s.split('\n').collect();
    let mut t = lines.first()?.split_whitespace();
    let c: usize = t.next()?.parse().ok()?;
    let r: usize = t.next()?.parse().ok()?;
    let mut m = BitMat::zeros(r, c);
    for j in 0..c {
        for tok in lines.get(4 + j)?.split_whitespace() {
            let i: usize = tok.parse().ok()?;
            if i != 0 {
                m.a[i - 1][j] = 1;
            }
        }
    }
    Some(m)
}

/// Evaluate one case; Some(violation) if the property fails on it.
pub fn eval_case(case: &Case, stats: &mut Counters) -> Option<Violation> {
    match case {
        Case::RoundTrip { matrix, padded, shuffle } => {
            let m = matrix_from_own_alist(matrix)?;
            // ones inserted in a random order: the text must not depend on it
            // (seeds >= 2^40: the same matrix reached through an editing history — clear/set/
            // toggle/remove — instead of plain inserts; seeded change C08-r4-3 caches the maximum
            // weights and forgets to refresh one of them in clear_row / clear_col)
            let sm = if *shuffle == 0 {
                m.to_sparse()
            } else if *shuffle >= 1 << 40 {
                stats.inc("matrix reached through an editing history");
                m.to_sparse_via_history(*shuffle)
            } else {
                m.to_sparse_shuffled(*shuffle)
            };
            let mut w = FaultyWriter::new(None, None);
            match write_with(&sm, *padded, &mut w) {
                Err(p) => return Some(Violation::new("writer-panic", format!("writing a {}x{} matrix ({}) panicked: {}", m.r, m.c, if *padded { "padded" } else { "unpadded" }, p))),
                Ok(Err(_)) if w.overflow => return Some(Violation::new("writer-unbounded", format!("writing a {}x{} matrix produced more than 1 MiB", m.r, m.c))),
                Ok(Err(_)) => return Some(Violation::new("writer-error", "fault-free writer returned Err".to_string())),
                Ok(Ok(())) => {}
            }
            // the String-returning front ends must agree with the writer
            let s2 = dstsim::quiet(|| catch_unwind(AssertUnwindSafe(|| if *padded { sm.alist() } else { sm.alist_no_padding() })));
            match s2 {
                Ok(s2) if s2 == w.out => {}
                Ok(_) => return Some(Violation::new("format", "alist()/alist_no_padding() differ from write_alist*()".to_string())),
                Err(_) => return Some(Violation::new("writer-panic", format!("alist() panicked: {}", dstsim::take_last_panic().unwrap_or_default()))),
            }
            if let Err(e) = check_format(&m, &w.out, *padded) {
                return Some(Violation::new("format", format!("{} text of a {}x{} matrix: {}", if *padded { "padded" } else { "unpadded" }, m.r, m.c, e)));
            }
            match guarded_parse(&w.out) {
                ParseOutcome::Ok(back) => {
                    if BitMat::from_sparse(&back) != m {
                        return Some(Violation::new("roundtrip", format!("parsing the written text gives a different matrix ({}x{} vs {}x{})", back.num_rows(), back.num_cols(), m.r, m.c)));
                    }
                }
                ParseOutcome::Err => return Some(Violation::new("roundtrip", "the parser rejects the writer's own text".to_string())),
                ParseOutcome::Panic(p) => return Some(Violation::new("parser-panic", format!("parsing the writer's own text panicked: {}", p))),
                ParseOutcome::Skipped => {}
            }
            stats.inc("roundtrip ok");
            None
        }
        Case::OwnText { matrix, padded, ws } => {
            let m = matrix_from_own_alist(matrix)?;
            let plain = if *padded { m.to_alist() } else { own_unpadded(&m) };
            // the alist format separates numbers by blanks and lines by line ends; files written
            // on other systems or by other tools come with CR LF, tabs, runs of blanks, blanks
            // at the ends of lines (seeded change C08-r9-3 splits column lines at single spaces
            // only and rejects them)
            let (text, how) = if *ws == 0 { (plain, String::new()) } else { whitespace_rendering(&plain, *ws) };
            if *ws != 0 {
                stats.inc(&format!("faults_fired/whitespace-equivalent rendering:{}", how));
            }
            let padded = &format!("{}{}", if *padded { "padded" } else { "unpadded" }, how);
            match guarded_parse(&text) {
                ParseOutcome::Ok(back) if BitMat::from_sparse(&back) == m => None,
                ParseOutcome::Ok(_) => Some(Violation::new("accepts-forms", format!("a well-formed {} alist parses to a different matrix", padded))),
                ParseOutcome::Err => Some(Violation::new("accepts-forms", format!("a well-formed {} alist is rejected", padded))),
                ParseOutcome::Panic(p) => Some(Violation::new("parser-panic", format!("well-formed text: {}", p))),
                ParseOutcome::Skipped => None,
            }
        }
        Case::WriterCall { matrix, padded, call } => {
            let m = matrix_from_own_alist(matrix)?;
            let sm = m.to_sparse();
            let mut clean = FaultyWriter::new(None, None);
            let _ = write_with(&sm, *padded, &mut clean);
            let mut w = FaultyWriter::new(Some(*call), None);
            match write_with(&sm, *padded, &mut w) {
                Err(p) => Some(Violation::new("writer-panic", format!("writer error at call {}: panic {}", call, p))),
                Ok(Ok(())) if w.fired => Some(Violation::new("writer-swallowed-error", format!("the writer failed at call {} but write_alist returned Ok", call))),
                Ok(_) => {
                    if w.fired {
                        stats.inc("faults_fired/writer error at a write call");
                    }
                    if !clean.out.starts_with(&w.out) {
                        return Some(Violation::new("writer-prefix", format!("after an error at call {} the output is not a prefix of the fault-free text", call)));
                    }
                    None
                }
            }
        }
        Case::WriterBudget { matrix, padded, budget } => {
            let m = matrix_from_own_alist(matrix)?;
            let sm = m.to_sparse();
            let mut clean = FaultyWriter::new(None, None);
            let _ = write_with(&sm, *padded, &mut clean);
            let mut w = FaultyWriter::new(None, Some(*budget));
            match write_with(&sm, *padded, &mut w) {
                Err(p) => Some(Violation::new("writer-panic", format!("byte budget {}: panic {}", budget, p))),
                Ok(Ok(())) if w.fired => Some(Violation::new("writer-swallowed-error", format!("the writer ran out of space after {} bytes but write_alist returned Ok", budget))),
                Ok(_) => {
                    if w.fired {
                        stats.inc("faults_fired/short write then error (byte budget)");
                    }
                    if !clean.out.starts_with(&w.out) {
                        return Some(Violation::new("writer-prefix", format!("with a byte budget of {} the output is not a prefix of the fault-free text", budget)));
                    }
                    None
                }
            }
        }
        Case::Text { text, origin } => match guarded_parse(text) {
            ParseOutcome::Panic(p) => Some(Violation::new("parser-panic", format!("from_alist panicked on a {} text: {}", origin, p))),
            ParseOutcome::Skipped => {
                stats.inc("skipped/declared dimensions above 4096");
                None
            }
            ParseOutcome::Ok(back) => {
                stats.inc("faulted text parsed Ok");
                // "returns a matrix": what comes back must be one — a set of positions, both views
                // agreeing, nothing listed twice — and, being a matrix, must itself round-trip
                // through the writer in the prescribed form (seeded change C08-r5-3: a column
                // list `2 1 2` was accepted with the entry stored twice)
                if let Some(why) = malformed_matrix(&back) {
                    return Some(Violation::new("parser-malformed-matrix", format!("from_alist accepted a {} text and returned an object that is not a matrix: {}", origin, why)));
                }
                let m = BitMat::from_sparse(&back);
                for padded in [true, false] {
                    let mut w = FaultyWriter::new(None, None);
                    match write_with(&back, padded, &mut w) {
                        Ok(Ok(())) => {}
                        _ => return Some(Violation::new("roundtrip", format!("the matrix parsed from a {} text cannot be written ({})", origin, if padded { "padded" } else { "unpadded" }))),
                    }
                    if let Err(e) = check_format(&m, &w.out, padded) {
                        return Some(Violation::new("format", format!("the matrix parsed from a {} text is written in a wrong form ({}): {}", origin, if padded { "padded" } else { "unpadded" }, e)));
                    }
                    match guarded_parse(&w.out) {
                        ParseOutcome::Ok(again) if BitMat::from_sparse(&again) == m => {}
                        ParseOutcome::Skipped => {}
                        _ => return Some(Violation::new("roundtrip", format!("the matrix parsed from a {} text does not survive being written and parsed again", origin))),
                    }
                }
                None
            }
            ParseOutcome::Err => {
                stats.inc("faulted text rejected with Err");
                None
            }
        },
    }
}

/// None if `h` is a proper matrix: no entry listed twice, row view and column view the same set,
/// every index inside the dimensions.
fn malformed_matrix(h: &SparseMatrix) -> Option<String> {
    let (nr, nc) = (h.num_rows(), h.num_cols());
    let mut from_cols = std::collections::BTreeSet::new();
    for j in 0..nc {
        let mut seen = std::collections::BTreeSet::new();
        for &i in h.iter_col(j) {
            if i >= nr {
                return Some(format!("column {} lists row {} of {}", j, i, nr));
            }
            if !seen.insert(i) {
                return Some(format!("column {} lists row {} twice", j, i));
            }
            from_cols.insert((i, j));
        }
        if h.col_weight(j) != seen.len() {
            return Some(format!("column {} has weight {} but {} distinct entries", j, h.col_weight(j), seen.len()));
        }
    }
    let mut from_rows = std::collections::BTreeSet::new();
    for i in 0..nr {
        let mut seen = std::collections::BTreeSet::new();
        for &j in h.iter_row(i) {
            if j >= nc {
                return Some(format!("row {} lists column {} of {}", i, j, nc));
            }
            if !seen.insert(j) {
                return Some(format!("row {} lists column {} twice", i, j));
            }
            from_rows.insert((i, j));
        }
        if h.row_weight(i) != seen.len() {
            return Some(format!("row {} has weight {} but {} distinct entries", i, h.row_weight(i), seen.len()));
        }
    }
    if from_rows != from_cols {
        return Some("the row view and the column view are different sets".to_string());
    }
    None
}

fn subst_char(g: &mut Stream, ch: u8) -> u8 {
    match g.below(6) {
        0 | 1 => b'0' + g.below(10) as u8,
        2 => *g.pick(&[b'a', b'-', b'+', b'.', b'x', 0xC3]),
        3 => {
            if ch == b' ' { b'\n' } else { b' ' }
        }
        4 => b'9',
        _ => *g.pick(&[b'\t', b'\r', b',']),
    }
}

/// All storage-fault variants of one text: (mutated text, origin label).
pub fn storage_faults(g: &mut Stream, text: &str, other: &str, stats: &mut Counters) -> Vec<(String, &'static str)> {
    let mut out: Vec<(String, &'static str)> = Vec::new();
    let bytes = text.as_bytes();
    // truncation at every byte offset
    for cut in 0..bytes.len() {
        out.push((String::from_utf8_lossy(&bytes[..cut]).into_owned(), "truncated"));
    }
    stats.add("faults_fired/truncation at a byte offset", bytes.len() as u64);
    let lines: Vec<&str> = text.split('\n').collect();
    let nl = lines.len() - 1; // last is the empty string after the final newline
    for i in 0..nl {
        let mut v: Vec<&str> = lines.clone();
        v.remove(i);
        out.push((v.join("\n"), "line dropped"));
        let mut v: Vec<&str> = lines.clone();
        v.insert(i, lines[i]);
        out.push((v.join("\n"), "line duplicated"));
        if i + 1 < nl {
            let mut v: Vec<&str> = lines.clone();
            v.swap(i, i + 1);
            out.push((v.join("\n"), "lines swapped"));
        }
    }
    stats.add("faults_fired/line dropped", nl as u64);
    stats.add("faults_fired/line duplicated", nl as u64);
    stats.add("faults_fired/adjacent lines swapped", nl.saturating_sub(1) as u64);
    // sampled character substitutions
    let nsub = 40.min(bytes.len());
    for _ in 0..nsub {
        let p = g.below(bytes.len() as u64) as usize;
        let mut b = bytes.to_vec();
        b[p] = subst_char(g, b[p]);
        out.push((String::from_utf8_lossy(&b).into_owned(), "character substituted"));
    }
    stats.add("faults_fired/character substituted", nsub as u64);
    // an index pushed out of range on purpose (last digit of a random index line -> large)
    for _ in 0..4 {
        if nl > 4 {
            let li = 4 + g.below((nl - 4) as u64) as usize;
            let mut v: Vec<String> = lines.iter().map(|s| s.to_string()).collect();
            let big = *g.pick(&["4097", "13", "99", "18446744073709551615", "18446744073709551616", "4096"]);
            v[li] = if g.chance(1, 2) { format!("{} {}", v[li], big) } else { big.to_string() };
            out.push((v.join("\n"), "index out of range"));
            stats.inc("faults_fired/index out of range");
        }
    }
    // absurd values on the maximum-weight / weight lines (they are not dimensions)
    for _ in 0..6 {
        let li = 1 + g.below(3.min(nl.saturating_sub(1)).max(1) as u64) as usize;
        if li < nl {
            let mut v: Vec<String> = lines.iter().map(|s| s.to_string()).collect();
            let mut toks: Vec<String> = v[li].split(' ').map(|s| s.to_string()).collect();
            if !toks.is_empty() {
                let ti = g.below(toks.len() as u64) as usize;
                toks[ti] = g.pick(&["18446744073709551615", "4611686018427387904", "9223372036854775807", "18446744073709551616", "4294967296", "-1", "99999999999999999999999"]).to_string();
                v[li] = toks.join(" ");
                out.push((v.join("\n"), "absurd weight value"));
                stats.inc("faults_fired/absurd value on a weight line");
            }
        }
    }
    // an index list whose entries are reordered and/or repeated (a merge of two copies of a
    // line, an editor's paste): valid indices, but not the sorted duplicate-free list of the format
    for _ in 0..6 {
        if nl > 4 {
            let li = 4 + g.below((nl - 4) as u64) as usize;
            let toks: Vec<&str> = lines[li].split(' ').filter(|t| !t.is_empty() && *t != "0").collect();
            if toks.is_empty() {
                continue;
            }
            let mut t: Vec<String> = toks.iter().map(|x| x.to_string()).collect();
            match g.below(3) {
                0 => t.reverse(),
                1 => {
                    // first entry again at the end: a repeat that is not adjacent unless the list has one entry
                    t.push(t[0].clone());
                }
                _ => {
                    let a = g.below(t.len() as u64) as usize;
                    let x = t[a].clone();
                    let b = g.below(t.len() as u64 + 1) as usize;
                    t.insert(b, x);
                }
            }
            let mut v: Vec<String> = lines.iter().map(|s| s.to_string()).collect();
            v[li] = t.join(" ");
            out.push((v.join("\n"), "index list reordered or with a repeated entry"));
            stats.inc("faults_fired/index list reordered or with a repeated entry");
        }
    }
    // numbers spelled unusually (what `usize::from_str` accepts: leading zeros, a leading +), also
    // for the padding zeros; a multi-byte character somewhere; a very long line (an error message
    // that quotes part of the line must cut it at a character boundary: seeded change C08-r6-1)
    for _ in 0..8 {
        let mut v: Vec<String> = lines.iter().map(|s| s.to_string()).collect();
        if nl == 0 {
            break;
        }
        let li = g.below(nl as u64) as usize;
        let mut toks: Vec<String> = v[li].split(' ').map(|s| s.to_string()).collect();
        match g.below(4) {
            0 | 1 => {
                if let Some(ti) = (0..toks.len()).filter(|&i| !toks[i].is_empty()).nth(0).map(|f| f + g.below((toks.len() - f) as u64) as usize) {
                    if toks[ti].chars().all(|c| c.is_ascii_digit()) && !toks[ti].is_empty() {
                        toks[ti] = format!("{}{}", g.pick(&["0", "00", "+", "+0", "000000"]), toks[ti]);
                    }
                }
                v[li] = toks.join(" ");
                out.push((v.join("\n"), "number with a leading + or leading zeros"));
                stats.inc("faults_fired/number spelled with a leading + or zeros");
            }
            2 => {
                let ch = *g.pick(&["é", "€", "𝄞", "ß", "\u{a0}"]);
                let pad = " 0".repeat(g.below(24) as usize);
                let at = g.below(toks.len() as u64 + 1) as usize;
                toks.insert(at, format!("{}{}", if g.chance(1, 2) { "1" } else { "" }, ch));
                v[li] = format!("{}{}", toks.join(" "), pad);
                out.push((v.join("\n"), "multi-byte character in a line"));
                stats.inc("faults_fired/multi-byte character in a line");
            }
            _ => {
                let filler = "1 ".repeat(10 + g.below(20) as usize);
                let ch = *g.pick(&["é", "x", "€", "-1"]);
                v[li] = format!("{}{}{} {}", filler, if g.chance(1, 2) { "1" } else { "" }, ch, v[li]);
                out.push((v.join("\n"), "long line with a bad token"));
                stats.inc("faults_fired/long line with a bad token");
            }
        }
    }
    out.push((text.replace('\n', "\r\n"), "CRLF"));
    stats.inc("faults_fired/CRLF line ends");
    out.push((format!("{}garbage 1 2 3\n\u{0}\u{1}", text), "trailing garbage"));
    stats.inc("faults_fired/trailing garbage");
    // torn write: head of this text + tail of another
    for _ in 0..6 {
        let a = g.below(bytes.len() as u64 + 1) as usize;
        let ob = other.as_bytes();
        let b = g.below(ob.len() as u64 + 1) as usize;
        let mut t = bytes[..a].to_vec();
        t.extend_from_slice(&ob[b..]);
        out.push((String::from_utf8_lossy(&t).into_owned(), "torn write"));
    }
    stats.add("faults_fired/torn write", 6);
    out
}

/// The same numbers on the same lines, separated differently: CR LF line ends, tabs, runs of
/// blanks, blanks at the ends (and, on column and row lines, at the beginning) of lines.
fn whitespace_rendering(plain: &str, seed: u64) -> (String, String) {
    let mut g = Stream::new(seed, "c08-ws");
    let style = g.below(5);
    let how = [" with CR LF line ends", " with tabs between the numbers", " with runs of blanks between the numbers", " with blanks at the ends of the lines", " with CR LF, tabs and blanks mixed"][style as usize];
    let mut out = String::new();
    for line in plain.split_inclusive('\n') {
        let (body, nl) = match line.strip_suffix('\n') {
            Some(b) => (b, true),
            None => (line, false),
        };
        let toks: Vec<&str> = body.split(' ').filter(|t| !t.is_empty()).collect();
        let sep = |g: &mut Stream| -> String {
            match style {
                1 => "\t".to_string(),
                2 => " ".repeat(1 + g.below(4) as usize),
                4 => (*g.pick(&[" ", "\t", "  ", " \t", "\t "])).to_string(),
                _ => " ".to_string(),
            }
        };
        for (i, t) in toks.iter().enumerate() {
            if i > 0 {
                out.push_str(&sep(&mut g));
            }
            out.push_str(t);
        }
        if (style == 3 || style == 4) && g.chance(1, 2) {
            out.push_str(*g.pick(&[" ", "  ", "\t"]));
        }
        if nl {
            out.push_str(if style == 0 || (style == 4 && g.chance(1, 2)) { "\r\n" } else { "\n" });
        }
    }
    (out, how.to_string())
}

fn token_soup(g: &mut Stream) -> String {
    let n = g.below(40) as usize;
    let mut s = String::new();
    for _ in 0..n {
        match g.below(10) {
            0..=4 => s.push_str(&g.below(14).to_string()),
            5 => s.push_str(&g.below(5000).to_string()),
            6 => s.push_str(*g.pick(&["-1", "abc", "1e3", "", "0x10", "+2", "18446744073709551616"])),
            _ => s.push_str("0"),
        }
        s.push(if g.chance(1, 4) { '\n' } else { ' ' });
    }
    s
}

pub fn replay(body: &Value, path: &str) -> ! {
    let case = Case::from_json(&body["case"]).unwrap_or_else(|| harness_error("bad C08 replay"));
    match eval_case(&case, &mut Counters::default()) {
        Some(v) => {
            println!("VIOLATION property=C08 replay={}", path);
            println!("  kind={} detail={}", v.kind, v.detail);
            std::process::exit(1)
        }
        None => {
            println!("NOT-REPRODUCED property=C08 replay={}", path);
            std::process::exit(0)
        }
    }
}

/// Shrink a failing text case: fewer lines, shorter lines.
fn minimise_text(text: &str, kind: &str) -> String {
    let fails = |t: &str| eval_case(&Case::Text { text: t.to_string(), origin: "minimised".into() }, &mut Counters::default()).is_some_and(|v| v.kind == kind);
    let mut cur = text.to_string();
    // drop lines, then tokens, while the same kind of violation persists
    loop {
        let lines: Vec<String> = cur.split('\n').map(|s| s.to_string()).collect();
        let mut next: Option<String> = None;
        'search: for i in (0..lines.len()).rev() {
            let mut v = lines.clone();
            v.remove(i);
            let cand = v.join("\n");
            if cand.len() < cur.len() && fails(&cand) {
                next = Some(cand);
                break 'search;
            }
            let toks: Vec<&str> = lines[i].split(' ').collect();
            if toks.len() > 1 {
                for ti in 0..toks.len() {
                    let mut t2 = toks.clone();
                    t2.remove(ti);
                    let mut v = lines.clone();
                    v[i] = t2.join(" ");
                    let cand = v.join("\n");
                    if fails(&cand) {
                        next = Some(cand);
                        break 'search;
                    }
                }
            }
        }
        match next {
            Some(n) => cur = n,
            None => break,
        }
    }
    cur
}

pub fn main(opts: &Opts) -> ! {
    let t0 = std::time::Instant::now();
    let (n, budget) = match opts.tier {
        Tier::Quick => ((8000.0 * opts.scale) as u64, 200.0),
        Tier::Thorough => ((200_000.0 * opts.scale) as u64, 2400.0),
    };
    struct Acc {
        counters: Counters,
        failures: Vec<(u64, Case, Violation)>,
        distinct: BTreeSet<u64>,
        samples: Vec<Value>,
        cases: u64,
    }
    let acc = Mutex::new(Acc { counters: Counters::default(), failures: vec![], distinct: BTreeSet::new(), samples: vec![], cases: 0 });
    let stop = AtomicBool::new(false);
    let deadline = Some(t0 + std::time::Duration::from_secs_f64(budget));
    let seed = opts.seed;
    set_watch(Watch { property: "C08", limit_s: 300, describe: Box::new(move |i| format!("writer/parser cases of the matrix {:?}", gen_matrix(seed, i).to_alist())) });
    let done = par_map(n, opts.threads, deadline, &stop, |i| {
        let m = gen_matrix(opts.seed, i);
        let other = gen_matrix(opts.seed, i + 1);
        let own = m.to_alist();
        let mut g = Stream::new(keyed(opts.seed, &[i, 7]), "c08-faults");
        let mut c = Counters::default();
        let mut fails: Vec<(Case, Violation)> = Vec::new();
        let mut ncases = 0u64;
        let mut run = |case: Case, c: &mut Counters, fails: &mut Vec<(Case, Violation)>| {
            ncases += 1;
            if let Some(v) = eval_case(&case, c) {
                if fails.len() < 4 && !fails.iter().any(|(_, w)| w.kind == v.kind) {
                    fails.push((case, v));
                }
            }
        };
        for padded in [true, false] {
            run(Case::RoundTrip { matrix: own.clone(), padded, shuffle: 0 }, &mut c, &mut fails);
            run(Case::RoundTrip { matrix: own.clone(), padded, shuffle: 1 + g.next() % 1_000_000 }, &mut c, &mut fails);
            run(Case::RoundTrip { matrix: own.clone(), padded, shuffle: (1 << 40) + g.next() % 1_000_000 }, &mut c, &mut fails);
            run(Case::OwnText { matrix: own.clone(), padded, ws: 0 }, &mut c, &mut fails);
            for _ in 0..3 {
                run(Case::OwnText { matrix: own.clone(), padded, ws: 1 + g.next() % 1_000_000 }, &mut c, &mut fails);
            }
            // writer faults: every write call, every byte budget
            let sm = m.to_sparse();
            let mut clean = FaultyWriter::new(None, None);
            let wrote = write_with(&sm, padded, &mut clean);
            if matches!(wrote, Ok(Ok(()))) {
                for call in 0..clean.calls {
                    run(Case::WriterCall { matrix: own.clone(), padded, call }, &mut c, &mut fails);
                }
                for b in 0..clean.out.len() {
                    run(Case::WriterBudget { matrix: own.clone(), padded, budget: b }, &mut c, &mut fails);
                }
            }
            // storage faults on the harness's own text of this form (independent of the writer)
            let text = if padded { own.clone() } else { own_unpadded(&m) };
            let other_text = if padded { other.to_alist() } else { own_unpadded(&other) };
            for (t, origin) in storage_faults(&mut g, &text, &other_text, &mut c) {
                run(Case::Text { text: t, origin: origin.to_string() }, &mut c, &mut fails);
            }
        }
        for _ in 0..20 {
            run(Case::Text { text: token_soup(&mut g), origin: "token soup".into() }, &mut c, &mut fails);
            c.inc("faults_fired/random token soup");
        }
        let mut a = acc.lock().unwrap();
        a.counters.merge(&c);
        a.cases += ncases;
        a.distinct.insert(hash_str(&own));
        if a.samples.len() < 2 && i < 40 && m.r > 1 && m.c > 1 {
            a.samples.push(json!({"matrix_alist": own, "fault_points": ncases}));
        }
        for (case, v) in fails {
            if a.failures.len() < 200 {
                a.failures.push((i, case, v));
            }
        }
    });
    let a = acc.into_inner().unwrap();
    eprintln!("[C08] {} matrices, {} cases, {} failures, {:.1}s", done.len(), a.cases, a.failures.len(), t0.elapsed().as_secs_f64());
    let known = KnownFindings::load();
    let mut violations = Vec::new();
    let mut known_out = Vec::new();
    let mut seen = BTreeSet::new();
    for (i, case, v) in &a.failures {
        let class = match case {
            Case::Text { .. } => format!("{}|text", v.kind),
            _ => format!("{}|matrix", v.kind),
        };
        if !seen.insert(class.clone()) || violations.len() >= 4 {
            continue;
        }
        if let Some(d) = known.matches("C08", &class) {
            known_out.push(format!("{} ({})", class, d));
            continue;
        }
        let (case, v) = match case {
            Case::Text { text, origin } => {
                let t = minimise_text(text, &v.kind);
                let c = Case::Text { text: t, origin: origin.clone() };
                let v2 = eval_case(&c, &mut Counters::default()).unwrap_or(v.clone());
                (c, v2)
            }
            other => (other.clone(), v.clone()),
        };
        let mut body = json!({
            "property": "C08", "engine": "alistsim", "seed": opts.seed, "run": i,
            "case": case.to_json(),
            "violation": {"kind": v.kind, "detail": v.detail},
            "replay_verified": false,
        });
        let path = write_replay("C08", opts.seed, *i * 10 + violations.len() as u64, &body);
        let ok = verify_replay_fresh(&path);
        body["replay_verified"] = json!(ok);
        write_replay("C08", opts.seed, *i * 10 + violations.len() as u64, &body);
        violations.push((path, v.kind.clone(), v.detail.clone()));
    }
    let mut extra = serde_json::Map::new();
    extra.insert("matrices".into(), json!(done.len()));
    extra.insert("fault_points_evaluated".into(), json!(a.cases));
    extra.insert("faults_fired".into(), a.counters.group("faults_fired"));
    extra.insert("skipped".into(), a.counters.group("skipped"));
    let mut probes = serde_json::Map::new();
    for (k, v) in &a.counters.0 {
        if !k.contains('/') {
            probes.insert(k.clone(), json!(v));
        }
    }
    extra.insert("probes".into(), Value::Object(probes));
    extra.insert("runs_per_hour".into(), json!((done.len() as f64 / t0.elapsed().as_secs_f64() * 3600.0) as u64));
    extra.insert("exhaustive_per_text".into(), json!("writer error at every write call; byte budget at every length; truncation at every byte offset; every line dropped / duplicated / swapped with its neighbour. Sampled: character substitution, out-of-range index, torn write, token soup; CRLF and trailing garbage once per text"));
    extra.insert("components".into(), json!({"real": ["SparseMatrix::{write_alist, write_alist_no_padding, alist, alist_no_padding, from_alist}"], "stub": ["the fmt::Write sink (FaultyWriter)", "storage (in-memory text with injected damage)"]}));
    Evidence {
        property_id: "C08".into(),
        tier: opts.tier,
        seed: opts.seed,
        level: "fault_enumeration",
        evaluations: a.cases,
        distinct_nontrivial: a.distinct.len() as u64,
        rule: "matrices 1x1..12x12 of every density (all-zero, empty rows/columns, full) are sampled; per matrix and per writer (padded/unpadded) the fault points listed under exhaustive_per_text are enumerated; evaluations = fault points + fault-free round trips; distinct_nontrivial = distinct matrices".into(),
        samples: a.samples.clone(),
        extra,
        assumptions: vec![
            "texts whose header declares more than 4096 rows or columns are skipped ('moderate declared dimensions') and counted".into(),
            "whitespace inside a line is not compared; for a direction of maximum weight 0 an empty line or a single 0 is accepted".into(),
        ],
        wall_s: t0.elapsed().as_secs_f64(),
        violations: violations.len() as u64,
    }
    .write();
    Verdict { property: "C08".into(), violations, known: known_out }.finish()
}
