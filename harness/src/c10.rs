//! C10 — a decoder object carries no state from one frame to the next.

use crate::bersim::*;
use crate::c13::{base_cfg, gen_chain, FaultClass};
use crate::campaign::*;
use crate::common::*;
use crate::gf2::*;
use crate::hist::*;
use dstsim::{RunResult, Stream, keyed};
use serde_json::{Value, json};
use std::collections::BTreeSet;
use std::sync::Mutex;
use std::sync::atomic::AtomicBool;

/// BER-engine population: a real decoder lives in each simulated worker for a whole Eb/N0
/// point and is compared per frame with a fresh one.
pub fn generate_ber(seed: u64, run: u64) -> BerCfg {
    let names = all_decoder_names();
    let mut g = Stream::new(keyed(seed, &[run]), "c10-ber-config");
    let name = names[(run % names.len() as u64) as usize].clone();
    let (k, r) = loop {
        let n = *g.pick(&[6usize, 8, 9, 10, 12, 12, 15, 16, 18, 20]);
        let r = 2 + g.below(7.min(n as u64 - 2)) as usize;
        if n > r && n - r >= 2 {
            break (n - r, r);
        }
    };
    let tail = if g.chance(1, 2) { Tail::Staircase } else { Tail::Invertible };
    let h = random_code(&mut g, k, r, tail, 2);
    let mut cfg = base_cfg(&mut g, seed, run, h);
    cfg.factory = FactoryKind::Diff(name);
    cfg.workers = *g.pick(&[1usize, 2, 2, 3, 4]);
    cfg.max_frame_errors = *g.pick(&[2u64, 3, 5, 10, 20]);
    cfg.max_iterations = *g.pick(&[0usize, 0, 1, 3, 10]);
    cfg.reporter_interval_ns = None;
    for _ in 0..20 {
        gen_chain(&mut g, &mut cfg, true, FaultClass::None);
        if !cfg.stage_error() && !cfg.stage_panic() {
            break;
        }
    }
    let np = *g.pick(&[1usize, 2]);
    let base = g.f64() as f32 * 6.0;
    cfg.ebn0s_db = (0..np).map(|i| base + 1.0 * i as f32).collect();
    // low Eb/N0 + few iterations: frame errors are frequent, runs stay short; keep a bound anyway
    cfg.max_steps = 2_000_000;
    cfg
}

pub fn oracle_ber(cfg: &BerCfg, obs: &BerObs) -> (Vec<Violation>, OracleStats) {
    let mut v = Vec::new();
    let mut st = OracleStats { probes: Counters::default(), frames_total: 0, chain_skipped: false };
    if !matches!(obs.outcome.result, RunResult::Done(_)) {
        // termination is C13's; with real decoders at high Eb/N0 a run may also just be long
        st.probes.inc(&format!("not judged: run ended with {}", obs.outcome.result.kind()));
        st.chain_skipped = true;
    }
    let mut prev_failed: std::collections::BTreeMap<(i64, i64), bool> = Default::default();
    for ev in &obs.outcome.events {
        if let dstsim::Ev::User { tag: "diff-frame", vals } = &ev.ev {
            st.frames_total += 1;
            let key = (vals[0], vals[1]);
            if vals[3] == 0 {
                let llrs = obs.llrs.iter().find(|x| x.0 as i64 == vals[0] && x.1 as i64 == vals[1] && x.2 as i64 == vals[2]);
                v.push(Violation::new(
                    "state-carried",
                    format!(
                        "decoder {:?} in worker {} of point {}: frame {} decoded differently from a fresh decoder (limit {}); llrs = {:?}",
                        cfg.factory, vals[1], vals[0], vals[2], cfg.max_iterations, llrs.map(|x| &x.3)
                    ),
                ));
            }
            if vals[4] == 0 {
                st.probes.inc("failed frame inside a worker");
            }
            if prev_failed.get(&key) == Some(&true) {
                st.probes.inc("frame decoded right after a failed frame (same worker)");
                if cfg.max_iterations == 0 {
                    st.probes.inc("limit-0 call after failure (worker)");
                }
            }
            prev_failed.insert(key, vals[4] == 0);
        }
    }
    (v, st)
}

pub fn replay_history(body: &Value, path: &str) -> ! {
    let (name, h, calls) = decode_history_from_json(&body["history"]).unwrap_or_else(|e| harness_error(&format!("bad replay: {}", e)));
    match run_decode_history(&name, &h, &calls, &mut Counters::default()) {
        Some((_, d)) => {
            println!("VIOLATION property=C10 replay={}", path);
            println!("  kind=state-carried detail={}", d);
            std::process::exit(1)
        }
        None => {
            println!("NOT-REPRODUCED property=C10 replay={}", path);
            std::process::exit(0)
        }
    }
}

pub fn main(opts: &Opts) -> ! {
    let t0 = std::time::Instant::now();
    let names = all_decoder_names();
    if names.len() != 36 {
        harness_error(&format!("expected 36 decoder implementations, found {}", names.len()));
    }
    let (per_name, ber_runs, budget) = match opts.tier {
        Tier::Quick => ((600.0 * opts.scale) as u64, (2160.0 * opts.scale) as u64, 200.0),
        Tier::Thorough => ((20_000.0 * opts.scale) as u64, (20_000.0 * opts.scale) as u64, 2400.0),
    };
    // ---- (a) stand-alone histories ------------------------------------------
    let total = per_name * names.len() as u64;
    let stop = AtomicBool::new(false);
    struct Acc {
        counters: Counters,
        failures: Vec<(u64, String, String)>,
        distinct: BTreeSet<u64>,
        samples: Vec<Value>,
        calls: u64,
    }
    let acc = Mutex::new(Acc { counters: Counters::default(), failures: vec![], distinct: BTreeSet::new(), samples: vec![], calls: 0 });
    let deadline = Some(t0 + std::time::Duration::from_secs_f64(budget));
    {
        let (seed, names) = (opts.seed, names.clone());
        set_watch(Watch {
            property: "C10",
            limit_s: 300,
            describe: Box::new(move |i| {
                let name = &names[(i % names.len() as u64) as usize];
                format!("decode history {} of implementation {}", i / names.len() as u64, name)
            }),
        });
        let _ = seed;
    }
    let done = par_map(total, opts.threads, deadline, &stop, |i| {
        let name = &names[(i % names.len() as u64) as usize];
        let idx = i / names.len() as u64;
        let hst = gen_decode_history(opts.seed, name, idx);
        let mut c = Counters::default();
        let r = run_decode_history(&hst.name, &hst.h, &hst.calls, &mut c);
        let mut a = acc.lock().unwrap();
        a.counters.merge(&c);
        a.calls += hst.calls.len() as u64;
        a.distinct.insert(hash_str(&decode_history_json(&hst.name, &hst.h, &hst.calls).to_string()));
        if a.samples.len() < 2 && i < 40 {
            let mut j = decode_history_json(&hst.name, &hst.h, &hst.calls[..hst.calls.len().min(3)]);
            j["note"] = json!("first calls of one generated history");
            if let Some(cs) = j["calls"].as_array_mut() {
                for c in cs {
                    c.as_object_mut().unwrap().remove("llr_bits");
                }
            }
            a.samples.push(j);
        }
        if let Some((_, d)) = r {
            if a.failures.len() < 100 {
                a.failures.push((i, name.clone(), d));
            }
        }
    });
    let n_hist = done.len() as u64;
    let a = acc.into_inner().unwrap();
    eprintln!("[C10a] {} histories, {} calls, {} failures, {:.1}s", n_hist, a.calls, a.failures.len(), t0.elapsed().as_secs_f64());
    let known = KnownFindings::load();
    let mut violations: Vec<(String, String, String)> = Vec::new();
    let mut known_out = Vec::new();
    let mut seen_names = BTreeSet::new();
    for (i, name, _d) in &a.failures {
        // one report per schedule family (flooding / layered), the first few
        let fam = if name.starts_with("HL") { "layered" } else { "flooding" };
        if !seen_names.insert(fam) {
            continue;
        }
        let idx = i / names.len() as u64;
        let hst = gen_decode_history(opts.seed, name, idx);
        let min = minimise_decode_history(&hst.name, &hst.h, &hst.calls);
        let (_, d) = run_decode_history(&hst.name, &hst.h, &min, &mut Counters::default()).unwrap_or((0, "minimised history no longer fails".into()));
        let sig = format!("state-carried|{}|calls={}|limits={:?}", fam, min.len(), min.iter().map(|c| c.limit).collect::<Vec<_>>());
        if let Some(desc) = known.matches("C10", &sig) {
            known_out.push(format!("{} ({})", sig, desc));
            continue;
        }
        let mut body = json!({
            "property": "C10", "engine": "histsim-decode", "seed": opts.seed, "run": i,
            "history": decode_history_json(&hst.name, &hst.h, &min),
            "violation": {"kind": "state-carried", "detail": d},
            "signature": sig,
            "replay_verified": false,
        });
        let path = write_replay("C10", opts.seed, *i, &body);
        let ok = verify_replay_fresh(&path);
        body["replay_verified"] = json!(ok);
        write_replay("C10", opts.seed, *i, &body);
        violations.push((path, "state-carried".into(), d));
    }
    // ---- (b) inside simulated BER workers -----------------------------------
    let oracle = |c: &BerCfg, o: &BerObs| oracle_ber(c, o);
    let remaining = (budget - t0.elapsed().as_secs_f64()).max(20.0);
    let res = run_campaign(opts, "C10b", ber_runs, 3, remaining, &generate_ber, &oracle);
    if let Some(m) = &res.determinism_mismatch {
        if res.failures.is_empty() && violations.is_empty() {
            harness_error(&format!("determinism re-check failed: {}", m));
        }
        eprintln!("note: the determinism re-check also failed ({}): with violations at hand this is taken as their consequence — state in the code under test that outlives a run — and not as a defect of the harness", m);
    }
    let (v2, k2) = triage("C10", opts.seed, &res.failures, &oracle, 2);
    violations.extend(v2);
    known_out.extend(k2);

    let mut extra = serde_json::Map::new();
    extra.insert("histories".into(), json!(n_hist));
    extra.insert("decode_calls".into(), json!(a.calls));
    extra.insert("implementations".into(), json!(names.len()));
    extra.insert("llr_families".into(), a.counters.group("family"));
    extra.insert("skipped".into(), a.counters.group("skipped"));
    let mut probes = serde_json::Map::new();
    for (k, v) in a.counters.0.iter().chain(res.counters.0.iter()) {
        if !k.contains('/') && k != "frames" && k != "judged" {
            probes.insert(k.clone(), json!(v));
        }
    }
    extra.insert("probes".into(), Value::Object(probes));
    extra.insert("ber_runs".into(), json!(res.runs));
    extra.insert("ber_frames_compared".into(), json!(res.counters.get("frames")));
    extra.insert("ber_distinct_interleavings".into(), json!(res.distinct_interleavings));
    extra.insert("ber_scheduler_mix".into(), res.counters.group("scheduler_mix"));
    extra.insert("determinism_rechecks".into(), json!(res.determinism_rechecks));
    extra.insert("runs_per_hour".into(), json!(((n_hist + res.runs) as f64 / t0.elapsed().as_secs_f64() * 3600.0) as u64));
    extra.insert("sim_time_s".into(), json!(res.sim_time_ns as f64 * 1e-9));
    extra.insert("faults_fired".into(), json!({"note": "no fault applies to a decoder object; the adverse operations are failed frames, limit 0 and limit changes (see probes)", "ber": res.counters.group("faults_fired")}));
    extra.insert("stub_conformance".into(), stub_conformance());
    extra.insert("components".into(), json!({
        "real": ["DecoderImplementation::{from_str, build_decoder}", "flooding::Decoder", "horizontal_layered::Decoder", "all 24 arithmetics", "BER engine (part b)"],
        "stub": ["threads/channels/clock/RNG source of the BER engine (part b, dstsim)"],
    }));
    Evidence {
        property_id: "C10".into(),
        tier: opts.tier,
        seed: opts.seed,
        level: "exploration",
        evaluations: n_hist + res.runs,
        distinct_nontrivial: a.distinct.len() as u64 + res.distinct_configs,
        rule: "part a: one evaluation = one generated history of 2..20 decode calls on one long-lived decoder (all 36 names round-robin), compared call by call with a decoder built fresh for that call; distinct = distinct (name, H, calls). part b: one evaluation = one simulated BER run with the named real decoder living in each worker, each frame compared with a fresh decoder".into(),
        samples: a.samples.clone(),
        extra,
        assumptions: vec![
            "the reference model is the same implementation built fresh: a defect that is independent of history is invisible here (C01/C03/C18 territory)".into(),
            "histories in which both decoders panic on the same call are skipped and counted".into(),
        ],
        wall_s: t0.elapsed().as_secs_f64(),
        violations: violations.len() as u64,
    }
    .write();
    Verdict { property: "C10".into(), violations, known: known_out }.finish()
}
