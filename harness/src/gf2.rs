//! The harness's own GF(2) algebra and small-code generators (independent of ldpc-toolbox's
//! `linalg`/`encoder`, which are under test).

use dstsim::Stream;
use ldpc_toolbox::sparse::SparseMatrix;

/// Dense binary matrix, one byte per entry (sizes here are tiny).
#[derive(Clone, Debug, PartialEq)]
pub struct BitMat {
    pub r: usize,
    pub c: usize,
    pub a: Vec<Vec<u8>>,
}

impl BitMat {
    pub fn zeros(r: usize, c: usize) -> BitMat {
        BitMat { r, c, a: vec![vec![0; c]; r] }
    }
    pub fn from_sparse(h: &SparseMatrix) -> BitMat {
        let mut m = BitMat::zeros(h.num_rows(), h.num_cols());
        for i in 0..h.num_rows() {
            for &j in h.iter_row(i) {
                m.a[i][j] ^= 1;
            }
        }
        m
    }
    pub fn to_sparse(&self) -> SparseMatrix {
        let mut h = SparseMatrix::new(self.r, self.c);
        for i in 0..self.r {
            for j in 0..self.c {
                if self.a[i][j] == 1 {
                    h.insert(i, j);
                }
            }
        }
        h
    }
    /// Same matrix, but the ones are inserted in a seeded random order (the internal lists of
    /// SparseMatrix keep insertion order, which the alist writer must not leak).
    /// The same matrix reached by a detour through every mutator: a junk matrix with a unique
    /// heaviest row and column is built first, then every row is brought to its target by a
    /// seeded choice of set_row / clear_row + insert_row / single-entry fixes, then some columns
    /// are re-set with set_col / clear_col + insert_col. The final set of ones is exactly `self`;
    /// what differs is the history (and with it any cached or incrementally maintained state).
    pub fn to_sparse_via_history(&self, seed: u64) -> SparseMatrix {
        let mut g = Stream::new(seed, "c08-detour");
        let mut h = SparseMatrix::new(self.r, self.c);
        let (hr, hc) = (g.below(self.r as u64) as usize, g.below(self.c as u64) as usize);
        for i in 0..self.r {
            for j in 0..self.c {
                if i == hr || j == hc || g.chance(1, 3) {
                    h.insert(i, j);
                }
            }
        }
        let mut rows: Vec<usize> = (0..self.r).collect();
        for i in (1..rows.len()).rev() {
            rows.swap(i, g.below(i as u64 + 1) as usize);
        }
        for &i in &rows {
            let target: Vec<usize> = (0..self.c).filter(|&j| self.a[i][j] == 1).collect();
            match g.below(4) {
                0 => h.set_row(i, target.iter()),
                1 => {
                    h.clear_row(i);
                    h.insert_row(i, target.iter().rev());
                }
                2 => {
                    for j in 0..self.c {
                        if h.contains(i, j) != (self.a[i][j] == 1) {
                            h.toggle(i, j);
                        }
                    }
                }
                _ => {
                    for j in 0..self.c {
                        if self.a[i][j] == 1 {
                            h.insert(i, j);
                        } else {
                            h.remove(i, j);
                        }
                    }
                }
            }
        }
        for j in 0..self.c {
            let target: Vec<usize> = (0..self.r).filter(|&i| self.a[i][j] == 1).collect();
            match g.below(4) {
                0 => h.set_col(j, target.iter()),
                1 => {
                    h.clear_col(j);
                    h.insert_col(j, target.iter());
                }
                _ => {}
            }
        }
        h
    }

    pub fn to_sparse_shuffled(&self, seed: u64) -> SparseMatrix {
        let mut pos: Vec<(usize, usize)> = Vec::new();
        for i in 0..self.r {
            for j in 0..self.c {
                if self.a[i][j] == 1 {
                    pos.push((i, j));
                }
            }
        }
        let mut g = Stream::new(seed, "shuffle");
        for i in (1..pos.len()).rev() {
            let j = g.below(i as u64 + 1) as usize;
            pos.swap(i, j);
        }
        let mut h = SparseMatrix::new(self.r, self.c);
        for (i, j) in pos {
            h.insert(i, j);
        }
        h
    }
    /// alist text written by the harness itself (padded form)
    pub fn to_alist(&self) -> String {
        let cols: Vec<Vec<usize>> = (0..self.c)
            .map(|j| (0..self.r).filter(|&i| self.a[i][j] == 1).map(|i| i + 1).collect())
            .collect();
        let rows: Vec<Vec<usize>> = (0..self.r)
            .map(|i| (0..self.c).filter(|&j| self.a[i][j] == 1).map(|j| j + 1).collect())
            .collect();
        let mc = cols.iter().map(|v| v.len()).max().unwrap_or(0);
        let mr = rows.iter().map(|v| v.len()).max().unwrap_or(0);
        let mut s = format!("{} {}\n{} {}\n", self.c, self.r, mc, mr);
        s.push_str(&cols.iter().map(|v| v.len().to_string()).collect::<Vec<_>>().join(" "));
        s.push('\n');
        s.push_str(&rows.iter().map(|v| v.len().to_string()).collect::<Vec<_>>().join(" "));
        s.push('\n');
        for (list, m) in cols.iter().map(|v| (v, mc)).chain(rows.iter().map(|v| (v, mr))) {
            let mut toks: Vec<String> = list.iter().map(|x| x.to_string()).collect();
            while toks.len() < m.max(1) {
                toks.push("0".into());
            }
            s.push_str(&toks.join(" "));
            s.push('\n');
        }
        s
    }
    pub fn rank(&self) -> usize {
        let mut m = self.a.clone();
        let mut rank = 0;
        for col in 0..self.c {
            if rank == self.r {
                break;
            }
            if let Some(p) = (rank..self.r).find(|&i| m[i][col] == 1) {
                m.swap(rank, p);
                for i in 0..self.r {
                    if i != rank && m[i][col] == 1 {
                        for j in 0..self.c {
                            m[i][j] ^= m[rank][j];
                        }
                    }
                }
                rank += 1;
            }
        }
        rank
    }
    pub fn mul_vec(&self, v: &[u8]) -> Vec<u8> {
        self.a
            .iter()
            .map(|row| row.iter().zip(v).fold(0u8, |acc, (a, b)| acc ^ (a & b)))
            .collect()
    }
    /// syndrome is zero
    pub fn is_codeword(&self, c: &[u8]) -> bool {
        c.len() == self.c && self.mul_vec(c).iter().all(|&x| x == 0)
    }
    pub fn sub_cols(&self, from: usize, to: usize) -> BitMat {
        BitMat { r: self.r, c: to - from, a: self.a.iter().map(|r| r[from..to].to_vec()).collect() }
    }
    pub fn row_weight(&self, i: usize) -> usize {
        self.a[i].iter().filter(|&&x| x == 1).count()
    }
    pub fn col_weight(&self, j: usize) -> usize {
        (0..self.r).filter(|&i| self.a[i][j] == 1).count()
    }
}

/// Solve A x = b over GF(2); returns one solution and the dimension of the solution space,
/// or None if inconsistent.
pub fn solve(a: &BitMat, b: &[u8]) -> Option<(Vec<u8>, usize)> {
    let (r, c) = (a.r, a.c);
    let mut m: Vec<Vec<u8>> = a.a.iter().zip(b).map(|(row, &bi)| {
        let mut v = row.clone();
        v.push(bi);
        v
    }).collect();
    let mut piv_cols = Vec::new();
    let mut rank = 0;
    for col in 0..c {
        if rank == r {
            break;
        }
        if let Some(p) = (rank..r).find(|&i| m[i][col] == 1) {
            m.swap(rank, p);
            for i in 0..r {
                if i != rank && m[i][col] == 1 {
                    for j in 0..=c {
                        m[i][j] ^= m[rank][j];
                    }
                }
            }
            piv_cols.push(col);
            rank += 1;
        }
    }
    for row in m.iter().skip(rank) {
        if row[c] == 1 {
            return None;
        }
    }
    let mut x = vec![0u8; c];
    for (i, &pc) in piv_cols.iter().enumerate() {
        x[pc] = m[i][c];
    }
    Some((x, c - rank))
}

/// The harness's systematic encoder: parity = P m with P = H1^-1 H0; None if H1 singular.
#[derive(Clone, Debug)]
pub struct RefEncoder {
    pub k: usize,
    pub r: usize,
    /// r x k
    pub p: BitMat,
}

impl RefEncoder {
    pub fn new(h: &BitMat) -> Option<RefEncoder> {
        let (r, n) = (h.r, h.c);
        if n < r {
            return None;
        }
        let k = n - r;
        // [H1 | H0] -> [I | H1^-1 H0]
        let mut m: Vec<Vec<u8>> = h
            .a
            .iter()
            .map(|row| {
                let mut v = row[k..].to_vec();
                v.extend_from_slice(&row[..k]);
                v
            })
            .collect();
        for col in 0..r {
            let p = (col..r).find(|&i| m[i][col] == 1)?;
            m.swap(col, p);
            for i in 0..r {
                if i != col && m[i][col] == 1 {
                    for j in 0..n {
                        m[i][j] ^= m[col][j];
                    }
                }
            }
        }
        let p = BitMat { r, c: k, a: m.iter().map(|row| row[r..].to_vec()).collect() };
        Some(RefEncoder { k, r, p })
    }
    pub fn encode(&self, msg: &[u8]) -> Vec<u8> {
        let mut c = msg.to_vec();
        c.extend(self.p.mul_vec(msg));
        c
    }
}

// ---------------------------------------------------------------------------
// generators
// ---------------------------------------------------------------------------

/// Random invertible r x r matrix.
pub fn random_invertible(rng: &mut Stream, r: usize) -> BitMat {
    loop {
        let mut m = BitMat::zeros(r, r);
        // product-free construction: start from identity and apply random row operations
        for i in 0..r {
            m.a[i][i] = 1;
        }
        let ops = rng.below(3 * r as u64 + 1);
        for _ in 0..ops {
            let i = rng.below(r as u64) as usize;
            let j = rng.below(r as u64) as usize;
            if i != j {
                for c in 0..r {
                    let v = m.a[j][c];
                    m.a[i][c] ^= v;
                }
            }
        }
        // random column permutation
        let mut perm: Vec<usize> = (0..r).collect();
        for i in (1..r).rev() {
            let j = rng.below(i as u64 + 1) as usize;
            perm.swap(i, j);
        }
        let mut p = BitMat::zeros(r, r);
        for i in 0..r {
            for c in 0..r {
                p.a[i][c] = m.a[i][perm[c]];
            }
        }
        if p.rank() == r {
            return p;
        }
    }
}

pub fn staircase(r: usize) -> BitMat {
    let mut m = BitMat::zeros(r, r);
    for i in 0..r {
        m.a[i][i] = 1;
        if i > 0 {
            m.a[i][i - 1] = 1;
        }
    }
    m
}

#[derive(Clone, Copy, Debug, PartialEq)]
pub enum Tail {
    Staircase,
    Invertible,
    Singular,
    /// lower bidiagonal with the full diagonal but some sub-diagonal ones missing: invertible,
    /// *almost* the dual-diagonal staircase (seeded change C20-r7-2 takes it for one)
    GappedStaircase,
    /// the staircase with one extra one somewhere in the tail (in the last column in half of the
    /// draws): singular or not, decided by the caller's own rank computation (seeded change
    /// C19-r10-2 takes "every parity column has weight <= 2" for the staircase test)
    NearStaircase,
}

/// Random parity-check matrix [H0 | H1] with k information columns and r checks.
/// `min_row_weight`: every check involves at least that many bits (decoder precondition).
pub fn random_code(rng: &mut Stream, k: usize, r: usize, tail: Tail, min_row_weight: usize) -> BitMat {
    let n = k + r;
    let h1 = match tail {
        Tail::Staircase => staircase(r),
        Tail::Invertible => random_invertible(rng, r),
        Tail::GappedStaircase => {
            let mut m = staircase(r);
            let mut gaps = 0;
            for i in 1..r {
                if rng.chance(1, 3) {
                    m.a[i][i - 1] = 0;
                    gaps += 1;
                }
            }
            if gaps == 0 && r > 1 {
                m.a[r - 1][r - 2] = 0;
            }
            m
        }
        Tail::NearStaircase => {
            let mut m = staircase(r);
            let zeros: Vec<(usize, usize)> = (0..r).flat_map(|i| (0..r).map(move |j| (i, j))).filter(|&(i, j)| m.a[i][j] == 0).collect();
            let last: Vec<(usize, usize)> = zeros.iter().copied().filter(|&(_, j)| j == r - 1).collect();
            let pool = if !last.is_empty() && rng.chance(1, 2) { &last } else { &zeros };
            if !pool.is_empty() {
                let (i, j) = pool[rng.below(pool.len() as u64) as usize];
                m.a[i][j] = 1;
            }
            m
        }
        Tail::Singular => {
            let mut m = random_invertible(rng, r);
            // make it singular: duplicate a row (or zero it when r == 1)
            if r == 1 {
                m.a[0][0] = 0;
            } else {
                let i = rng.below(r as u64) as usize;
                let j = (i + 1 + rng.below(r as u64 - 1) as usize) % r;
                m.a[i] = m.a[j].clone();
            }
            m
        }
    };
    let mut h = BitMat::zeros(r, n);
    let density = 15 + rng.below(45); // percent
    for i in 0..r {
        for j in 0..k {
            if rng.below(100) < density {
                h.a[i][j] = 1;
            }
        }
        for j in 0..r {
            h.a[i][k + j] = h1.a[i][j];
        }
        // make sure the information part is used and the check degree precondition holds
        let mut guard = 0;
        while h.row_weight(i) < min_row_weight.min(n) && guard < 100 {
            let j = rng.below(k as u64) as usize;
            h.a[i][j] = 1;
            guard += 1;
        }
    }
    h
}

/// Basis of the null space of `h` (vectors c with H c = 0).
pub fn nullspace(h: &BitMat) -> Vec<Vec<u8>> {
    let (r, c) = (h.r, h.c);
    let mut m = h.a.clone();
    let mut piv_cols = Vec::new();
    let mut rank = 0;
    for col in 0..c {
        if rank == r {
            break;
        }
        if let Some(p) = (rank..r).find(|&i| m[i][col] == 1) {
            m.swap(rank, p);
            for i in 0..r {
                if i != rank && m[i][col] == 1 {
                    for j in 0..c {
                        m[i][j] ^= m[rank][j];
                    }
                }
            }
            piv_cols.push(col);
            rank += 1;
        }
    }
    let free: Vec<usize> = (0..c).filter(|j| !piv_cols.contains(j)).collect();
    let mut basis = Vec::new();
    for &f in &free {
        let mut v = vec![0u8; c];
        v[f] = 1;
        for (i, &pc) in piv_cols.iter().enumerate() {
            v[pc] = m[i][f];
        }
        basis.push(v);
    }
    basis
}

/// Random element of the code with parity-check matrix `h`.
pub fn random_codeword(rng: &mut Stream, h: &BitMat) -> Vec<u8> {
    let mut c = vec![0u8; h.c];
    for b in nullspace(h) {
        if rng.chance(1, 2) {
            for (x, y) in c.iter_mut().zip(b.iter()) {
                *x ^= *y;
            }
        }
    }
    c
}

/// Random sparse-ish matrix for decoder histories: every row has weight >= 2; columns may
/// have weight 0 or 1.
pub fn random_decoder_matrix(rng: &mut Stream, rows: usize, cols: usize) -> BitMat {
    let mut h = BitMat::zeros(rows, cols);
    let density = 15 + rng.below(40);
    for i in 0..rows {
        for j in 0..cols {
            if rng.below(100) < density {
                h.a[i][j] = 1;
            }
        }
        let mut guard = 0;
        while h.row_weight(i) < 2 && guard < 200 {
            let j = rng.below(cols as u64) as usize;
            h.a[i][j] = 1;
            guard += 1;
        }
    }
    h
}
