// Demonstration for the rewrite of the GF(2) linear algebra behind the
// `systematic` and `encode` subcommands (src/linalg.rs, src/systematic.rs,
// src/encoder.rs).
//
// The library functions and the command-line tool are compared with an
// independent model written here with plain Vec<Vec<bool>> matrices:
//  - parity_to_systematic / `ldpc-toolbox systematic` must move the first
//    linearly independent columns to the end, keeping the order of the rest;
//  - Encoder / `ldpc-toolbox encode` must write, for each complete input word,
//    the unique codeword that starts with the word and satisfies all the
//    parity checks, punctured if requested, and nothing more;
//  - the error cases must give errors (exit status 1 with a message), not panics.
// Matrix sizes are chosen around multiples of 64 on purpose.

use ldpc_toolbox::sparse::SparseMatrix;
use ldpc_toolbox::systematic::parity_to_systematic;
use std::path::{Path, PathBuf};
use std::process::{Command, Stdio};
use std::sync::atomic::{AtomicUsize, Ordering};
use std::time::{Duration, Instant};

// ---------------------------------------------------------------------------
// Utilities
// ---------------------------------------------------------------------------

struct Rng(u64);

impl Rng {
    fn next(&mut self) -> u64 {
        // xorshift64*
        self.0 ^= self.0 >> 12;
        self.0 ^= self.0 << 25;
        self.0 ^= self.0 >> 27;
        self.0.wrapping_mul(0x2545_f491_4f6c_dd1d)
    }

    fn below(&mut self, n: usize) -> usize {
        ((self.next() >> 11) % (n as u64)) as usize
    }

    fn bit(&mut self) -> bool {
        self.below(2) == 1
    }
}

type Dense = Vec<Vec<bool>>;

fn to_dense(h: &SparseMatrix) -> Dense {
    let mut d = vec![vec![false; h.num_cols()]; h.num_rows()];
    for (r, c) in h.iter_all() {
        assert!(!d[r][c], "repeated entry");
        d[r][c] = true;
    }
    d
}

fn from_columns(nrows: usize, columns: &[Vec<usize>]) -> SparseMatrix {
    let mut h = SparseMatrix::new(nrows, columns.len());
    for (c, rows) in columns.iter().enumerate() {
        for &r in rows {
            h.insert(r, c);
        }
    }
    h
}

fn columns_of(h: &SparseMatrix) -> Vec<Vec<usize>> {
    (0..h.num_cols())
        .map(|c| {
            let mut v = h.iter_col(c).copied().collect::<Vec<_>>();
            v.sort_unstable();
            v
        })
        .collect()
}

// Model of the alist format with zero padding
fn model_alist(h: &SparseMatrix) -> String {
    let cols = columns_of(h);
    let rows = (0..h.num_rows())
        .map(|r| {
            let mut v = h.iter_row(r).copied().collect::<Vec<_>>();
            v.sort_unstable();
            v
        })
        .collect::<Vec<_>>();
    let maxlen = |lists: &Vec<Vec<usize>>| lists.iter().map(|l| l.len()).max().unwrap_or(0);
    let join = |v: Vec<String>| v.join(" ");
    let mut s = format!("{} {}\n", cols.len(), rows.len());
    s += &format!("{} {}\n", maxlen(&cols), maxlen(&rows));
    for lists in [&cols, &rows] {
        s += &join(lists.iter().map(|l| l.len().to_string()).collect());
        s += "\n";
    }
    for lists in [&cols, &rows] {
        let target = maxlen(lists).max(1);
        for l in lists {
            let mut items = l.iter().map(|x| (x + 1).to_string()).collect::<Vec<_>>();
            while items.len() < target {
                items.push("0".to_string());
            }
            s += &join(items);
            s += "\n";
        }
    }
    s
}

// Rank of the matrix formed by the given columns, and for each column whether
// it is independent of the previous ones. Plain elimination on column vectors.
fn independent_columns(d: &Dense, ncols: usize) -> Vec<bool> {
    let nrows = d.len();
    // basis vectors, each reduced so that its leading row is unique
    let mut basis: Vec<(usize, Vec<bool>)> = Vec::new();
    let mut independent = Vec::with_capacity(ncols);
    for c in 0..ncols {
        let mut v = (0..nrows).map(|r| d[r][c]).collect::<Vec<_>>();
        for (lead, b) in &basis {
            if v[*lead] {
                for (x, y) in v.iter_mut().zip(b.iter()) {
                    *x ^= *y;
                }
            }
        }
        match v.iter().position(|&x| x) {
            Some(lead) => {
                // keep the basis fully reduced
                for (_, b) in basis.iter_mut() {
                    if b[lead] {
                        for (x, y) in b.iter_mut().zip(v.iter()) {
                            *x ^= *y;
                        }
                    }
                }
                basis.push((lead, v));
                independent.push(true);
            }
            None => independent.push(false),
        }
    }
    independent
}

#[derive(Debug, PartialEq, Eq)]
enum ModelSysError {
    Overdetermined,
    NotFullRank,
}

// Model of parity_to_systematic: returns, for each column of the result, the
// index of the column of h that is placed there.
fn model_systematic(h: &SparseMatrix) -> Result<Vec<usize>, ModelSysError> {
    let n = h.num_rows();
    let m = h.num_cols();
    if n > m {
        return Err(ModelSysError::Overdetermined);
    }
    let independent = independent_columns(&to_dense(h), m);
    let rank = independent.iter().filter(|&&x| x).count();
    if rank < n || m == 0 {
        return Err(ModelSysError::NotFullRank);
    }
    let mut order = (0..m).filter(|&c| !independent[c]).collect::<Vec<_>>();
    order.extend((0..m).filter(|&c| independent[c]));
    Ok(order)
}

// Model of the encoder: solves H1 p = H0 u for p, where H = [H0 H1].
// Returns None if H1 is not invertible.
struct ModelEncoder {
    n: usize,
    k: usize,
    // inverse of H1 times H0, n x k
    g: Dense,
}

impl ModelEncoder {
    fn new(h: &SparseMatrix) -> Option<ModelEncoder> {
        let n = h.num_rows();
        let m = h.num_cols();
        let k = m - n;
        let d = to_dense(h);
        // augmented [H1 | H0]
        let mut a = d
            .iter()
            .map(|row| {
                let mut v = row[k..].to_vec();
                v.extend_from_slice(&row[..k]);
                v
            })
            .collect::<Vec<_>>();
        for j in 0..n {
            let p = (j..n).find(|&r| a[r][j])?;
            a.swap(p, j);
            let pivot = a[j].clone();
            for (r, row) in a.iter_mut().enumerate() {
                if r != j && row[j] {
                    for (x, y) in row.iter_mut().zip(pivot.iter()) {
                        *x ^= *y;
                    }
                }
            }
        }
        Some(ModelEncoder {
            n,
            k,
            g: a.into_iter().map(|row| row[n..].to_vec()).collect(),
        })
    }

    fn encode(&self, word: &[bool]) -> Vec<bool> {
        assert_eq!(word.len(), self.k);
        let mut c = word.to_vec();
        for r in 0..self.n {
            c.push(
                self.g[r]
                    .iter()
                    .zip(word.iter())
                    .fold(false, |acc, (&a, &b)| acc ^ (a & b)),
            );
        }
        c
    }
}

fn checks_ok(h: &SparseMatrix, codeword: &[bool]) -> bool {
    (0..h.num_rows()).all(|r| !h.iter_row(r).fold(false, |acc, &c| acc ^ codeword[c]))
}

// ---------------------------------------------------------------------------
// Random matrices
// ---------------------------------------------------------------------------

// Sizes (rows, columns), many of them next to multiples of 64
fn random_size(rng: &mut Rng) -> (usize, usize) {
    const EDGES: [usize; 12] = [1, 2, 3, 31, 32, 33, 63, 64, 65, 127, 128, 129];
    match rng.below(4) {
        0 => {
            let n = 1 + rng.below(8);
            (n, n + rng.below(10))
        }
        1 => {
            let n = EDGES[rng.below(9)];
            (n, n + rng.below(70))
        }
        2 => {
            let m = EDGES[3 + rng.below(9)];
            (1 + rng.below(m), m)
        }
        _ => {
            let n = 1 + rng.below(70);
            (n, n + 1 + rng.below(140))
        }
    }
}

fn random_matrix(rng: &mut Rng, n: usize, m: usize) -> SparseMatrix {
    let mut h = SparseMatrix::new(n, m);
    match rng.below(6) {
        0 => {
            // column weight 3 or so
            for c in 0..m {
                for _ in 0..3 {
                    h.insert(rng.below(n), c);
                }
            }
        }
        1 => {
            // dense
            for r in 0..n {
                for c in 0..m {
                    if rng.bit() {
                        h.insert(r, c);
                    }
                }
            }
        }
        2 => {
            // few distinct columns, many zero columns (low rank is likely)
            let distinct = (0..1 + rng.below(n + 1))
                .map(|_| (0..1 + rng.below(3)).map(|_| rng.below(n)).collect::<Vec<_>>())
                .collect::<Vec<_>>();
            for c in 0..m {
                if rng.below(3) != 0 {
                    for &r in &distinct[rng.below(distinct.len())] {
                        h.insert(r, c);
                    }
                }
            }
        }
        3 => {
            // rows that are sums of other rows
            for r in 0..n {
                for c in 0..m {
                    if rng.below(4) == 0 {
                        h.insert(r, c);
                    }
                }
            }
            if n >= 3 {
                let (a, b, t) = (rng.below(n), rng.below(n), rng.below(n));
                if a != t && b != t && a != b {
                    h.clear_row(t);
                    let cols = h.iter_row(a).chain(h.iter_row(b)).copied().collect::<Vec<_>>();
                    for c in cols {
                        h.toggle(t, c);
                    }
                }
            }
        }
        4 => {
            // independent columns at the far right only: sparse left part
            for c in 0..m {
                if c + n >= m {
                    h.insert(c + n - m, c);
                    if rng.bit() {
                        h.insert(rng.below(n), c);
                    }
                } else if rng.below(5) == 0 {
                    h.insert(rng.below(n), c);
                }
            }
        }
        _ => {
            // sparse with weight one columns
            for c in 0..m {
                h.insert(rng.below(n), c);
            }
        }
    }
    h
}

// H = [H0 H1] with H1 the staircase (double diagonal) matrix
fn random_staircase(rng: &mut Rng, n: usize, k: usize) -> SparseMatrix {
    let mut h = SparseMatrix::new(n, n + k);
    for r in 0..n {
        for c in 0..k {
            if rng.below(4) == 0 {
                h.insert(r, c);
            }
        }
        h.insert(r, k + r);
        if r > 0 {
            h.insert(r, k + r - 1);
        }
    }
    h
}

fn permuted(h: &SparseMatrix, order: &[usize]) -> SparseMatrix {
    let cols = columns_of(h);
    let new_cols = order.iter().map(|&c| cols[c].clone()).collect::<Vec<_>>();
    from_columns(h.num_rows(), &new_cols)
}

// ---------------------------------------------------------------------------
// Library level: parity_to_systematic
// ---------------------------------------------------------------------------

fn check_systematic_library(h: &SparseMatrix, context: &str) {
    let result = parity_to_systematic(h);
    match model_systematic(h) {
        Ok(order) => {
            let h_sys = result.unwrap_or_else(|e| panic!("{context}: unexpected error {e}"));
            let expected = permuted(h, &order);
            assert_eq!(columns_of(&h_sys), columns_of(&expected), "{context}");
            assert_eq!(h_sys.alist(), model_alist(&expected), "{context}");
            // the defining property: the last columns form an invertible matrix
            assert!(
                h.num_rows() == h.num_cols() || ModelEncoder::new(&h_sys).is_some(),
                "{context}"
            );
        }
        Err(ModelSysError::Overdetermined) => {
            let e = result.expect_err(context);
            assert!(e.to_string().contains("more rows than columns"), "{context}: {e}");
        }
        Err(ModelSysError::NotFullRank) => {
            let e = result.expect_err(context);
            assert!(e.to_string().contains("full rank"), "{context}: {e}");
        }
    }
}

#[test]
fn systematic_library_matches_model() {
    let mut rng = Rng(0x9e37_79b9_7f4a_7c15);
    let mut full_rank = 0;
    let mut deficient = 0;
    for iter in 0..1500 {
        let (n, m) = random_size(&mut rng);
        let h = random_matrix(&mut rng, n, m);
        match model_systematic(&h) {
            Ok(_) => full_rank += 1,
            Err(_) => deficient += 1,
        }
        check_systematic_library(&h, &format!("iter {iter} size {n}x{m}"));
    }
    assert!(full_rank > 200 && deficient > 200, "{full_rank} {deficient}");
    // more rows than columns
    for iter in 0..50 {
        let m = rng.below(70);
        let n = m + 1 + rng.below(5);
        let mut h = SparseMatrix::new(n, m);
        if m > 0 {
            for _ in 0..rng.below(3 * n) {
                h.insert(rng.below(n), rng.below(m));
            }
        }
        check_systematic_library(&h, &format!("overdetermined {iter}"));
    }
    // empty matrix, zero matrices, identities, and staircases (already systematic)
    check_systematic_library(&SparseMatrix::new(0, 0), "empty");
    for (n, m) in [(1, 1), (1, 5), (3, 3), (64, 64), (65, 130), (2, 200)] {
        check_systematic_library(&SparseMatrix::new(n, m), "zero");
    }
    for n in [1, 2, 63, 64, 65, 128, 129] {
        let mut h = SparseMatrix::new(n, n);
        for j in 0..n {
            h.insert(j, (j * 7 + 3) % n);
        }
        if n % 7 != 0 {
            check_systematic_library(&h, "permutation");
        }
        for k in [1, 5, 64] {
            let h = random_staircase(&mut rng, n, k);
            check_systematic_library(&h, "staircase");
        }
    }
}

// ---------------------------------------------------------------------------
// Command line level
// ---------------------------------------------------------------------------

fn binary() -> PathBuf {
    if let Some(p) = option_env!("CARGO_BIN_EXE_ldpc-toolbox") {
        return PathBuf::from(p);
    }
    // target/debug/deps/seeded_demo-xxxx -> target/debug/ldpc-toolbox
    let mut p = std::env::current_exe().unwrap();
    p.pop();
    p.pop();
    p.push("ldpc-toolbox");
    assert!(p.exists(), "binary not found at {p:?}");
    p
}

struct TempDir(PathBuf);

impl TempDir {
    fn new(tag: &str) -> TempDir {
        static COUNTER: AtomicUsize = AtomicUsize::new(0);
        let p = std::env::temp_dir().join(format!(
            "c20p4-{}-{}-{}",
            tag,
            std::process::id(),
            COUNTER.fetch_add(1, Ordering::SeqCst)
        ));
        std::fs::create_dir_all(&p).unwrap();
        TempDir(p)
    }

    fn path(&self, name: &str) -> PathBuf {
        self.0.join(name)
    }
}

impl Drop for TempDir {
    fn drop(&mut self) {
        let _ = std::fs::remove_dir_all(&self.0);
    }
}

struct Outcome {
    status: Option<i32>,
    stdout: Vec<u8>,
    stderr: String,
}

// Runs the tool with a time limit. Standard output and error go to files so
// that the child can never block on a full pipe.
fn run(dir: &TempDir, args: &[&str]) -> Outcome {
    let out_path = dir.path("stdout");
    let err_path = dir.path("stderr");
    let mut child = Command::new(binary())
        .args(args)
        .stdin(Stdio::null())
        .stdout(std::fs::File::create(&out_path).unwrap())
        .stderr(std::fs::File::create(&err_path).unwrap())
        .spawn()
        .unwrap();
    let deadline = Instant::now() + Duration::from_secs(120);
    let status = loop {
        if let Some(status) = child.try_wait().unwrap() {
            break status;
        }
        if Instant::now() > deadline {
            let _ = child.kill();
            let _ = child.wait();
            panic!("{args:?} did not finish in time");
        }
        std::thread::sleep(Duration::from_millis(2));
    };
    Outcome {
        status: status.code(),
        stdout: std::fs::read(&out_path).unwrap(),
        stderr: String::from_utf8_lossy(&std::fs::read(&err_path).unwrap()).into_owned(),
    }
}

fn assert_clean_error(outcome: &Outcome, context: &str) {
    assert_eq!(outcome.status, Some(1), "{context}: {}", outcome.stderr);
    assert!(outcome.stdout.is_empty(), "{context}");
    assert!(!outcome.stderr.trim().is_empty(), "{context}: no message");
    assert!(!outcome.stderr.contains("panicked"), "{context}: {}", outcome.stderr);
}

fn str_of(p: &Path) -> &str {
    p.to_str().unwrap()
}

// Runs `systematic` on h and compares with the model. Returns the converted
// matrix (as parsed back from the output of the tool).
fn check_systematic_cli(dir: &TempDir, h: &SparseMatrix, context: &str) -> Option<SparseMatrix> {
    let file = dir.path("h.alist");
    std::fs::write(&file, h.alist()).unwrap();
    let outcome = run(dir, &["systematic", str_of(&file)]);
    match model_systematic(h) {
        Ok(order) => {
            assert_eq!(outcome.status, Some(0), "{context}: {}", outcome.stderr);
            assert!(outcome.stderr.is_empty(), "{context}: {}", outcome.stderr);
            let expected = permuted(h, &order);
            let text = String::from_utf8(outcome.stdout).unwrap();
            assert_eq!(text, model_alist(&expected) + "\n", "{context}");
            let parsed = SparseMatrix::from_alist(&text).unwrap();
            assert_eq!(columns_of(&parsed), columns_of(&expected), "{context}");
            Some(parsed)
        }
        Err(_) => {
            assert_clean_error(&outcome, context);
            None
        }
    }
}

fn puncture(codeword: &[bool], pattern: &[bool]) -> Vec<bool> {
    assert_eq!(codeword.len() % pattern.len(), 0);
    let block = codeword.len() / pattern.len();
    pattern
        .iter()
        .enumerate()
        .filter(|(_, keep)| **keep)
        .flat_map(|(j, _)| codeword[j * block..(j + 1) * block].iter().copied())
        .collect()
}

fn pattern_string(pattern: &[bool]) -> String {
    pattern
        .iter()
        .map(|&b| if b { "1" } else { "0" })
        .collect::<Vec<_>>()
        .join(",")
}

// Runs `encode` with matrix h (which must have more columns than rows) on a
// random input and compares the output file with the model.
fn check_encode_cli(dir: &TempDir, rng: &mut Rng, h: &SparseMatrix, context: &str) {
    let n = h.num_cols();
    let k = n - h.num_rows();
    assert!(k > 0);
    let file = dir.path("code.alist");
    std::fs::write(&file, h.alist()).unwrap();
    let input_path = dir.path("input.bin");
    let output_path = dir.path("output.bin");
    let model = ModelEncoder::new(h);

    // input: some complete words and possibly an incomplete one; bytes other
    // than 1 are zeros
    let num_words = rng.below(5);
    let extra = if rng.bit() { rng.below(k) } else { 0 };
    let input = (0..num_words * k + extra)
        .map(|_| match rng.below(8) {
            0..=3 => 1u8,
            4..=6 => 0u8,
            _ => (rng.next() >> 32) as u8,
        })
        .collect::<Vec<_>>();
    std::fs::write(&input_path, &input).unwrap();

    // puncturing patterns: none, a valid one, and sometimes an invalid one
    let divisors = (1..=n.min(12)).filter(|d| n % d == 0).collect::<Vec<_>>();
    let non_divisors = (2..=12).filter(|d| n % d != 0).collect::<Vec<_>>();
    let mut patterns: Vec<Option<Vec<bool>>> = vec![None];
    let len = divisors[rng.below(divisors.len())];
    patterns.push(Some((0..len).map(|_| rng.below(3) != 0).collect()));
    if !non_divisors.is_empty() && rng.bit() {
        let len = non_divisors[rng.below(non_divisors.len())];
        patterns.push(Some((0..len).map(|_| rng.bit()).collect()));
    }

    for pattern in patterns {
        let _ = std::fs::remove_file(&output_path);
        let mut args = vec![
            "encode".to_string(),
            str_of(&file).to_string(),
            str_of(&input_path).to_string(),
            str_of(&output_path).to_string(),
        ];
        if let Some(p) = &pattern {
            args.push("--puncturing".to_string());
            args.push(pattern_string(p));
        }
        let args_ref = args.iter().map(|s| s.as_str()).collect::<Vec<_>>();
        let outcome = run(dir, &args_ref);
        let context = format!("{context} pattern {pattern:?} words {num_words}+{extra}");
        let Some(model) = &model else {
            assert_clean_error(&outcome, &context);
            continue;
        };
        let divisible = pattern.as_ref().is_none_or(|p| n % p.len() == 0);
        if !divisible && num_words > 0 {
            assert_clean_error(&outcome, &context);
            continue;
        }
        assert_eq!(outcome.status, Some(0), "{context}: {}", outcome.stderr);
        assert!(outcome.stdout.is_empty() && outcome.stderr.is_empty(), "{context}");
        let mut expected = Vec::new();
        for word in input.chunks_exact(k) {
            let word = word.iter().map(|&b| b == 1).collect::<Vec<_>>();
            let codeword = model.encode(&word);
            assert!(checks_ok(h, &codeword));
            assert_eq!(&codeword[..k], &word[..]);
            let sent = match &pattern {
                Some(p) => puncture(&codeword, p),
                None => codeword,
            };
            expected.extend(sent.into_iter().map(u8::from));
        }
        let output = std::fs::read(&output_path).unwrap();
        assert_eq!(output, expected, "{context}");
    }
}

#[test]
fn cli_systematic_and_encode_match_model() {
    let dir = TempDir::new("main");
    let mut rng = Rng(0x0123_4567_89ab_cdef);
    let mut encoded = 0;
    let mut not_invertible = 0;
    for iter in 0..70 {
        let (n, m) = random_size(&mut rng);
        let h = random_matrix(&mut rng, n, m);
        let context = format!("iter {iter} size {n}x{m}");
        let h_sys = check_systematic_cli(&dir, &h, &context);
        if m > n {
            // the matrix as it is (the last columns may or may not be invertible)
            if ModelEncoder::new(&h).is_some() {
                encoded += 1;
            } else {
                not_invertible += 1;
            }
            check_encode_cli(&dir, &mut rng, &h, &context);
            // and the matrix converted by the tool, which always can be used
            if let Some(h_sys) = h_sys {
                assert!(ModelEncoder::new(&h_sys).is_some());
                check_encode_cli(&dir, &mut rng, &h_sys, &format!("{context} (systematic)"));
                encoded += 1;
            }
        }
    }
    assert!(encoded > 20 && not_invertible > 10, "{encoded} {not_invertible}");
    // staircase codes
    for (n, k) in [(1, 1), (2, 3), (5, 2), (63, 65), (64, 64), (65, 63), (130, 70), (40, 200)] {
        let h = random_staircase(&mut rng, n, k);
        for _ in 0..2 {
            check_encode_cli(&dir, &mut rng, &h, &format!("staircase {n} {k}"));
        }
        // a staircase with one more entry is not a staircase any more, but it
        // may still be a valid code
        let mut h2 = h.clone();
        h2.toggle(rng.below(n), k + rng.below(n));
        check_encode_cli(&dir, &mut rng, &h2, &format!("broken staircase {n} {k}"));
        check_systematic_cli(&dir, &h, "staircase");
    }
}

#[test]
fn cli_error_cases() {
    let dir = TempDir::new("errors");
    let input = dir.path("in.bin");
    std::fs::write(&input, [1u8; 64]).unwrap();
    let out = dir.path("out.bin");
    let file = dir.path("bad.alist");
    // rank deficient: two equal rows
    let mut h = SparseMatrix::new(3, 7);
    for c in [0, 2, 5] {
        h.insert(0, c);
        h.insert(2, c);
    }
    h.insert(1, 6);
    std::fs::write(&file, h.alist()).unwrap();
    assert_clean_error(&run(&dir, &["systematic", str_of(&file)]), "rank deficient");
    assert_clean_error(
        &run(&dir, &["encode", str_of(&file), str_of(&input), str_of(&out)]),
        "encode rank deficient",
    );
    // more rows than columns
    let mut h = SparseMatrix::new(4, 3);
    for j in 0..3 {
        h.insert(j, j);
        h.insert(3, j);
    }
    std::fs::write(&file, h.alist()).unwrap();
    assert_clean_error(&run(&dir, &["systematic", str_of(&file)]), "overdetermined");
    // full rank, but the last columns are not invertible
    let mut h = SparseMatrix::new(2, 5);
    h.insert(0, 0);
    h.insert(1, 1);
    h.insert(0, 4);
    std::fs::write(&file, h.alist()).unwrap();
    assert_clean_error(
        &run(&dir, &["encode", str_of(&file), str_of(&input), str_of(&out)]),
        "not invertible",
    );
    let outcome = run(&dir, &["systematic", str_of(&file)]);
    assert_eq!(outcome.status, Some(0));
    // files that do not exist or are not alists
    let missing = dir.path("missing.alist");
    assert_clean_error(&run(&dir, &["systematic", str_of(&missing)]), "missing");
    assert_clean_error(
        &run(&dir, &["encode", str_of(&missing), str_of(&input), str_of(&out)]),
        "encode missing",
    );
    std::fs::write(&file, "5 2\n1 1\nnot an alist\n").unwrap();
    assert_clean_error(&run(&dir, &["systematic", str_of(&file)]), "garbage");
    assert_clean_error(
        &run(&dir, &["encode", str_of(&file), str_of(&input), str_of(&out)]),
        "encode garbage",
    );
    // invalid puncturing pattern
    let h = {
        let mut rng = Rng(77);
        random_staircase(&mut rng, 4, 4)
    };
    std::fs::write(&file, h.alist()).unwrap();
    for pattern in ["1,0,2", "", "1;0", "1,1,", "a"] {
        assert_clean_error(
            &run(
                &dir,
                &[
                    "encode",
                    str_of(&file),
                    str_of(&input),
                    str_of(&out),
                    "--puncturing",
                    pattern,
                ],
            ),
            pattern,
        );
    }
}

// ---------------------------------------------------------------------------
// ber (the simulation encodes every frame with the systematic encoder)
// ---------------------------------------------------------------------------

fn check_ber(dir: &TempDir, h: &SparseMatrix, min: f64, step: f64, count: usize, extra: &[&str]) {
    let k = h.num_cols() - h.num_rows();
    let file = dir.path("ber.alist");
    std::fs::write(&file, h.alist()).unwrap();
    let results = dir.path("ber.txt");
    let _ = std::fs::remove_file(&results);
    let max = min + step * (count as f64 - 1.0) + step * 0.25;
    let mut args = vec![
        "ber".to_string(),
        format!("--min-ebn0={min}"),
        format!("--max-ebn0={max}"),
        format!("--step-ebn0={step}"),
        "--frame-errors=4".to_string(),
        format!("--output-file={}", str_of(&results)),
    ];
    args.extend(extra.iter().map(|s| s.to_string()));
    args.push(str_of(&file).to_string());
    let args_ref = args.iter().map(|s| s.as_str()).collect::<Vec<_>>();
    let outcome = run(dir, &args_ref);
    assert_eq!(outcome.status, Some(0), "{args:?}: {}", outcome.stderr);
    assert!(!outcome.stderr.contains("panicked"), "{}", outcome.stderr);
    let text = std::fs::read_to_string(&results).unwrap();
    assert!(text.contains(&format!(" - Information bits (k): {k}\n")), "{text}");
    let lines = text
        .lines()
        .skip_while(|l| !l.starts_with("--------|"))
        .skip(1)
        .collect::<Vec<_>>();
    assert_eq!(lines.len(), count, "{text}");
    let close = |a: f64, b: f64| (a - b).abs() <= 0.01 * b.abs() + 1e-12;
    for (n, line) in lines.iter().enumerate() {
        let fields = line.split('|').map(|f| f.trim()).collect::<Vec<_>>();
        assert_eq!(fields.len(), 11, "{line}");
        let ebn0: f64 = fields[0].parse().unwrap();
        let frames: u64 = fields[1].parse().unwrap();
        let bit_errors: u64 = fields[2].parse().unwrap();
        let frame_errors: u64 = fields[3].parse().unwrap();
        let false_decodes: u64 = fields[4].parse().unwrap();
        let ber: f64 = fields[5].parse().unwrap();
        let fer: f64 = fields[6].parse().unwrap();
        assert!((ebn0 - (min + n as f64 * step)).abs() < 0.006, "{line}");
        assert!(frame_errors >= 4 && frame_errors <= frames, "{line}");
        assert!(bit_errors >= frame_errors && bit_errors <= frames * k as u64, "{line}");
        assert!(false_decodes <= frame_errors, "{line}");
        assert!(close(ber, bit_errors as f64 / (k as f64 * frames as f64)), "{line}");
        assert!(close(fer, frame_errors as f64 / frames as f64), "{line}");
    }
}

#[test]
fn cli_ber_statistics() {
    let dir = TempDir::new("ber");
    let mut rng = Rng(0x5555_aaaa_1234_4321);
    // a general code, found by converting a random matrix to systematic form
    let h = loop {
        let h = random_matrix(&mut rng, 40, 100);
        if let Ok(h_sys) = parity_to_systematic(&h) {
            break h_sys;
        }
    };
    check_ber(&dir, &h, 0.0, 1.0, 3, &[]);
    check_ber(&dir, &h, -1.0, 0.5, 4, &["--decoder", "Aminstarf32", "--max-iter", "10"]);
    check_ber(&dir, &h, 1.5, 0.1, 1, &["--puncturing", "1,1,1,0"]);
    // a staircase code
    let h = random_staircase(&mut rng, 65, 63);
    check_ber(&dir, &h, 0.0, 2.0, 2, &[]);
    check_ber(&dir, &h, 0.5, 0.25, 3, &["--decoder", "HLPhif32"]);
}
