// Demonstration for property C12: the BER chain hands the decoder correctly
// ordered, correctly scaled LLRs.
//
// The test injects a recording decoder through the public `DecoderFactory` /
// `LdpcDecoder` traits and runs complete BER simulations built with the public
// `BerTestBuilder`. Everything the decoder is handed is checked against an
// independent model written here with std only: frame length, exact zeros at
// the punctured positions, the signs being a codeword of H (the punctured bits
// are recovered by solving the parity equations), the systematic part being
// the message (through the bit error counts the simulator reports), the LLR
// scale and the noise mean / variance / independence / Gaussianity for the
// requested Eb/N0 with the rate counted after puncturing and the bits per
// symbol of the modulation, and the sizes and rate reported by the simulator.
// For 8PSK every LLR triple is inverted numerically to the received complex
// sample, which also checks that deinterleaving regroups the three LLRs of one
// symbol.

use ldpc_toolbox::{
    decoder::{DecoderOutput, LdpcDecoder, factory::DecoderFactory},
    simulation::{
        ber::{Report, Reporter, Statistics},
        factory::{BerTestBuilder, Modulation},
    },
    sparse::SparseMatrix,
};
use std::{
    fmt,
    sync::{Arc, Mutex, mpsc},
    thread,
    time::Duration,
};

const RUN_TIMEOUT: Duration = Duration::from_secs(300);

// ---------------------------------------------------------------------------
// Small deterministic generator for building test matrices
// ---------------------------------------------------------------------------

struct SplitMix(u64);

impl SplitMix {
    fn next(&mut self) -> u64 {
        self.0 = self.0.wrapping_add(0x9E37_79B9_7F4A_7C15);
        let mut z = self.0;
        z = (z ^ (z >> 30)).wrapping_mul(0xBF58_476D_1CE4_E5B9);
        z = (z ^ (z >> 27)).wrapping_mul(0x94D0_49BB_1331_11EB);
        z ^ (z >> 31)
    }

    fn below(&mut self, n: usize) -> usize {
        (self.next() % n as u64) as usize
    }
}

// H = [H0 | H1] with H1 square and invertible. If `staircase` is true H1 is the
// double diagonal (the O(n) encoder is used); otherwise H1 is a lower
// triangular matrix with further entries (the dense generator encoder is used).
fn make_h(n_cw: usize, k: usize, seed: u64, staircase: bool) -> SparseMatrix {
    assert!(n_cw <= 128);
    let m = n_cw - k;
    let mut rng = SplitMix(seed);
    let mut h = SparseMatrix::new(m, n_cw);
    for col in 0..k {
        let mut rows = Vec::new();
        while rows.len() < 3 {
            let r = rng.below(m);
            if !rows.contains(&r) {
                rows.push(r);
            }
        }
        for r in rows {
            h.insert(r, col);
        }
    }
    for j in 0..m {
        h.insert(j, k + j);
        if staircase {
            if j > 0 {
                h.insert(j, k + j - 1);
            }
        } else if j > 0 {
            let c = rng.below(j);
            h.insert(j, k + c);
            if j > 2 {
                let c2 = rng.below(j);
                if c2 != c {
                    h.insert(j, k + c2);
                }
            }
        }
    }
    h
}

fn h_rows(h: &SparseMatrix) -> Vec<u128> {
    (0..h.num_rows())
        .map(|r| h.iter_row(r).fold(0u128, |acc, &c| acc | (1u128 << c)))
        .collect()
}

#[derive(Debug, PartialEq, Eq)]
enum Solve {
    Unique(u128),
    Inconsistent,
    Underdetermined,
}

// Finds the codeword that agrees with `bits` outside `unknown`.
fn erasure_solve(rows: &[u128], bits: u128, unknown: u128) -> Solve {
    let mut eqs: Vec<(u128, bool)> = rows
        .iter()
        .map(|&r| (r & unknown, (r & !unknown & bits).count_ones() % 2 == 1))
        .collect();
    let mut used = vec![false; eqs.len()];
    let mut solution = bits & !unknown;
    let mut pivots = Vec::new();
    let mut underdetermined = false;
    for pos in 0..128 {
        if (unknown >> pos) & 1 == 0 {
            continue;
        }
        let Some(i) = (0..eqs.len()).find(|&i| !used[i] && (eqs[i].0 >> pos) & 1 == 1) else {
            underdetermined = true;
            continue;
        };
        used[i] = true;
        let (mask, rhs) = eqs[i];
        for j in 0..eqs.len() {
            if j != i && (eqs[j].0 >> pos) & 1 == 1 {
                eqs[j].0 ^= mask;
                eqs[j].1 ^= rhs;
            }
        }
        pivots.push((pos, i));
    }
    for (i, eq) in eqs.iter().enumerate() {
        if !used[i] && eq.0 == 0 && eq.1 {
            return Solve::Inconsistent;
        }
    }
    if underdetermined {
        return Solve::Underdetermined;
    }
    for (pos, i) in pivots {
        assert_eq!(eqs[i].0, 1u128 << pos);
        if eqs[i].1 {
            solution |= 1u128 << pos;
        }
    }
    Solve::Unique(solution)
}

// ---------------------------------------------------------------------------
// Recording decoder
// ---------------------------------------------------------------------------

#[derive(Debug)]
struct FrameRecord {
    decoder: usize,
    llrs: Vec<f64>,
    max_iterations: usize,
}

#[derive(Debug, Default)]
struct Log {
    frames: Vec<FrameRecord>,
    builds: usize,
    bad_build: Option<String>,
}

#[derive(Debug, Clone)]
struct Probe {
    log: Arc<Mutex<Log>>,
    rows: Arc<Vec<u128>>,
    n_cw: usize,
    // number of frames each decoder answers correctly before it starts
    // flipping the first message bit
    good_frames: usize,
    // the decoders panic when they are handed their frame number `panic_at`
    // (only the first decoder built, unless `panic_all`)
    panic_at: Option<usize>,
    panic_all: bool,
    // time taken by each decoding
    delay: Duration,
}

impl fmt::Display for Probe {
    fn fmt(&self, f: &mut fmt::Formatter<'_>) -> fmt::Result {
        write!(f, "Probe")
    }
}

impl DecoderFactory for Probe {
    fn build_decoder(&self, h: SparseMatrix) -> Box<dyn LdpcDecoder> {
        let mut log = self.log.lock().unwrap();
        let id = log.builds;
        log.builds += 1;
        if h_rows(&h) != *self.rows || h.num_cols() != self.n_cw {
            log.bad_build = Some(format!("decoder {id} built with a different matrix"));
        }
        Box::new(ProbeDecoder {
            id,
            probe: self.clone(),
            count: 0,
        })
    }
}

#[derive(Debug)]
struct ProbeDecoder {
    id: usize,
    probe: Probe,
    count: usize,
}

impl LdpcDecoder for ProbeDecoder {
    fn decode(
        &mut self,
        llrs: &[f64],
        max_iterations: usize,
    ) -> Result<DecoderOutput, DecoderOutput> {
        self.probe.log.lock().unwrap().frames.push(FrameRecord {
            decoder: self.id,
            llrs: llrs.to_vec(),
            max_iterations,
        });
        self.count += 1;
        if !self.probe.delay.is_zero() {
            thread::sleep(self.probe.delay);
        }
        if self.probe.panic_at == Some(self.count) && (self.probe.panic_all || self.id == 0) {
            panic!("probe decoder {} panics on purpose", self.id);
        }
        let n_cw = self.probe.n_cw;
        let mut codeword = vec![0u8; n_cw];
        if llrs.len() == n_cw {
            let (bits, unknown) = hard_bits(llrs);
            let word = match erasure_solve(&self.probe.rows, bits, unknown) {
                Solve::Unique(w) => w,
                _ => bits,
            };
            for (j, c) in codeword.iter_mut().enumerate() {
                *c = ((word >> j) & 1) as u8;
            }
        }
        if self.count > self.probe.good_frames {
            codeword[0] ^= 1;
        }
        let output = DecoderOutput {
            codeword,
            iterations: 1,
        };
        // alternate between reported success and failure; the simulator must
        // count the bit errors in the same way
        if self.count % 2 == 0 {
            Ok(output)
        } else {
            Err(output)
        }
    }
}

// A negative LLR is a 1 bit; a zero LLR is an erasure.
fn hard_bits(llrs: &[f64]) -> (u128, u128) {
    let mut bits = 0u128;
    let mut unknown = 0u128;
    for (j, &x) in llrs.iter().enumerate() {
        if x == 0.0 {
            unknown |= 1u128 << j;
        } else if x < 0.0 {
            bits |= 1u128 << j;
        }
    }
    (bits, unknown)
}

// ---------------------------------------------------------------------------
// Running a BER test with a timeout
// ---------------------------------------------------------------------------

#[derive(Debug, Clone)]
struct Config {
    name: &'static str,
    h: SparseMatrix,
    modulation: Modulation,
    pattern: Option<Vec<bool>>,
    interleaving: Option<isize>,
    ebn0s_db: Vec<f32>,
    max_frame_errors: u64,
    good_frames: usize,
    max_iterations: usize,
    panic_at: Option<usize>,
    panic_all: bool,
    delay: Duration,
}

#[derive(Debug)]
struct Sizes {
    n: usize,
    n_cw: usize,
    k: usize,
    rate: f64,
}

#[derive(Debug)]
struct Outcome {
    result: Result<Vec<Statistics>, String>,
    sizes: Sizes,
    log: Log,
    reports: Vec<Report>,
}

fn run(cfg: &Config) -> Outcome {
    let log = Arc::new(Mutex::new(Log::default()));
    let probe = Probe {
        log: log.clone(),
        rows: Arc::new(h_rows(&cfg.h)),
        n_cw: cfg.h.num_cols(),
        good_frames: cfg.good_frames,
        panic_at: cfg.panic_at,
        panic_all: cfg.panic_all,
        delay: cfg.delay,
    };
    let (done_tx, done_rx) = mpsc::channel();
    let (report_tx, report_rx) = mpsc::channel();
    let cfg2 = cfg.clone();
    thread::spawn(move || {
        let test = BerTestBuilder {
            h: cfg2.h.clone(),
            decoder_implementation: probe,
            modulation: cfg2.modulation,
            puncturing_pattern: cfg2.pattern.as_deref(),
            interleaving_columns: cfg2.interleaving,
            max_frame_errors: cfg2.max_frame_errors,
            max_iterations: cfg2.max_iterations,
            ebn0s_db: &cfg2.ebn0s_db,
            reporter: Some(Reporter {
                tx: report_tx,
                interval: Duration::from_millis(1),
            }),
            bch_max_errors: 0,
        }
        .build()
        .expect("building the BER test");
        let sizes = Sizes {
            n: test.n(),
            n_cw: test.n_cw(),
            k: test.k(),
            rate: test.rate(),
        };
        let result = test.run().map_err(|e| e.to_string());
        let _ = done_tx.send((result, sizes));
    });
    let (result, sizes) = match done_rx.recv_timeout(RUN_TIMEOUT) {
        Ok(x) => x,
        Err(e) => panic!("[{}] the BER test did not finish: {e:?}", cfg.name),
    };
    let reports = report_rx.try_iter().collect();
    let log = std::mem::take(&mut *log.lock().unwrap());
    Outcome {
        result,
        sizes,
        log,
        reports,
    }
}

// ---------------------------------------------------------------------------
// Independent model of the chain
// ---------------------------------------------------------------------------

fn kept_positions(n_cw: usize, pattern: Option<&[bool]>) -> Vec<usize> {
    match pattern {
        None => (0..n_cw).collect(),
        Some(p) => {
            assert_eq!(n_cw % p.len(), 0);
            let block = n_cw / p.len();
            (0..n_cw).filter(|&j| p[j / block]).collect()
        }
    }
}

// Codeword index of each transmitted bit, in transmission order.
fn transmit_order(n_cw: usize, pattern: Option<&[bool]>, interleaving: Option<isize>) -> Vec<usize> {
    let kept = kept_positions(n_cw, pattern);
    match interleaving {
        None => kept,
        Some(c) => {
            let cols = c.unsigned_abs();
            let backwards = c < 0;
            assert_eq!(kept.len() % cols, 0);
            let rows = kept.len() / cols;
            // The bits are written into the matrix by columns and read by
            // rows (each row from right to left if `backwards`).
            let mut out = Vec::with_capacity(kept.len());
            for r in 0..rows {
                for c in 0..cols {
                    let col = if backwards { cols - 1 - c } else { c };
                    out.push(kept[col * rows + r]);
                }
            }
            out
        }
    }
}

fn bits_per_symbol(m: Modulation) -> usize {
    match m {
        Modulation::Bpsk => 1,
        Modulation::Psk8 => 3,
    }
}

fn predicted_sigma(cfg: &Config, ebn0_db: f32) -> f64 {
    let n_cw = cfg.h.num_cols();
    let k = n_cw - cfg.h.num_rows();
    let n = kept_positions(n_cw, cfg.pattern.as_deref()).len();
    let ebn0 = 10f64.powf(f64::from(ebn0_db) / 10.0);
    let esn0 = ebn0 * (k as f64 / n as f64) * bits_per_symbol(cfg.modulation) as f64;
    (1.0 / (2.0 * esn0)).sqrt()
}

// DVB-S2 8PSK constellation, label = 4 b0 + 2 b1 + b2
fn psk8_points() -> [(f64, f64); 8] {
    let a = std::f64::consts::FRAC_1_SQRT_2;
    [
        (a, a),     // 000
        (1.0, 0.0), // 001
        (-1.0, 0.0), // 010
        (-a, -a),   // 011
        (0.0, 1.0), // 100
        (a, -a),    // 101
        (-a, a),    // 110
        (0.0, -1.0), // 111
    ]
}

fn lse(values: &[f64]) -> f64 {
    let m = values.iter().cloned().fold(f64::NEG_INFINITY, f64::max);
    m + values.iter().map(|&v| (v - m).exp()).sum::<f64>().ln()
}

// Exact 8PSK bit LLRs (log P(b=0)/P(b=1)) for u = y / sigma^2, and their
// Jacobian with respect to u.
fn psk8_llrs(u: (f64, f64)) -> ([f64; 3], [[f64; 2]; 3]) {
    let pts = psk8_points();
    let d: Vec<f64> = pts.iter().map(|c| u.0 * c.0 + u.1 * c.1).collect();
    let mut llrs = [0.0; 3];
    let mut jac = [[0.0; 2]; 3];
    for b in 0..3 {
        let shift = 2 - b;
        let mut side = [(0.0, [0.0, 0.0]); 2];
        for (value, s) in side.iter_mut().enumerate() {
            let labels: Vec<usize> = (0..8).filter(|l| (l >> shift) & 1 == value).collect();
            let vals: Vec<f64> = labels.iter().map(|&l| d[l]).collect();
            let total = lse(&vals);
            let mut mean = [0.0, 0.0];
            for &l in &labels {
                let w = (d[l] - total).exp();
                mean[0] += w * pts[l].0;
                mean[1] += w * pts[l].1;
            }
            *s = (total, mean);
        }
        llrs[b] = side[0].0 - side[1].0;
        jac[b] = [side[0].1[0] - side[1].1[0], side[0].1[1] - side[1].1[1]];
    }
    (llrs, jac)
}

fn sq_norm(r: &[f64; 3]) -> f64 {
    r.iter().map(|x| x * x).sum()
}

// Finds u with psk8_llrs(u) = target (damped Gauss-Newton). Returns u and the
// largest residual relative to the size of the LLRs.
fn psk8_invert(target: [f64; 3], start: (f64, f64)) -> ((f64, f64), f64) {
    let scale = 1.0 + target.iter().fold(0.0f64, |m, x| m.max(x.abs()));
    let residual = |u: (f64, f64)| {
        let (f, j) = psk8_llrs(u);
        ([f[0] - target[0], f[1] - target[1], f[2] - target[2]], j)
    };
    let mut u = start;
    let (mut r, mut j) = residual(u);
    for _ in 0..200 {
        if r.iter().all(|x| x.abs() <= 1e-11 * scale) {
            break;
        }
        // normal equations
        let mut a = [[0.0; 2]; 2];
        let mut g = [0.0; 2];
        for b in 0..3 {
            for p in 0..2 {
                g[p] += j[b][p] * r[b];
                for q in 0..2 {
                    a[p][q] += j[b][p] * j[b][q];
                }
            }
        }
        let det = a[0][0] * a[1][1] - a[0][1] * a[1][0];
        let delta = if det.abs() > 1e-300 {
            (
                -(a[1][1] * g[0] - a[0][1] * g[1]) / det,
                -(a[0][0] * g[1] - a[1][0] * g[0]) / det,
            )
        } else {
            (-g[0], -g[1])
        };
        let mut t = 1.0;
        let mut improved = false;
        for _ in 0..60 {
            let cand = (u.0 + t * delta.0, u.1 + t * delta.1);
            let (rc, jc) = residual(cand);
            if sq_norm(&rc) < sq_norm(&r) {
                u = cand;
                r = rc;
                j = jc;
                improved = true;
                break;
            }
            t *= 0.5;
        }
        if !improved {
            break;
        }
    }
    let worst = r.iter().fold(0.0f64, |m, x| m.max(x.abs())) / scale;
    (u, worst)
}

// ---------------------------------------------------------------------------
// Statistics helpers
// ---------------------------------------------------------------------------

fn mean(x: &[f64]) -> f64 {
    x.iter().sum::<f64>() / x.len() as f64
}

fn mean_sq(x: &[f64]) -> f64 {
    x.iter().map(|v| v * v).sum::<f64>() / x.len() as f64
}

fn kurtosis(x: &[f64]) -> f64 {
    let m2 = mean_sq(x);
    x.iter().map(|v| v.powi(4)).sum::<f64>() / x.len() as f64 / (m2 * m2)
}

// Correlation coefficient of two zero-mean sequences
fn corr(a: &[f64], b: &[f64]) -> f64 {
    assert_eq!(a.len(), b.len());
    let ab = a.iter().zip(b).map(|(x, y)| x * y).sum::<f64>() / a.len() as f64;
    ab / (mean_sq(a) * mean_sq(b)).sqrt()
}

fn lag_corr(x: &[f64], lag: usize) -> f64 {
    corr(&x[..x.len() - lag], &x[lag..])
}

// Checks that `samples` look like independent N(0, sigma^2) variates. The
// tolerances are at least six standard deviations of each estimator, so a
// correct implementation fails with negligible probability, while a variance
// that is off by a factor such as the puncturing rate (4/3, 5/4), the bits per
// symbol (3) or a factor of 2 is far outside.
fn check_gaussian(what: &str, samples: &[f64], sigma: f64) {
    let n = samples.len() as f64;
    assert!(n >= 10_000.0, "[{what}] too few samples: {n}");
    assert!(samples.iter().all(|x| x.is_finite()), "[{what}] non finite");
    let m = mean(samples);
    assert!(
        m.abs() < 6.5 * sigma / n.sqrt(),
        "[{what}] mean {m} (sigma {sigma}, n {n})"
    );
    let v = mean_sq(samples);
    let rel = v / (sigma * sigma) - 1.0;
    assert!(
        rel.abs() < 6.5 * (2.0 / n).sqrt(),
        "[{what}] variance {v} expected {} (relative error {rel})",
        sigma * sigma
    );
    let kurt = kurtosis(samples);
    assert!(
        (kurt - 3.0).abs() < 6.5 * (96.0 / n).sqrt(),
        "[{what}] kurtosis {kurt}"
    );
    // fraction of samples beyond one and two standard deviations
    for (z, p) in [(1.0, 0.317_310_507_862_914), (2.0, 0.045_500_263_896_358_4)] {
        let frac = samples.iter().filter(|x| x.abs() > z * sigma).count() as f64 / n;
        let tol = 6.5 * (p * (1.0 - p) / n).sqrt();
        assert!(
            (frac - p).abs() < tol,
            "[{what}] fraction beyond {z} sigma is {frac}, expected {p}"
        );
    }
    for lag in 1..=4 {
        let c = lag_corr(samples, lag);
        assert!(c.abs() < 6.5 / n.sqrt(), "[{what}] lag {lag} correlation {c}");
    }
    // dependence between the magnitudes of neighbours
    let sq: Vec<f64> = samples.iter().map(|x| x * x - v).collect();
    for lag in 1..=2 {
        let c = lag_corr(&sq, lag);
        assert!(
            c.abs() < 6.5 / n.sqrt(),
            "[{what}] lag {lag} correlation of squares {c}"
        );
    }
}

fn check_uncorrelated(what: &str, a: &[f64], b: &[f64]) {
    let n = a.len() as f64;
    let c = corr(a, b);
    assert!(c.abs() < 6.5 / n.sqrt(), "[{what}] correlation {c}");
    let va = mean_sq(a);
    let vb = mean_sq(b);
    let a2: Vec<f64> = a.iter().map(|x| x * x - va).collect();
    let b2: Vec<f64> = b.iter().map(|x| x * x - vb).collect();
    let c2 = corr(&a2, &b2);
    assert!(c2.abs() < 6.5 / n.sqrt(), "[{what}] correlation of squares {c2}");
}

// ---------------------------------------------------------------------------
// Checks on what the decoder was handed
// ---------------------------------------------------------------------------

struct Noise {
    // noise samples in transmission order, frame after frame (for 8PSK the real
    // parts)
    re: Vec<f64>,
    // imaginary parts (8PSK only)
    im: Vec<f64>,
    // projection of each received sample on the transmitted symbol; its mean
    // is 1 exactly when the LLR scale matches the noise variance
    gain: Vec<f64>,
    per_frame: usize,
}

// Structural checks for every frame plus noise extraction for the frames whose
// Eb/N0 is `ebn0_db`. `frames` selects the frames to look at.
fn check_frames(cfg: &Config, frames: &[&FrameRecord], ebn0_db: f32) -> Noise {
    let name = cfg.name;
    let n_cw = cfg.h.num_cols();
    let rows = h_rows(&cfg.h);
    let kept = kept_positions(n_cw, cfg.pattern.as_deref());
    let order = transmit_order(n_cw, cfg.pattern.as_deref(), cfg.interleaving);
    let mut is_kept = vec![false; n_cw];
    for &j in &kept {
        is_kept[j] = true;
    }
    let sigma = predicted_sigma(cfg, ebn0_db);
    let pts = psk8_points();
    let mut noise = Noise {
        re: Vec::new(),
        im: Vec::new(),
        gain: Vec::new(),
        per_frame: order.len() / bits_per_symbol(cfg.modulation),
    };
    for (idx, frame) in frames.iter().enumerate() {
        let llrs = &frame.llrs;
        assert_eq!(llrs.len(), n_cw, "[{name}] frame {idx}: wrong length");
        assert_eq!(
            frame.max_iterations, cfg.max_iterations,
            "[{name}] frame {idx}: wrong iteration limit"
        );
        for j in 0..n_cw {
            if is_kept[j] {
                assert!(
                    llrs[j].is_finite() && llrs[j] != 0.0,
                    "[{name}] frame {idx}: LLR {j} is {}",
                    llrs[j]
                );
            } else {
                assert!(
                    llrs[j] == 0.0,
                    "[{name}] frame {idx}: punctured LLR {j} is {}",
                    llrs[j]
                );
            }
        }
        let (bits, unknown) = hard_bits(llrs);
        let word = match erasure_solve(&rows, bits, unknown) {
            Solve::Unique(w) => w,
            other => panic!("[{name}] frame {idx}: signs are not those of a codeword: {other:?}"),
        };
        for r in &rows {
            assert_eq!((r & word).count_ones() % 2, 0);
        }
        let bit = |j: usize| ((word >> j) & 1) as usize;
        match cfg.modulation {
            Modulation::Bpsk => {
                // LLR = -2 (s + noise) / sigma^2 with s = +1 for a 1 bit
                for &j in &order {
                    let y = -llrs[j] * sigma * sigma / 2.0;
                    let s = if bit(j) == 1 { 1.0 } else { -1.0 };
                    noise.re.push(y - s);
                    noise.gain.push(y * s);
                }
            }
            Modulation::Psk8 => {
                assert_eq!(order.len() % 3, 0);
                for sym in order.chunks_exact(3) {
                    let label = 4 * bit(sym[0]) + 2 * bit(sym[1]) + bit(sym[2]);
                    let c = pts[label];
                    let target = [llrs[sym[0]], llrs[sym[1]], llrs[sym[2]]];
                    let start = (c.0 / (sigma * sigma), c.1 / (sigma * sigma));
                    let (u, worst) = psk8_invert(target, start);
                    assert!(
                        worst < 1e-7,
                        "[{name}] frame {idx}: LLRs {target:?} at codeword positions {sym:?} \
                         are not the LLRs of one 8PSK sample (residual {worst})"
                    );
                    let y = (u.0 * sigma * sigma, u.1 * sigma * sigma);
                    noise.re.push(y.0 - c.0);
                    noise.im.push(y.1 - c.1);
                    noise.gain.push(y.0 * c.0 + y.1 * c.1);
                }
            }
        }
    }
    noise
}

fn check_noise(cfg: &Config, noise: &Noise, ebn0_db: f32) {
    let name = cfg.name;
    let sigma = predicted_sigma(cfg, ebn0_db);
    let n = noise.gain.len() as f64;
    let g = mean(&noise.gain);
    assert!(
        (g - 1.0).abs() < 6.5 * sigma / n.sqrt(),
        "[{name}] the LLR scale does not match the requested Eb/N0: gain {g}"
    );
    check_gaussian(&format!("{name} re"), &noise.re, sigma);
    if cfg.modulation == Modulation::Psk8 {
        check_gaussian(&format!("{name} im"), &noise.im, sigma);
        check_uncorrelated(&format!("{name} re/im"), &noise.re, &noise.im);
        // real part of a symbol against the imaginary part of the next one
        let m = noise.re.len();
        check_uncorrelated(
            &format!("{name} re/next im"),
            &noise.re[..m - 1],
            &noise.im[1..],
        );
    }
    // same position in consecutive frames (in the order the frames were
    // decoded)
    let p = noise.per_frame;
    if noise.re.len() > 2 * p {
        let m = noise.re.len();
        check_uncorrelated(
            &format!("{name} frame to frame"),
            &noise.re[..m - p],
            &noise.re[p..],
        );
    }
}

fn check_sizes(cfg: &Config, sizes: &Sizes) {
    let name = cfg.name;
    let n_cw = cfg.h.num_cols();
    let k = n_cw - cfg.h.num_rows();
    let n = kept_positions(n_cw, cfg.pattern.as_deref()).len();
    assert_eq!(sizes.n_cw, n_cw, "[{name}] n_cw");
    assert_eq!(sizes.k, k, "[{name}] k");
    assert_eq!(sizes.n, n, "[{name}] n");
    assert!(
        (sizes.rate - k as f64 / n as f64).abs() < 1e-12,
        "[{name}] rate {}",
        sizes.rate
    );
}

// Checks of the statistics against the behaviour of the probe decoder: every
// counted frame either was answered with the exact transmitted codeword (no
// bit errors) or with its first bit flipped (one bit error), so the number of
// bit errors equals the number of frame errors only if the systematic part of
// each frame is the message the simulator compares against.
fn check_statistics(cfg: &Config, outcome: &Outcome) -> Vec<Statistics> {
    let name = cfg.name;
    let stats = match &outcome.result {
        Ok(s) => s.clone(),
        Err(e) => panic!("[{name}] the BER test failed: {e}"),
    };
    assert!(outcome.log.bad_build.is_none(), "[{name}] {:?}", outcome.log.bad_build);
    assert_eq!(stats.len(), cfg.ebn0s_db.len(), "[{name}] number of Eb/N0 cases");
    let mut total_frames = 0;
    for (s, &e) in stats.iter().zip(&cfg.ebn0s_db) {
        assert_eq!(s.ebn0_db, e);
        assert_eq!(s.ldpc.frame_errors, cfg.max_frame_errors, "[{name}] frame errors");
        assert_eq!(
            s.ldpc.bit_errors, s.ldpc.frame_errors,
            "[{name}] the decoded systematic bits do not match the messages"
        );
        assert!(s.num_frames >= s.ldpc.frame_errors);
        assert_eq!(s.total_iterations, s.num_frames, "[{name}] iterations");
        total_frames += s.num_frames;
        assert!(s.bch.is_none());
    }
    assert!(
        outcome.log.frames.len() as u64 >= total_frames,
        "[{name}] {} frames decoded but {total_frames} frames counted",
        outcome.log.frames.len()
    );
    // reports: a final report for each Eb/N0 equal to the returned statistics
    // (except for the timing fields) and Finished at the end
    assert_eq!(outcome.reports.last(), Some(&Report::Finished), "[{name}] reports");
    for s in &stats {
        let found = outcome.reports.iter().any(|r| match r {
            Report::Statistics(t) => {
                t.ebn0_db == s.ebn0_db
                    && t.num_frames == s.num_frames
                    && t.ldpc.bit_errors == s.ldpc.bit_errors
                    && t.ldpc.frame_errors == s.ldpc.frame_errors
                    && t.false_decodes == s.false_decodes
            }
            Report::Finished => false,
        });
        assert!(found, "[{name}] no final report for Eb/N0 {}", s.ebn0_db);
    }
    stats
}

// Runs a single Eb/N0 and performs all the checks.
fn full_check(cfg: &Config) {
    assert_eq!(cfg.ebn0s_db.len(), 1);
    let outcome = run(cfg);
    check_sizes(cfg, &outcome.sizes);
    check_statistics(cfg, &outcome);
    let frames: Vec<&FrameRecord> = outcome.log.frames.iter().collect();
    let noise = check_frames(cfg, &frames, cfg.ebn0s_db[0]);
    check_noise(cfg, &noise, cfg.ebn0s_db[0]);
    // no frame is handed to a decoder twice
    for w in outcome.log.frames.windows(2) {
        assert!(w[0].llrs != w[1].llrs, "[{}] repeated frame", cfg.name);
    }
    // the noise seen by different decoders is different
    let mut firsts: Vec<(usize, &Vec<f64>)> = Vec::new();
    for f in &outcome.log.frames {
        if !firsts.iter().any(|(d, _)| *d == f.decoder) {
            firsts.push((f.decoder, &f.llrs));
        }
    }
    for a in 0..firsts.len() {
        for b in 0..a {
            assert!(firsts[a].1 != firsts[b].1, "[{}] workers share noise", cfg.name);
        }
    }
}

// Eb/N0 that gives the requested noise sigma for this configuration (so that
// sign flips are practically impossible and yet the noise is well visible).
fn ebn0_for_sigma(cfg: &Config, sigma: f64) -> f32 {
    let n_cw = cfg.h.num_cols();
    let k = n_cw - cfg.h.num_rows();
    let n = kept_positions(n_cw, cfg.pattern.as_deref()).len();
    let esn0 = 1.0 / (2.0 * sigma * sigma);
    let ebn0 = esn0 / ((k as f64 / n as f64) * bits_per_symbol(cfg.modulation) as f64);
    // round to a tenth of a dB, as a user would type it
    ((10.0 * ebn0.log10() * 10.0).round() / 10.0) as f32
}

fn config(
    name: &'static str,
    h: &SparseMatrix,
    modulation: Modulation,
    pattern: Option<&[u8]>,
    interleaving: Option<isize>,
) -> Config {
    let mut cfg = Config {
        name,
        h: h.clone(),
        modulation,
        pattern: pattern.map(|p| p.iter().map(|&b| b == 1).collect()),
        interleaving,
        ebn0s_db: vec![],
        max_frame_errors: 400,
        good_frames: 2,
        max_iterations: 37,
        panic_at: None,
        panic_all: false,
        delay: Duration::ZERO,
    };
    let sigma = match modulation {
        Modulation::Bpsk => 0.14,
        Modulation::Psk8 => 0.055,
    };
    cfg.ebn0s_db = vec![ebn0_for_sigma(&cfg, sigma)];
    if modulation == Modulation::Psk8 {
        // three bits per noise sample: more frames for the same sample size
        cfg.max_frame_errors = 700;
    }
    cfg
}

fn code_a() -> SparseMatrix {
    // (120, 60) staircase code
    make_h(120, 60, 1, true)
}

fn code_b() -> SparseMatrix {
    // (96, 64) code with a dense generator
    make_h(96, 64, 7, false)
}

#[test]
fn model_self_checks() {
    // the erasure solver and the matrices used below
    for (h, patterns) in [
        (code_a(), vec![vec![1u8, 1, 1, 0], vec![0, 1, 1, 1, 1], vec![1, 0, 1, 1, 0, 1]]),
        (code_b(), vec![vec![1u8, 1, 1, 0], vec![0, 1, 1, 1], vec![1, 1, 0]]),
    ] {
        let rows = h_rows(&h);
        let n_cw = h.num_cols();
        for p in patterns {
            let pattern: Vec<bool> = p.iter().map(|&b| b == 1).collect();
            let kept = kept_positions(n_cw, Some(&pattern));
            let mut unknown = 0u128;
            for j in 0..n_cw {
                if !kept.contains(&j) {
                    unknown |= 1 << j;
                }
            }
            // the all-zero word is a codeword and must be the unique solution
            assert_eq!(erasure_solve(&rows, 0, unknown), Solve::Unique(0), "{p:?}");
        }
    }
    // interleaver model against the documented examples
    assert_eq!(transmit_order(6, None, Some(3)), [0, 2, 4, 1, 3, 5]);
    assert_eq!(transmit_order(6, None, Some(-3)), [4, 2, 0, 5, 3, 1]);
    assert_eq!(
        transmit_order(10, Some(&[true, true, false, true, false]), None),
        [0, 1, 2, 3, 6, 7]
    );
    // 8PSK inversion
    let pts = psk8_points();
    for (l, c) in pts.iter().enumerate() {
        let u = (c.0 * 300.0 + 17.0, c.1 * 300.0 - 23.0);
        let (llrs, _) = psk8_llrs(u);
        for b in 0..3 {
            assert_eq!(llrs[b] < 0.0, (l >> (2 - b)) & 1 == 1);
        }
        let (v, worst) = psk8_invert(llrs, (c.0 * 300.0, c.1 * 300.0));
        assert!(worst < 1e-9);
        assert!((v.0 - u.0).abs() < 1e-6 && (v.1 - u.1).abs() < 1e-6, "{u:?} {v:?}");
    }
}

#[test]
fn bpsk_plain() {
    full_check(&config("bpsk plain A", &code_a(), Modulation::Bpsk, None, None));
    full_check(&config("bpsk plain B", &code_b(), Modulation::Bpsk, None, None));
}

#[test]
fn bpsk_punctured_and_interleaved() {
    let a = code_a();
    let b = code_b();
    full_check(&config("bpsk A p1110", &a, Modulation::Bpsk, Some(&[1, 1, 1, 0]), None));
    full_check(&config("bpsk A p01111 i4", &a, Modulation::Bpsk, Some(&[0, 1, 1, 1, 1]), Some(4)));
    full_check(&config("bpsk A p101101 i-5", &a, Modulation::Bpsk, Some(&[1, 0, 1, 1, 0, 1]), Some(-5)));
    full_check(&config("bpsk A i-8", &a, Modulation::Bpsk, None, Some(-8)));
    full_check(&config("bpsk A i1", &a, Modulation::Bpsk, None, Some(1)));
    full_check(&config("bpsk A i120", &a, Modulation::Bpsk, None, Some(120)));
    full_check(&config("bpsk A i-120", &a, Modulation::Bpsk, None, Some(-120)));
    full_check(&config("bpsk B p110", &b, Modulation::Bpsk, Some(&[1, 1, 0]), Some(-2)));
    full_check(&config("bpsk B p0111 i3", &b, Modulation::Bpsk, Some(&[0, 1, 1, 1]), Some(3)));
    full_check(&config("bpsk B p1", &b, Modulation::Bpsk, Some(&[1]), Some(-1)));
}

#[test]
fn psk8_all_settings() {
    let a = code_a();
    let b = code_b();
    full_check(&config("8psk A", &a, Modulation::Psk8, None, None));
    full_check(&config("8psk A i3", &a, Modulation::Psk8, None, Some(3)));
    full_check(&config("8psk A i-3", &a, Modulation::Psk8, None, Some(-3)));
    full_check(&config("8psk A p1110 i-3", &a, Modulation::Psk8, Some(&[1, 1, 1, 0]), Some(-3)));
    full_check(&config("8psk A p01111 i3", &a, Modulation::Psk8, Some(&[0, 1, 1, 1, 1]), Some(3)));
    full_check(&config("8psk A p01111 i-8", &a, Modulation::Psk8, Some(&[0, 1, 1, 1, 1]), Some(-8)));
    full_check(&config("8psk B p1110 i3", &b, Modulation::Psk8, Some(&[1, 1, 1, 0]), Some(3)));
    full_check(&config("8psk B p0111", &b, Modulation::Psk8, Some(&[0, 1, 1, 1]), None));
    full_check(&config("8psk B i-4", &b, Modulation::Psk8, None, Some(-4)));
}

// Several Eb/N0 in one run: each case must use its own noise level. The frames
// are attributed to the cases by the order in which they were decoded (the
// cases run one after the other; a few more frames than the counted ones can be
// decoded at the end of each case, and these are attributed by their LLR
// magnitude, the levels being 6 dB apart).
#[test]
fn several_ebn0() {
    for (modulation, base) in [(Modulation::Bpsk, 14.0f32), (Modulation::Psk8, 19.0f32)] {
        let mut cfg = config(
            "several Eb/N0",
            &code_a(),
            modulation,
            Some(&[1, 1, 1, 0]),
            Some(3),
        );
        cfg.ebn0s_db = vec![base, base + 6.0, base + 12.0];
        cfg.max_frame_errors = 600;
        let outcome = run(&cfg);
        check_sizes(&cfg, &outcome.sizes);
        let stats = check_statistics(&cfg, &outcome);
        let kept = kept_positions(120, cfg.pattern.as_deref());
        // attribute by magnitude: the mean |LLR| of a frame is c / sigma^2,
        // with c = 2 for BPSK and c close to (1 + 2 (1 - sqrt(1/2))) / 3 for
        // 8PSK at these noise levels
        let c_mod = match modulation {
            Modulation::Bpsk => 2.0,
            Modulation::Psk8 => (1.0 + 2.0 * (1.0 - std::f64::consts::FRAC_1_SQRT_2)) / 3.0,
        };
        let level = |f: &FrameRecord| {
            let m = kept.iter().map(|&j| f.llrs[j].abs()).sum::<f64>() / kept.len() as f64;
            let miss = |i: usize| (m * predicted_sigma(&cfg, cfg.ebn0s_db[i]).powi(2) / c_mod).ln().abs();
            let best = (0..cfg.ebn0s_db.len())
                .min_by(|&a, &b| miss(a).partial_cmp(&miss(b)).unwrap())
                .unwrap();
            assert!(miss(best) < 0.3, "frame with mean |LLR| {m} matches no Eb/N0");
            best
        };
        let mut by_case: Vec<Vec<&FrameRecord>> = vec![Vec::new(); cfg.ebn0s_db.len()];
        for f in &outcome.log.frames {
            assert_eq!(f.llrs.len(), 120);
            by_case[level(f)].push(f);
        }
        for (i, frames) in by_case.iter().enumerate() {
            assert!(
                frames.len() as u64 >= stats[i].num_frames,
                "case {i}: {} frames at this noise level, {} counted",
                frames.len(),
                stats[i].num_frames
            );
            let noise = check_frames(&cfg, frames, cfg.ebn0s_db[i]);
            check_noise(&cfg, &noise, cfg.ebn0s_db[i]);
        }
    }
}

// Error paths and degenerate settings: nothing malformed may reach the decoder.
#[test]
fn corner_cases() {
    let a = code_a();
    // pattern length does not divide the codeword length
    let mut cfg = config("bad pattern", &a, Modulation::Bpsk, None, None);
    cfg.pattern = Some(vec![true, true, false, true, true, true, false]);
    cfg.ebn0s_db = vec![10.0];
    let outcome = run(&cfg);
    assert!(outcome.result.is_err(), "bad pattern accepted");
    assert!(outcome.log.frames.is_empty(), "frames decoded with a bad pattern");
    assert_eq!(outcome.reports.last(), Some(&Report::Finished));

    // the number of interleaver columns does not divide the frame length
    let mut cfg = config("bad interleaver", &a, Modulation::Bpsk, Some(&[1, 1, 1, 0]), Some(7));
    cfg.ebn0s_db = vec![10.0];
    let outcome = run(&cfg);
    assert!(outcome.result.is_err(), "bad interleaver accepted");
    assert!(outcome.log.frames.is_empty());
    assert_eq!(outcome.reports.last(), Some(&Report::Finished));

    // 8PSK with a frame length that is not a multiple of 3
    let mut cfg = config("8psk 80", &a, Modulation::Psk8, Some(&[1, 0, 1, 1, 0, 1]), Some(2));
    cfg.ebn0s_db = vec![10.0];
    let outcome = run(&cfg);
    assert!(outcome.result.is_err(), "8PSK with 80 bits accepted");
    assert!(outcome.log.frames.is_empty());

    // no frame errors requested: the case finishes immediately with no frames
    // counted; whatever was decoded meanwhile must still be well formed
    let mut cfg = config("zero errors", &a, Modulation::Psk8, Some(&[1, 1, 1, 0]), Some(-3));
    cfg.max_frame_errors = 0;
    let e = cfg.ebn0s_db[0];
    cfg.ebn0s_db = vec![e, e];
    let outcome = run(&cfg);
    let stats = outcome.result.as_ref().expect("zero errors");
    assert_eq!(stats.len(), 2);
    assert!(stats.iter().all(|s| s.num_frames == 0 && s.ldpc.bit_errors == 0));
    check_sizes(&cfg, &outcome.sizes);
    let frames: Vec<&FrameRecord> = outcome.log.frames.iter().collect();
    check_frames(&cfg, &frames, e);

    // a single frame error
    let mut cfg = config("one error", &a, Modulation::Bpsk, Some(&[0, 1, 1, 1, 1]), Some(-4));
    cfg.max_frame_errors = 1;
    cfg.good_frames = 0;
    let outcome = run(&cfg);
    let stats = check_statistics(&cfg, &outcome);
    assert_eq!(stats[0].num_frames, 1);
    let frames: Vec<&FrameRecord> = outcome.log.frames.iter().collect();
    check_frames(&cfg, &frames, cfg.ebn0s_db[0]);

    // very high Eb/N0 (noise far below the resolution of the symbols)
    let mut cfg = config("200 dB", &a, Modulation::Bpsk, Some(&[1, 1, 1, 0]), Some(9));
    cfg.ebn0s_db = vec![200.0];
    cfg.max_frame_errors = 50;
    let outcome = run(&cfg);
    check_statistics(&cfg, &outcome);
    let sigma = predicted_sigma(&cfg, 200.0);
    let kept = kept_positions(120, cfg.pattern.as_deref());
    for f in &outcome.log.frames {
        assert_eq!(f.llrs.len(), 120);
        for j in 0..120 {
            if kept.contains(&j) {
                let rel = f.llrs[j].abs() * sigma * sigma / 2.0 - 1.0;
                assert!(rel.abs() < 1e-9, "LLR magnitude at 200 dB: {}", f.llrs[j]);
            } else {
                assert!(f.llrs[j] == 0.0);
            }
        }
        let (bits, unknown) = hard_bits(&f.llrs);
        assert!(matches!(erasure_solve(&h_rows(&a), bits, unknown), Solve::Unique(_)));
    }
}

// Starting and stopping: many short cases in a row, with zero to three frame
// errors each. Every frame that reaches a decoder must be well formed, whether
// it is counted or not.
#[test]
fn many_short_runs() {
    let a = code_a();
    let b = code_b();
    for i in 0..24u64 {
        let mut cfg = match i % 4 {
            0 => config("short bpsk", &a, Modulation::Bpsk, Some(&[1, 1, 1, 0]), Some(-6)),
            1 => config("short 8psk", &a, Modulation::Psk8, Some(&[0, 1, 1, 1, 1]), Some(3)),
            2 => config("short bpsk B", &b, Modulation::Bpsk, None, Some(4)),
            _ => config("short 8psk B", &b, Modulation::Psk8, Some(&[1, 1, 1, 0]), Some(-3)),
        };
        let e = cfg.ebn0s_db[0];
        cfg.ebn0s_db = vec![e, e, e];
        cfg.max_frame_errors = (i / 4) % 4;
        cfg.good_frames = (i % 3) as usize;
        let outcome = run(&cfg);
        check_sizes(&cfg, &outcome.sizes);
        let stats = check_statistics(&cfg, &outcome);
        assert_eq!(stats.len(), 3);
        if cfg.good_frames == 0 {
            assert!(stats.iter().all(|s| s.num_frames == cfg.max_frame_errors));
        }
        let frames: Vec<&FrameRecord> = outcome.log.frames.iter().collect();
        check_frames(&cfg, &frames, e);
    }
}

// Decoders that panic and decoders that are slow.
#[test]
fn panicking_and_slow_decoders() {
    let a = code_a();
    // every decoder panics at its fourth frame: the test must end with an error
    let mut cfg = config("all panic", &a, Modulation::Psk8, Some(&[1, 1, 1, 0]), Some(3));
    cfg.panic_at = Some(4);
    cfg.panic_all = true;
    cfg.good_frames = 1000;
    cfg.max_frame_errors = 10;
    let outcome = run(&cfg);
    assert!(outcome.result.is_err(), "all the decoders panicked but the test succeeded");
    assert_eq!(outcome.reports.last(), Some(&Report::Finished));
    let frames: Vec<&FrameRecord> = outcome.log.frames.iter().collect();
    assert!(!frames.is_empty());
    check_frames(&cfg, &frames, cfg.ebn0s_db[0]);

    // only one decoder panics: the others complete the case, and the error is
    // reported at the end
    let mut cfg = config("one panics", &a, Modulation::Bpsk, Some(&[0, 1, 1, 1, 1]), Some(-8));
    cfg.panic_at = Some(1);
    cfg.max_frame_errors = 40;
    cfg.delay = Duration::from_millis(1);
    let outcome = run(&cfg);
    assert!(outcome.result.is_err(), "a decoder panicked but the test succeeded");
    let frames: Vec<&FrameRecord> = outcome.log.frames.iter().collect();
    check_frames(&cfg, &frames, cfg.ebn0s_db[0]);

    // slow decoders
    let mut cfg = config("slow", &a, Modulation::Psk8, None, Some(-3));
    cfg.delay = Duration::from_millis(3);
    cfg.max_frame_errors = 60;
    let e = cfg.ebn0s_db[0];
    cfg.ebn0s_db = vec![e, e + 3.0];
    let outcome = run(&cfg);
    check_sizes(&cfg, &outcome.sizes);
    check_statistics(&cfg, &outcome);
    for f in &outcome.log.frames {
        assert_eq!(f.llrs.len(), 120);
        let (bits, unknown) = hard_bits(&f.llrs);
        assert_eq!(unknown, 0);
        assert!(matches!(erasure_solve(&h_rows(&a), bits, 0), Solve::Unique(_)));
    }
}

// ---------------------------------------------------------------------------
// Sweep of puncturing patterns and interleavers, and the receiver stages on
// their own against the model
// ---------------------------------------------------------------------------

// Many puncturing patterns (leading, trailing, alternating and isolated
// punctured blocks, pattern lengths from 1 to 24) combined with different
// interleavers, all of them with every check of `full_check`. Each worker
// processes dozens of frames, so anything that leaks from one frame to the
// next (stale values in a reused buffer, a punctured position that is not
// cleared) is seen as a nonzero punctured LLR, a sign error or correlated
// noise.
#[test]
fn puncturing_and_interleaving_sweep() {
    let a = code_a();
    let rows = h_rows(&a);
    let patterns: Vec<Vec<u8>> = vec![
        vec![1, 0],
        vec![0, 1, 1],
        vec![1, 0, 1],
        vec![1, 1, 0, 1],
        vec![1, 0, 1, 1, 1, 0],
        vec![0, 1, 1, 1, 1, 0],
        vec![1, 1, 1, 1, 1, 1, 0, 0],
        vec![0, 1, 0, 1, 1, 1, 1, 1, 0, 1],
        vec![1, 1, 1, 0, 1, 1, 0, 1, 1, 1, 0, 1],
        vec![1, 0, 1, 1, 0, 1, 1, 1, 1, 1, 1, 1, 0, 1, 1, 1, 1, 1, 1, 0, 1, 1, 1, 0],
        vec![1; 15],
    ];
    let mut tested = 0;
    for (idx, p) in patterns.iter().enumerate() {
        let pattern: Vec<bool> = p.iter().map(|&b| b == 1).collect();
        let kept = kept_positions(120, Some(&pattern));
        let mut unknown = 0u128;
        for j in 0..120 {
            if !kept.contains(&j) {
                unknown |= 1 << j;
            }
        }
        if erasure_solve(&rows, 0, unknown) != Solve::Unique(0) {
            // the punctured bits cannot be recovered from the others with this
            // matrix: the signs cannot be checked, so the pattern is not used
            continue;
        }
        tested += 1;
        let n = kept.len();
        // interleavers that fit this frame length
        let mut columns: Vec<isize> = Vec::new();
        for c in [2isize, 3, 4, 5, 6, 8, 10, 12, 15, 20] {
            if n % c as usize == 0 {
                columns.push(if (c + idx as isize) % 2 == 0 { c } else { -c });
            }
        }
        let choices = [columns[idx % columns.len()], columns[(idx + 2) % columns.len()]];
        for c in choices {
            full_check(&config("sweep bpsk", &a, Modulation::Bpsk, Some(p), Some(c)));
        }
        if n % 3 == 0 {
            let c = if idx % 2 == 0 { 3 } else { -3 };
            let mut cfg = config("sweep 8psk", &a, Modulation::Psk8, Some(p), Some(c));
            // keep at least 10000 noise samples also for the short frames
            cfg.max_frame_errors = (3 * 10_500 / n) as u64 + 1;
            full_check(&cfg);
        }
    }
    assert!(tested >= 8, "only {tested} patterns could be used");
}

mod stages_direct {
    use super::{psk8_llrs, psk8_points};
    use ldpc_toolbox::simulation::{
        interleaving::Interleaver,
        modulation::{BpskDemodulator, Demodulator, Modulation, Psk8, Psk8Demodulator},
        puncturing::Puncturer,
    };

    // Complex<f64>, named through the public 8PSK modulation
    type C = <Psk8 as Modulation>::T;

    #[test]
    fn psk8_demodulator_matches_the_exact_llr_formula() {
        let pts = psk8_points();
        let mut symbols = Vec::new();
        // the constellation points, a polar grid and a few far away points
        for c in pts {
            symbols.push((c.0, c.1));
        }
        for r in [0.0, 1e-3, 0.2, 0.7, 1.0, 1.3, 2.5, 40.0] {
            for t in 0..48 {
                let phi = (t as f64 + 0.25) * std::f64::consts::PI / 24.0;
                symbols.push((r * phi.cos(), r * phi.sin()));
            }
        }
        for sigma in [0.01, 0.055, 0.1, 0.3, 1.0, 7.0, 1e3] {
            for demod in [Psk8Demodulator::new(sigma), Psk8Demodulator::from_noise_sigma(sigma)] {
                let input: Vec<C> = symbols.iter().map(|&(x, y)| C::new(x, y)).collect();
                let llrs = demod.demodulate(&input);
                assert_eq!(llrs.len(), 3 * input.len());
                for (j, &(x, y)) in symbols.iter().enumerate() {
                    let u = (x / (sigma * sigma), y / (sigma * sigma));
                    let (expected, _) = psk8_llrs(u);
                    let size = 1.0 + u.0.abs() + u.1.abs();
                    for b in 0..3 {
                        let got = llrs[3 * j + b];
                        assert!(
                            (got - expected[b]).abs() <= 1e-12 * size,
                            "sigma {sigma} symbol ({x}, {y}) bit {b}: {got} instead of {}",
                            expected[b]
                        );
                    }
                }
                // each call is independent of the previous ones
                let again = demod.demodulate(&input[..5]);
                assert_eq!(&again[..], &llrs[..15]);
                assert!(demod.demodulate(&[]).is_empty());
            }
        }
    }

    #[test]
    fn bpsk_demodulator_scale() {
        for sigma in [0.01, 0.14, 1.0, 30.0] {
            let demod = BpskDemodulator::new(sigma);
            let x = [1.0, -1.0, 0.0, 0.25, -3.5, 1e6];
            let llrs = demod.demodulate(&x);
            assert_eq!(llrs.len(), x.len());
            for (l, s) in llrs.iter().zip(x) {
                let expected = -2.0 * s / (sigma * sigma);
                assert!((l - expected).abs() <= 1e-14 * expected.abs(), "{l} {expected}");
            }
            assert!(demod.demodulate(&[]).is_empty());
        }
    }

    #[test]
    fn deinterleaver_and_depuncturer_against_the_model() {
        for cols in 1..=9usize {
            for rows in 0..=6usize {
                for backwards in [false, true] {
                    let len = rows * cols;
                    let c = if backwards { -(cols as isize) } else { cols as isize };
                    let order = super::transmit_order(len, None, Some(c));
                    // received[t] is the value of codeword position order[t]
                    let received: Vec<f64> = order.iter().map(|&j| j as f64 + 0.5).collect();
                    let out = Interleaver::new(cols, backwards).deinterleave(&received);
                    let expected: Vec<f64> = (0..len).map(|j| j as f64 + 0.5).collect();
                    assert_eq!(out, expected, "cols {cols} rows {rows} backwards {backwards}");
                }
            }
        }
        let patterns: [&[bool]; 5] = [
            &[true],
            &[false, true],
            &[true, true, false, true, false],
            &[false, false, true, true, false, true],
            &[true, false, false, false],
        ];
        for pattern in patterns {
            for block in 0..5usize {
                let n_cw = block * pattern.len();
                let kept = super::kept_positions(n_cw, Some(pattern));
                let received: Vec<f64> = kept.iter().map(|&j| j as f64 + 0.5).collect();
                let out = Puncturer::new(pattern).depuncture(&received).unwrap();
                assert_eq!(out.len(), n_cw);
                for j in 0..n_cw {
                    if kept.contains(&j) {
                        assert_eq!(out[j], j as f64 + 0.5);
                    } else {
                        assert!(out[j] == 0.0 && out[j].is_sign_positive());
                    }
                }
            }
        }
        assert!(Puncturer::new(&[true, true, false]).depuncture(&[1.0, 2.0, 3.0]).is_err());
    }
}
