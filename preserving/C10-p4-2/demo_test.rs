// Demonstration for property C10: a decoder object carries no state from one
// frame to the next.
//
// For every one of the 36 decoder implementations, several parity check
// matrices (regular, irregular, with unconnected / degree-1 variable nodes,
// built in shuffled insertion order and through alist), and pseudo-random call
// histories (clean frames, correctable frames, hopeless frames, LLR magnitudes
// from 1e-30 to 1e30, zeros, iteration limits including 0), every call on the
// reused decoder must return exactly what a freshly built decoder returns for
// the same arguments. The same is checked for clones taken in the middle of a
// history and for the statically typed decoders.
//
// Only the public API of `ldpc_toolbox` and std are used. Everything is
// deterministic (fixed seeds) and bounded (small codes, bounded iterations); a
// watchdog aborts the test if it ever takes unreasonably long.

use ldpc_toolbox::decoder::{
    DecoderOutput, LdpcDecoder, Message, SentMessage,
    arithmetic::*,
    factory::{DecoderFactory, DecoderImplementation},
    flooding, horizontal_layered,
};
use ldpc_toolbox::sparse::SparseMatrix;
use std::panic::{AssertUnwindSafe, catch_unwind};
use std::sync::mpsc;
use std::time::Duration;

const IMPLEMENTATIONS: [&str; 36] = [
    "Phif64",
    "Phif32",
    "Tanhf64",
    "Tanhf32",
    "Minstarapproxf64",
    "Minstarapproxf32",
    "Minstarapproxi8",
    "Minstarapproxi8Jones",
    "Minstarapproxi8PartialHardLimit",
    "Minstarapproxi8JonesPartialHardLimit",
    "Minstarapproxi8Deg1Clip",
    "Minstarapproxi8JonesDeg1Clip",
    "Minstarapproxi8PartialHardLimitDeg1Clip",
    "Minstarapproxi8JonesPartialHardLimitDeg1Clip",
    "Aminstarf64",
    "Aminstarf32",
    "Aminstari8",
    "Aminstari8Jones",
    "Aminstari8PartialHardLimit",
    "Aminstari8JonesPartialHardLimit",
    "Aminstari8Deg1Clip",
    "Aminstari8JonesDeg1Clip",
    "Aminstari8PartialHardLimitDeg1Clip",
    "Aminstari8JonesPartialHardLimitDeg1Clip",
    "HLPhif64",
    "HLPhif32",
    "HLTanhf64",
    "HLTanhf32",
    "HLMinstarapproxf64",
    "HLMinstarapproxf32",
    "HLMinstarapproxi8",
    "HLMinstarapproxi8PartialHardLimit",
    "HLAminstarf64",
    "HLAminstarf32",
    "HLAminstari8",
    "HLAminstari8PartialHardLimit",
];

// ---------------------------------------------------------------------------
// Deterministic pseudo-random numbers (splitmix64)
// ---------------------------------------------------------------------------

struct Rng(u64);

impl Rng {
    fn next(&mut self) -> u64 {
        self.0 = self.0.wrapping_add(0x9e37_79b9_7f4a_7c15);
        let mut z = self.0;
        z = (z ^ (z >> 30)).wrapping_mul(0xbf58_476d_1ce4_e5b9);
        z = (z ^ (z >> 27)).wrapping_mul(0x94d0_49bb_1331_11eb);
        z ^ (z >> 31)
    }

    fn below(&mut self, n: usize) -> usize {
        (self.next() % (n as u64)) as usize
    }

    fn unit(&mut self) -> f64 {
        (self.next() >> 11) as f64 / (1u64 << 53) as f64
    }

    fn shuffle<T>(&mut self, v: &mut [T]) {
        for i in (1..v.len()).rev() {
            let j = self.below(i + 1);
            v.swap(i, j);
        }
    }
}

// ---------------------------------------------------------------------------
// Fingerprint of everything that was returned (FNV-1a); printed at the end so
// that two builds can be compared with `--nocapture`.
// ---------------------------------------------------------------------------

struct Fingerprint(u64, [u64; 4]);

impl Fingerprint {
    fn new() -> Fingerprint {
        Fingerprint(0xcbf2_9ce4_8422_2325, [0; 4])
    }

    fn byte(&mut self, b: u8) {
        self.0 ^= u64::from(b);
        self.0 = self.0.wrapping_mul(0x0000_0100_0000_01b3);
    }

    fn word(&mut self, w: u64) {
        for b in w.to_le_bytes() {
            self.byte(b);
        }
    }

    fn result(&mut self, r: &Result<DecoderOutput, DecoderOutput>) {
        let (tag, o) = match r {
            Ok(o) => (1u8, o),
            Err(o) => (2u8, o),
        };
        // statistics: clean frames, successes, failures, zero-iteration failures
        let class = match r {
            Ok(o) if o.iterations == 0 => 0,
            Ok(_) => 1,
            Err(o) if o.iterations > 0 => 2,
            Err(_) => 3,
        };
        self.1[class] += 1;
        self.byte(tag);
        self.word(o.iterations as u64);
        self.word(o.codeword.len() as u64);
        for &b in &o.codeword {
            self.byte(b);
        }
    }
}

// ---------------------------------------------------------------------------
// Parity check matrices
// ---------------------------------------------------------------------------

fn from_entries(nrows: usize, ncols: usize, entries: &[(usize, usize)]) -> SparseMatrix {
    let mut h = SparseMatrix::new(nrows, ncols);
    for &(r, c) in entries {
        h.insert(r, c);
    }
    h
}

fn johnson() -> SparseMatrix {
    // Example 2.5 in Sarah J. Johnson - Iterative Error Correction
    let mut h = SparseMatrix::new(4, 6);
    h.insert_row(0, [0, 1, 3].iter());
    h.insert_row(1, [1, 2, 4].iter());
    h.insert_row(2, [0, 4, 5].iter());
    h.insert_row(3, [2, 3, 5].iter());
    h
}

// Random matrix in which every check node has degree >= 2 (degree-1 check
// nodes make the min* arithmetics panic by design, see `panicking_shapes`).
// The entries are inserted in shuffled order, so the per-row and per-column
// iteration orders are not sorted.
fn random_matrix(
    rng: &mut Rng,
    nrows: usize,
    ncols: usize,
    col_weight: usize,
    unconnected_cols: usize,
    degree_one_cols: usize,
) -> SparseMatrix {
    let mut entries: Vec<(usize, usize)> = Vec::new();
    let mut row_deg = vec![0usize; nrows];
    for c in 0..ncols {
        let w = if c < unconnected_cols {
            0
        } else if c < unconnected_cols + degree_one_cols {
            1
        } else {
            col_weight.min(nrows)
        };
        let mut rows: Vec<usize> = (0..nrows).collect();
        rng.shuffle(&mut rows);
        for &r in rows.iter().take(w) {
            entries.push((r, c));
            row_deg[r] += 1;
        }
    }
    // top up rows of degree < 2
    for r in 0..nrows {
        let mut c = rng.below(ncols);
        while row_deg[r] < 2 {
            if !entries.contains(&(r, c)) {
                entries.push((r, c));
                row_deg[r] += 1;
            }
            c = (c + 1) % ncols;
        }
    }
    rng.shuffle(&mut entries);
    from_entries(nrows, ncols, &entries)
}

fn matrices() -> Vec<(&'static str, SparseMatrix)> {
    let mut rng = Rng(0xC10_0001);
    let mut v = Vec::new();
    v.push(("johnson", johnson()));
    v.push(("regular24", random_matrix(&mut rng, 12, 24, 3, 0, 0)));
    v.push(("irregular20", random_matrix(&mut rng, 9, 20, 3, 2, 3)));
    // the same matrix after a round trip through alist: the iteration order
    // of rows and columns is different (sorted), the code is the same
    let irregular = random_matrix(&mut rng, 10, 18, 2, 1, 2);
    let roundtrip = SparseMatrix::from_alist(&irregular.alist()).unwrap();
    v.push(("irregular18", irregular));
    v.push(("irregular18-alist", roundtrip));
    v.push(("dense8", random_matrix(&mut rng, 5, 8, 4, 0, 0)));
    v.push(("wide60", random_matrix(&mut rng, 20, 60, 3, 0, 1)));
    v
}

// ---------------------------------------------------------------------------
// Frames
// ---------------------------------------------------------------------------

fn magnitude(rng: &mut Rng) -> f64 {
    match rng.below(12) {
        0 => 0.0,
        1 => 1e30,
        2 => 1e-30,
        3 => 10f64.powi(rng.below(61) as i32 - 30),
        4 => 15.875,        // exactly 127 / 8
        5 => 15.9375,       // just above the 8-bit range
        6 => 0.0625,        // rounds to 0 or 1 after 8-bit quantisation
        7 => 14.5 * rng.unit(),
        _ => 1.3863 + 2.0 * (rng.unit() - 0.5),
    }
}

// LLRs around the all-zeros codeword (which belongs to every linear code).
fn frame(rng: &mut Rng, n: usize, kind: usize) -> Vec<f64> {
    let mut llrs: Vec<f64> = (0..n).map(|_| magnitude(rng)).collect();
    match kind {
        // clean frame (zeros count as bit 1 for the syndrome check, so this is
        // not always a codeword, which is fine)
        0 => {}
        // one flipped bit
        1 => {
            let j = rng.below(n);
            llrs[j] = -llrs[j].abs().max(0.3);
        }
        // a few flipped bits
        2 => {
            for _ in 0..(1 + rng.below(3)) {
                let j = rng.below(n);
                llrs[j] = -llrs[j];
            }
        }
        // hopeless frame: random signs
        3 => {
            for x in llrs.iter_mut() {
                if rng.below(2) == 0 {
                    *x = -*x;
                }
            }
        }
        // moderate frame with plain magnitudes, many errors
        4 => {
            for x in llrs.iter_mut() {
                *x = 1.3863 + 4.0 * (rng.unit() - 0.5);
                if rng.below(5) == 0 {
                    *x = -*x;
                }
            }
        }
        // saturated frame: everything huge, some signs wrong
        5 => {
            for x in llrs.iter_mut() {
                *x = if rng.below(6) == 0 { -1e30 } else { 1e30 };
            }
        }
        // all zeros and negative zeros
        6 => {
            for x in llrs.iter_mut() {
                *x = if rng.below(2) == 0 { 0.0 } else { -0.0 };
            }
        }
        // tiny magnitudes
        _ => {
            for x in llrs.iter_mut() {
                *x = 1e-30 * if rng.below(3) == 0 { -1.0 } else { 1.0 };
            }
        }
    }
    llrs
}

const LIMITS: [usize; 12] = [0, 1, 0, 2, 3, 5, 0, 10, 25, 1, 50, 7];

fn build(name: &str, h: &SparseMatrix) -> Box<dyn LdpcDecoder> {
    let implementation: DecoderImplementation = name.parse().expect("known implementation");
    // Display and FromStr must agree
    assert_eq!(implementation.to_string(), name);
    implementation.build_decoder(h.clone())
}

fn check_output_shape(r: &Result<DecoderOutput, DecoderOutput>, n: usize, limit: usize) {
    match r {
        Ok(o) => {
            assert_eq!(o.codeword.len(), n);
            assert!(o.iterations <= limit);
            assert!(o.codeword.iter().all(|&b| b <= 1));
        }
        Err(o) => {
            assert_eq!(o.codeword.len(), n);
            assert_eq!(o.iterations, limit);
            assert!(o.codeword.iter().all(|&b| b <= 1));
        }
    }
}

// A successful decode must return a word that satisfies all parity checks.
fn check_success_is_codeword(h: &SparseMatrix, r: &Result<DecoderOutput, DecoderOutput>) {
    if let Ok(o) = r {
        for row in 0..h.num_rows() {
            let parity = h
                .iter_row(row)
                .filter(|&&c| o.codeword[c] == 1)
                .count()
                % 2;
            assert_eq!(parity, 0, "Ok() output violates parity check {row}");
        }
    }
}

fn histories(fp: &mut Fingerprint) {
    let matrices = matrices();
    for (mi, (mname, h)) in matrices.iter().enumerate() {
        let n = h.num_cols();
        for (ii, name) in IMPLEMENTATIONS.iter().enumerate() {
            let mut rng = Rng(0xC10_1000 + 977 * mi as u64 + ii as u64);
            let mut reused = build(name, h);
            let mut clone_source: Option<Vec<f64>> = None;
            let calls = 22;
            for call in 0..calls {
                let kind = rng.below(8);
                let llrs = if call % 7 == 6 {
                    // now and then repeat an earlier frame with another limit
                    clone_source.clone().unwrap_or_else(|| frame(&mut rng, n, kind))
                } else {
                    frame(&mut rng, n, kind)
                };
                if call % 5 == 1 {
                    clone_source = Some(llrs.clone());
                }
                let limit = LIMITS[rng.below(LIMITS.len())];
                let got = reused.decode(&llrs, limit);
                let want = build(name, h).decode(&llrs, limit);
                assert_eq!(
                    got, want,
                    "{name} on {mname}: call {call} (limit {limit}) differs from a fresh decoder"
                );
                check_output_shape(&got, n, limit);
                check_success_is_codeword(h, &got);
                fp.result(&got);
                // the same call again: must not depend on having just seen it
                if call % 4 == 3 {
                    let again = reused.decode(&llrs, limit);
                    assert_eq!(again, want, "{name} on {mname}: repeated call {call} differs");
                }
            }
        }
    }
}

// Statically typed decoders, clones taken in the middle of a history.
fn typed_and_clones(fp: &mut Fingerprint) {
    fn run<D, F>(fp: &mut Fingerprint, label: &str, h: &SparseMatrix, make: F, seed: u64)
    where
        D: LdpcDecoder + Clone,
        F: Fn(SparseMatrix) -> D,
    {
        let n = h.num_cols();
        let mut rng = Rng(seed);
        let mut reused = make(h.clone());
        for call in 0..16 {
            let kind = rng.below(8);
            let llrs = frame(&mut rng, n, kind);
            let limit = LIMITS[rng.below(LIMITS.len())];
            let mut cloned = reused.clone();
            let want = make(h.clone()).decode(&llrs, limit);
            let got_clone = cloned.decode(&llrs, limit);
            let got = reused.decode(&llrs, limit);
            assert_eq!(got, want, "{label}: call {call} differs from a fresh decoder");
            assert_eq!(got_clone, want, "{label}: clone at call {call} differs");
            check_success_is_codeword(h, &got);
            fp.result(&got);
        }
    }

    let mut rng = Rng(0xC10_2000);
    let hs = [
        johnson(),
        random_matrix(&mut rng, 8, 16, 3, 1, 1),
        random_matrix(&mut rng, 15, 30, 3, 0, 2),
    ];
    for (k, h) in hs.iter().enumerate() {
        let s = 0xC10_3000 + 100 * k as u64;
        run(fp, "flooding Phif64", h, |h| flooding::Decoder::new(h, Phif64::new()), s + 1);
        run(fp, "flooding Phif32", h, |h| flooding::Decoder::new(h, Phif32::new()), s + 2);
        run(fp, "flooding Tanhf64", h, |h| flooding::Decoder::new(h, Tanhf64::new()), s + 3);
        run(fp, "flooding Tanhf32", h, |h| flooding::Decoder::new(h, Tanhf32::new()), s + 4);
        run(
            fp,
            "flooding Minstarapproxf64",
            h,
            |h| flooding::Decoder::new(h, Minstarapproxf64::new()),
            s + 5,
        );
        run(
            fp,
            "flooding Minstarapproxi8Jones",
            h,
            |h| flooding::Decoder::new(h, Minstarapproxi8Jones::new()),
            s + 6,
        );
        run(fp, "flooding Aminstarf32", h, |h| flooding::Decoder::new(h, Aminstarf32::new()), s + 7);
        run(
            fp,
            "flooding Aminstari8JonesPartialHardLimitDeg1Clip",
            h,
            |h| flooding::Decoder::new(h, Aminstari8JonesPartialHardLimitDeg1Clip::new()),
            s + 8,
        );
        run(fp, "hl Phif64", h, |h| horizontal_layered::Decoder::new(h, Phif64::new()), s + 9);
        run(fp, "hl Tanhf32", h, |h| horizontal_layered::Decoder::new(h, Tanhf32::new()), s + 10);
        run(
            fp,
            "hl Minstarapproxf32",
            h,
            |h| horizontal_layered::Decoder::new(h, Minstarapproxf32::new()),
            s + 11,
        );
        run(
            fp,
            "hl Minstarapproxi8PartialHardLimit",
            h,
            |h| horizontal_layered::Decoder::new(h, Minstarapproxi8PartialHardLimit::new()),
            s + 12,
        );
        run(fp, "hl Aminstarf64", h, |h| horizontal_layered::Decoder::new(h, Aminstarf64::new()), s + 13);
        run(
            fp,
            "hl Aminstari8Jones (not in the factory)",
            h,
            |h| horizontal_layered::Decoder::new(h, Aminstari8Jones::new()),
            s + 14,
        );
    }
}

// One decoder object shared by two interleaved streams of very different
// frames (as a BER worker or a C handle would see).
fn interleaved_streams(fp: &mut Fingerprint) {
    let mut rng = Rng(0xC10_4000);
    let h = random_matrix(&mut rng, 16, 32, 3, 0, 0);
    let n = h.num_cols();
    for name in IMPLEMENTATIONS.iter() {
        let mut shared = build(name, &h);
        let mut only_a = build(name, &h);
        for round in 0..10 {
            let a = frame(&mut rng, n, 4);
            let b = frame(&mut rng, n, 3 + 2 * (round % 2));
            let limit_a = 20;
            let limit_b = [0, 1, 3][round % 3];
            let ra = shared.decode(&a, limit_a);
            let rb = shared.decode(&b, limit_b);
            // a decoder that never saw the `b` frames returns the same
            assert_eq!(ra, only_a.decode(&a, limit_a), "{name}: stream a, round {round}");
            assert_eq!(rb, build(name, &h).decode(&b, limit_b), "{name}: stream b, round {round}");
            fp.result(&ra);
            fp.result(&rb);
        }
    }
}

// Degenerate shapes. Fresh decoders only: these are the shapes on which some
// arithmetics panic by design (degree-1 or degree-0 check nodes); whether a
// call panics or not, and what it returns when it does not, is recorded.
fn degenerate_shapes(fp: &mut Fingerprint) {
    let shapes: Vec<(&str, SparseMatrix)> = vec![
        ("no checks", SparseMatrix::new(0, 5)),
        ("empty", SparseMatrix::new(0, 0)),
        ("one empty check", SparseMatrix::new(1, 4)),
        ("degree-1 check", from_entries(2, 4, &[(0, 0), (1, 1), (1, 2), (1, 3)])),
        ("single edge", from_entries(1, 1, &[(0, 0)])),
        ("empty check next to a real one", from_entries(2, 3, &[(1, 0), (1, 1)])),
        ("unconnected variable", from_entries(2, 4, &[(0, 0), (0, 1), (1, 1), (1, 2)])),
        ("repetition", from_entries(2, 3, &[(0, 0), (0, 1), (1, 1), (1, 2)])),
    ];
    let previous_hook = std::panic::take_hook();
    std::panic::set_hook(Box::new(|_| {}));
    let outcome = catch_unwind(AssertUnwindSafe(|| {
        for (sname, h) in shapes.iter() {
            let n = h.num_cols();
            for name in IMPLEMENTATIONS.iter() {
                let frames: Vec<Vec<f64>> = vec![
                    vec![1.5; n],
                    vec![-1.5; n],
                    (0..n).map(|j| if j % 2 == 0 { -2.25 } else { 0.75 }).collect(),
                ];
                for llrs in frames.iter() {
                    for &limit in [0usize, 1, 4].iter() {
                        let first = catch_unwind(AssertUnwindSafe(|| build(name, h).decode(llrs, limit)));
                        let second = catch_unwind(AssertUnwindSafe(|| build(name, h).decode(llrs, limit)));
                        match (&first, &second) {
                            (Ok(a), Ok(b)) => {
                                assert_eq!(a, b, "{name} on {sname}");
                                fp.result(a);
                                // non-panicking shapes: reuse must also agree
                                let mut d = build(name, h);
                                let warm = catch_unwind(AssertUnwindSafe(|| {
                                    let _ = d.decode(&frames[2], 3);
                                    let _ = d.decode(&frames[1], 0);
                                    d.decode(llrs, limit)
                                }));
                                if let Ok(w) = warm {
                                    assert_eq!(&w, a, "{name} on {sname}: reuse differs");
                                }
                            }
                            (Err(_), Err(_)) => fp.byte(0xee),
                            _ => panic!("{name} on {sname}: panics on one fresh decoder only"),
                        }
                    }
                }
            }
        }
    }));
    std::panic::set_hook(previous_hook);
    if let Err(e) = outcome {
        // the hook was silenced, so repeat the message
        let msg = e
            .downcast_ref::<String>()
            .cloned()
            .or_else(|| e.downcast_ref::<&str>().map(|s| s.to_string()))
            .unwrap_or_else(|| String::from("panic in degenerate_shapes"));
        panic!("{msg}");
    }
}

// The arithmetic objects are the part of a decoder that may keep scratch state
// between check node updates. Drive them directly through the public
// `DecoderArithmetic` trait: one long-lived object is fed check nodes of
// varying degree (growing and shrinking), and every update is compared, down
// to the exact value of every message, with a brand new object.
fn hash_debug<T: std::fmt::Debug>(fp: &mut Fingerprint, value: &T) {
    for b in format!("{value:?};").bytes() {
        fp.byte(b);
    }
}

fn check_node_inputs<A: DecoderArithmetic>(
    a: &A,
    rng: &mut Rng,
    degree: usize,
    universe: usize,
    style: usize,
) -> Vec<Message<A::VarMessage>> {
    let mut sources: Vec<usize> = (0..universe).collect();
    rng.shuffle(&mut sources);
    sources
        .into_iter()
        .take(degree)
        .map(|source| {
            let mut llr = match style {
                0 => magnitude(rng),
                1 => 1.3863 + 2.0 * (rng.unit() - 0.5),
                2 => 14.0 * rng.unit(),
                // ties in magnitude
                _ => [0.5, 0.5, 2.0, 0.125][rng.below(4)],
            };
            if rng.below(3) == 0 {
                llr = -llr;
            }
            Message {
                source,
                value: a.llr_to_var_message(a.input_llr_quantize(llr)),
            }
        })
        .collect()
}

fn flooding_update<A: DecoderArithmetic>(
    a: &mut A,
    inputs: &[Message<A::VarMessage>],
) -> Vec<SentMessage<A::CheckMessage>> {
    let mut sent = Vec::new();
    a.send_check_messages(inputs, |m| sent.push(m));
    sent
}

fn drive_arithmetic<A, F>(fp: &mut Fingerprint, label: &str, make: F, seed: u64)
where
    A: DecoderArithmetic,
    F: Fn() -> A,
{
    let mut rng = Rng(seed);
    let universe = 48;
    let mut reused = make();
    let degrees = [3usize, 2, 7, 2, 20, 4, 33, 2, 3, 12, 5, 2, 40, 6];
    for round in 0..56 {
        let degree = degrees[round % degrees.len()];
        let style = rng.below(4);
        let inputs = check_node_inputs(&reused, &mut rng, degree, universe, style);

        // flooding schedule, check node side
        let got = flooding_update(&mut reused, &inputs);
        let want = flooding_update(&mut make(), &inputs);
        assert_eq!(got.len(), degree, "{label}: one message per neighbour");
        assert_eq!(format!("{got:?}"), format!("{want:?}"), "{label}: round {round} (flooding)");
        {
            // every neighbour gets exactly one message
            let mut dests: Vec<usize> = got.iter().map(|m| m.dest).collect();
            let mut sources: Vec<usize> = inputs.iter().map(|m| m.source).collect();
            dests.sort_unstable();
            sources.sort_unstable();
            assert_eq!(dests, sources, "{label}: round {round} (flooding destinations)");
        }
        hash_debug(fp, &got);

        // flooding schedule, variable node side, fed with those check messages
        let incoming: Vec<Message<A::CheckMessage>> = got
            .iter()
            .enumerate()
            .take(1 + round % 6)
            .map(|(k, m)| Message { source: 100 + k, value: m.value })
            .collect();
        for incoming in [&incoming[..], &incoming[..1], &incoming[..0]] {
            let channel = reused.input_llr_quantize(magnitude(&mut rng) - 1.0);
            let mut got_var = Vec::new();
            let got_llr = reused.send_var_messages(channel, incoming, |m| got_var.push(m));
            let mut want_var = Vec::new();
            let want_llr = make().send_var_messages(channel, incoming, |m| want_var.push(m));
            assert_eq!(
                format!("{got_llr:?} {got_var:?}"),
                format!("{want_llr:?} {want_var:?}"),
                "{label}: round {round} (variable node)"
            );
            hash_debug(fp, &(got_llr, got_var));
        }

        // horizontal layered schedule: Qv for every variable, Rcv from the
        // flooding messages above (first pass) and from the pass before
        let mut vars: Vec<A::VarLlr> = (0..universe)
            .map(|_| {
                let mut llr = 6.0 * rng.unit();
                if rng.below(4) == 0 {
                    llr = -llr;
                }
                reused.llr_to_var_llr(reused.input_llr_quantize(llr))
            })
            .collect();
        let mut rcv: Vec<SentMessage<A::CheckMessage>> = got
            .iter()
            .map(|m| SentMessage {
                dest: m.dest,
                value: if round % 2 == 0 { Default::default() } else { m.value },
            })
            .collect();
        for pass in 0..3 {
            let mut want_vars = vars.clone();
            let mut want_rcv = rcv.clone();
            make().update_check_messages_and_vars(&mut want_rcv, &mut want_vars);
            reused.update_check_messages_and_vars(&mut rcv, &mut vars);
            assert_eq!(
                format!("{rcv:?} {vars:?}"),
                format!("{want_rcv:?} {want_vars:?}"),
                "{label}: round {round} pass {pass} (horizontal layered)"
            );
            let llrs: Vec<A::Llr> = vars.iter().map(|&v| reused.var_llr_to_llr(v)).collect();
            let bits: Vec<bool> = llrs.iter().map(|&l| reused.llr_hard_decision(l)).collect();
            hash_debug(fp, &(&rcv, &vars, llrs, bits));
        }
    }

    // Degrees 0 and 1: some rules panic by design. Whatever happens must be
    // the same for two new objects, and must not poison later updates.
    for degree in [0usize, 1] {
        let inputs = check_node_inputs(&reused, &mut rng, degree, universe, 1);
        let first = catch_unwind(AssertUnwindSafe(|| flooding_update(&mut make(), &inputs)));
        let second = catch_unwind(AssertUnwindSafe(|| flooding_update(&mut reused, &inputs)));
        match (first, second) {
            (Ok(a), Ok(b)) => {
                assert_eq!(format!("{a:?}"), format!("{b:?}"), "{label}: degree {degree}");
                hash_debug(fp, &a);
            }
            (Err(_), Err(_)) => fp.byte(0xee),
            _ => panic!("{label}: degree {degree} panics on one object only"),
        }
        let mut rcv: Vec<SentMessage<A::CheckMessage>> = inputs
            .iter()
            .map(|m| SentMessage { dest: m.source, value: Default::default() })
            .collect();
        let mut vars: Vec<A::VarLlr> = (0..universe)
            .map(|k| reused.llr_to_var_llr(reused.input_llr_quantize(k as f64 / 7.0 - 3.0)))
            .collect();
        let mut rcv2 = rcv.clone();
        let mut vars2 = vars.clone();
        let first = catch_unwind(AssertUnwindSafe(|| {
            make().update_check_messages_and_vars(&mut rcv2, &mut vars2)
        }));
        let second = catch_unwind(AssertUnwindSafe(|| {
            reused.update_check_messages_and_vars(&mut rcv, &mut vars)
        }));
        assert_eq!(first.is_ok(), second.is_ok(), "{label}: degree {degree} (layered)");
        if first.is_ok() {
            assert_eq!(format!("{rcv:?} {vars:?}"), format!("{rcv2:?} {vars2:?}"));
            hash_debug(fp, &(rcv, vars));
        } else {
            fp.byte(0xee);
        }
        // after that, a regular update still matches a new object
        let inputs = check_node_inputs(&reused, &mut rng, 5, universe, 0);
        let got = flooding_update(&mut reused, &inputs);
        let want = flooding_update(&mut make(), &inputs);
        assert_eq!(format!("{got:?}"), format!("{want:?}"), "{label}: update after degree {degree}");
        hash_debug(fp, &got);
    }
}

fn arithmetic_objects(fp: &mut Fingerprint) {
    let previous_hook = std::panic::take_hook();
    std::panic::set_hook(Box::new(|_| {}));
    let outcome = catch_unwind(AssertUnwindSafe(|| {
        macro_rules! drive {
            ($($ty:ident),+) => {
                let mut seed = 0xC10_6000;
                $(
                    seed += 1;
                    drive_arithmetic(fp, stringify!($ty), $ty::new, seed);
                    // a cloned and a defaulted object behave like a new one too
                    drive_arithmetic(fp, concat!(stringify!($ty), " (default)"), $ty::default, seed);
                )+
            };
        }
        drive!(
            Phif64,
            Phif32,
            Tanhf64,
            Tanhf32,
            Minstarapproxf64,
            Minstarapproxf32,
            Minstarapproxi8,
            Minstarapproxi8Jones,
            Minstarapproxi8PartialHardLimit,
            Minstarapproxi8JonesPartialHardLimit,
            Minstarapproxi8Deg1Clip,
            Minstarapproxi8JonesDeg1Clip,
            Minstarapproxi8PartialHardLimitDeg1Clip,
            Minstarapproxi8JonesPartialHardLimitDeg1Clip,
            Aminstarf64,
            Aminstarf32,
            Aminstari8,
            Aminstari8Jones,
            Aminstari8PartialHardLimit,
            Aminstari8JonesPartialHardLimit,
            Aminstari8Deg1Clip,
            Aminstari8JonesDeg1Clip,
            Aminstari8PartialHardLimitDeg1Clip,
            Aminstari8JonesPartialHardLimitDeg1Clip
        );
    }));
    std::panic::set_hook(previous_hook);
    if let Err(e) = outcome {
        // the hook was silenced, so repeat the message
        let msg = e
            .downcast_ref::<String>()
            .cloned()
            .or_else(|| e.downcast_ref::<&str>().map(|s| s.to_string()))
            .unwrap_or_else(|| String::from("panic in arithmetic_objects"));
        panic!("{msg}");
    }
}


fn run_all() -> u64 {
    let mut fp = Fingerprint::new();
    histories(&mut fp);
    typed_and_clones(&mut fp);
    interleaved_streams(&mut fp);
    degenerate_shapes(&mut fp);
    arithmetic_objects(&mut fp);
    println!(
        "C10 demo: {} clean frames, {} successes, {} failures, {} zero-iteration failures",
        fp.1[0], fp.1[1], fp.1[2], fp.1[3]
    );
    fp.0
}

#[test]
fn decoder_carries_no_state_between_frames() {
    // Watchdog: the work runs in a thread; give up (fail) after a generous
    // timeout instead of hanging forever.
    let (tx, rx) = mpsc::channel();
    let worker = std::thread::Builder::new()
        .stack_size(16 << 20)
        .spawn(move || {
            let r = catch_unwind(run_all);
            let _ = tx.send(r);
        })
        .unwrap();
    match rx.recv_timeout(Duration::from_secs(900)) {
        Ok(Ok(fingerprint)) => {
            println!("C10 demo fingerprint: {fingerprint:016x}");
            worker.join().unwrap();
        }
        Ok(Err(e)) => std::panic::resume_unwind(e),
        Err(_) => panic!("demo timed out"),
    }
}
