#!/bin/sh
# Demonstration that the command-line tool still emits exactly what it emitted
# before the rewrite.
#
# usage: demo.sh <checkout>      (binary at <checkout>/target/debug/ldpc-toolbox)
#
# Every check runs the binary, and compares the exit status, the POSIX cksum
# and byte count of what it wrote (stdout or the output file), and for error
# cases the presence of a message and the absence of a panic, with values that
# were recorded from the unmodified program. With RECORD=1 in the environment
# the script prints the table of values instead of checking it.

BIN="$1/target/debug/ldpc-toolbox"
if [ ! -x "$BIN" ]; then
    echo "binary $BIN not found" >&2
    exit 2
fi
T=$(mktemp -d "${TMPDIR:-/tmp}/c20demo.XXXXXX") || exit 2
trap 'rm -rf "$T"' EXIT HUP INT TERM
FAILS=0
CHECKS=0

expected_table() {
    cat <<'EOF'
ccsds_1_2_1024 1788919406 95955
ccsds_1_2_16384 839619396 1837802
ccsds_1_2_4096 3976249302 409622
ccsds_2_3_1024 301291183 67941
ccsds_2_3_16384 3355195893 1318168
ccsds_2_3_4096 312250701 303562
ccsds_4_5_1024 4014124417 55141
ccsds_4_5_16384 369195478 1064335
ccsds_4_5_4096 412558397 243009
ccsds_c2 1974649702 306621
dvbs2_1_2 1677684222 3332622
dvbs2_1_2_short 3599439967 724783
dvbs2_1_3 4029078201 3774802
dvbs2_1_3_short 4124632388 874201
dvbs2_1_4 3995441926 3595108
dvbs2_1_4_short 1676216429 849920
dvbs2_2_3 418467467 3844885
dvbs2_2_3_short 3492606229 890634
dvbs2_2_5 975185763 3916336
dvbs2_2_5_short 1026712683 901848
dvbs2_3_4 603190202 3759449
dvbs2_3_4_short 2858679143 826185
dvbs2_3_5 1457227505 4371296
dvbs2_3_5_short 2943339275 1001074
dvbs2_4_5 3476415408 3639452
dvbs2_4_5_short 306671029 501858
dvbs2_5_6 581816330 3885494
dvbs2_5_6_short 1621167277 856742
dvbs2_8_9 3837121016 2347698
dvbs2_8_9_short 4031988789 538698
dvbs2_9_10 3185727292 2342937
enc_ar4ja 2793960379 2816
enc_ar4ja_punct 1992078334 2560
enc_dvbs2 3393290164 32400
enc_empty 4294967295 0
enc_m 3129908477 90
enc_m_odd 1749496462 18
enc_m_punct 3251628339 60
enc_m_punct_all 4294967295 0
enc_peg 3273169212 1300
enc_peg_punct 2495002062 975
enc_short 4294967295 0
mn_20_40_6_3_0 1748314285 770
mn_20_40_6_3_5 2484889177 770
mn_30_60_6_3_7_uniform 3359918516 1190
mn_30_60_9_3_2_g6 1808873846 1315
mn_40_60_4_2_1_g8 1469250033 972
mn_5_10_4_2_3_uniform 3978986578 122
peg_0_0_0_0 1578063274 11
peg_200_400_4_123 509339229 13121
peg_30_10_1_5 3750276174 177
peg_4_3_2_0 2199788809 51
peg_50_100_3_7 3248088758 2133
peg_5_7_0_1 580808802 57
peg_6_12_3_0 480335303 199
sys_ar4ja 461079251 55088
sys_identity 2780103088 33
sys_m 3514172318 117
sys_m_twice 815469906 117
sys_peg 97724888 2133
EOF
}

fail() {
    echo "FAIL: $*" >&2
    FAILS=$((FAILS + 1))
}

# sum_of <file> prints "<cksum> <size>"
sum_of() {
    cksum < "$1" | awk '{print $1, $2}'
}

# compare_sum <name> <file>
compare_sum() {
    CHECKS=$((CHECKS + 1))
    actual=$(sum_of "$2")
    if [ -n "$RECORD" ]; then
        echo "$1 $actual"
        return
    fi
    expected=$(expected_table | awk -v n="$1" '$1 == n {print $2, $3; exit}')
    if [ -z "$expected" ]; then
        fail "$1: no expected value in table"
    elif [ "$expected" != "$actual" ]; then
        fail "$1: output differs (expected cksum/size $expected, got $actual)"
    fi
}

no_panic() {
    if grep -q -i -e 'panicked' -e 'RUST_BACKTRACE' "$T/err"; then
        fail "$1: panic: $(head -n 2 "$T/err")"
    fi
}

# ok_stdout <name> args... : must exit 0, stdout must match the table, and
# nothing must be written to stderr
ok_stdout() {
    name=$1
    shift
    "$BIN" "$@" > "$T/out" 2> "$T/err"
    status=$?
    if [ $status -ne 0 ]; then
        fail "$name: exit status $status: $(head -n 2 "$T/err")"
    fi
    no_panic "$name"
    if [ -s "$T/err" ]; then
        fail "$name: unexpected output in stderr: $(head -n 2 "$T/err")"
    fi
    compare_sum "$name" "$T/out"
}

# ok_line <name> <expected stdout> args... : must exit 0 and print exactly the line
ok_line() {
    name=$1
    line=$2
    shift 2
    CHECKS=$((CHECKS + 1))
    "$BIN" "$@" > "$T/out" 2> "$T/err"
    status=$?
    if [ $status -ne 0 ]; then
        fail "$name: exit status $status: $(head -n 2 "$T/err")"
    fi
    no_panic "$name"
    printf '%s\n' "$line" > "$T/line"
    if ! cmp -s "$T/line" "$T/out"; then
        fail "$name: expected '$line', got '$(head -n 2 "$T/out")'"
    fi
}

# bad <name> <expected status> args... : must exit with the status (1 for errors
# found by the subcommand, 2 for errors found by the argument parser), write
# nothing to stdout, write a message to stderr and not panic
bad() {
    name=$1
    want=$2
    shift 2
    CHECKS=$((CHECKS + 1))
    "$BIN" "$@" > "$T/out" 2> "$T/err"
    status=$?
    if [ $status -ne "$want" ]; then
        fail "$name: exit status $status instead of $want"
    fi
    if [ -s "$T/out" ]; then
        fail "$name: unexpected output in stdout"
    fi
    if [ ! -s "$T/err" ]; then
        fail "$name: no message in stderr"
    fi
    no_panic "$name"
}

# bad_msg <name> <message> args... : as bad with status 1, and the message in
# stderr must be exactly the given line
bad_msg() {
    name=$1
    msg=$2
    shift 2
    bad "$name" 1 "$@"
    printf '%s\n' "$msg" > "$T/line"
    if ! cmp -s "$T/line" "$T/err"; then
        fail "$name: expected message '$msg', got '$(head -n 2 "$T/err")'"
    fi
}

# bad_has <name> <fragment> args... : as bad with status 1, and the message in
# stderr must contain the fragment (the wording of the message is otherwise free)
bad_has() {
    name=$1
    fragment=$2
    shift 2
    bad "$name" 1 "$@"
    if ! grep -q -F -e "$fragment" "$T/err"; then
        fail "$name: message '$(head -n 2 "$T/err")' does not mention '$fragment'"
    fi
}

# encode <name> <expected status> alist input [--puncturing p]: runs the encode
# subcommand. On success the output file must match the table.
encode() {
    name=$1
    want=$2
    shift 2
    rm -f "$T/encoded"
    CHECKS=$((CHECKS + 1))
    "$BIN" encode "$1" "$2" "$T/encoded" $3 $4 > "$T/out" 2> "$T/err"
    status=$?
    if [ $status -ne "$want" ]; then
        fail "$name: exit status $status instead of $want: $(head -n 2 "$T/err")"
    fi
    no_panic "$name"
    if [ -s "$T/out" ]; then
        fail "$name: unexpected output in stdout"
    fi
    if [ "$want" -eq 0 ]; then
        if [ -s "$T/err" ]; then
            fail "$name: unexpected output in stderr"
        fi
        compare_sum "$name" "$T/encoded"
    elif [ ! -s "$T/err" ]; then
        fail "$name: no message in stderr"
    fi
}

# ber_check <name> <alist> <k> <min> <max> <step> <count> [args...]: runs a
# short BER simulation and checks that the results file has one line per Eb/N0
# and that the numbers of each line are consistent: Eb/N0 = min + i * step,
# 5 <= frame errors <= frames, BER = bit errors / (k * frames) and
# FER = frame errors / frames (to the three digits that are printed)
ber_check() {
    name=$1
    alist=$2
    k=$3
    min=$4
    max=$5
    step=$6
    count=$7
    shift 7
    CHECKS=$((CHECKS + 1))
    rm -f "$T/ber.txt"
    "$BIN" ber --min-ebn0="$min" --max-ebn0="$max" --step-ebn0="$step" --frame-errors 5 \
        --output-file "$T/ber.txt" "$@" "$alist" > "$T/out" 2> "$T/err"
    status=$?
    if [ $status -ne 0 ]; then
        fail "$name: exit status $status: $(head -n 2 "$T/err")"
        return
    fi
    no_panic "$name"
    problems=$(awk -F'|' -v k="$k" -v min="$min" -v step="$step" -v count="$count" '
        function close_to(a, b) {
            return a >= b * 0.99 - 1e-12 && a <= b * 1.01 + 1e-12
        }
        started && NF >= 11 {
            ebn0 = $1 + 0; frames = $2 + 0; bit_errors = $3 + 0; frame_errors = $4 + 0
            ber = $6 + 0; fer = $7 + 0
            want = min + n * step
            if (ebn0 < want - 0.006 || ebn0 > want + 0.006) bad = bad " ebn0[" n "]=" ebn0
            if (frame_errors < 5 || frame_errors > frames) bad = bad " frame_errors[" n "]"
            if (bit_errors < frame_errors || bit_errors > k * frames) bad = bad " bit_errors[" n "]"
            if (!close_to(ber, bit_errors / (k * frames))) bad = bad " ber[" n "]=" ber
            if (!close_to(fer, frame_errors / frames)) bad = bad " fer[" n "]=" fer
            n++
        }
        /^--------\|/ { started = 1 }
        END {
            if (n != count) bad = bad " lines=" n
            print bad
        }' "$T/ber.txt")
    if [ -n "$problems" ]; then
        fail "$name:$problems"
    fi
    grep -q "Information bits (k): $k\$" "$T/ber.txt" || fail "$name: wrong k in the results file"
}

# bits <count> <seed> : deterministic pseudorandom unpacked bits (bytes 0 and 1)
bits() {
    awk -v n="$1" -v s="$2" 'BEGIN {
        x = s;
        for (i = 0; i < n; i++) {
            x = (x * 1103515245 + 12345) % 2147483648;
            printf "%s", (int(x / 65536) % 2) ? "\001" : "Z";
        }
    }' | tr 'Z' '\000'
}

# ---------------------------------------------------------------------------
# A. Code generation subcommands, exhaustively
# ---------------------------------------------------------------------------
for r in 1/4 1/3 2/5 1/2 3/5 2/3 3/4 4/5 5/6 8/9 9/10; do
    f=$(echo $r | tr / _)
    ok_stdout dvbs2_$f dvbs2 --rate $r
    if [ $r != 9/10 ]; then
        ok_stdout dvbs2_${f}_short dvbs2 --rate $r --short
    fi
done
for r in 1/2 2/3 4/5; do
    f=$(echo $r | tr / _)
    for k in 1024 4096 16384; do
        ok_stdout ccsds_${f}_$k ccsds --rate $r --block-size $k
    done
done
ok_stdout ccsds_c2 ccsds-c2

# ---------------------------------------------------------------------------
# B. Girth (the two documented values, and the values of the other codes that
#    are quick to compute)
# ---------------------------------------------------------------------------
ok_line girth_dvbs2_1_2 "Code girth = 6" dvbs2 --rate 1/2 --girth
ok_line girth_ccsds_1_2_1024 "Code girth = 6" ccsds --rate 1/2 --block-size 1024 --girth
ok_line girth_dvbs2_1_4_short "Code girth = 8" dvbs2 --rate 1/4 --short --girth
ok_line girth_dvbs2_1_3_short "Code girth = 6" dvbs2 --rate 1/3 --short --girth
ok_line girth_dvbs2_2_5_short "Code girth = 6" dvbs2 --rate 2/5 --short --girth
ok_line girth_dvbs2_1_2_short "Code girth = 6" dvbs2 --rate 1/2 --short --girth
ok_line girth_dvbs2_3_5_short "Code girth = 6" dvbs2 --rate 3/5 --short --girth
ok_line girth_dvbs2_2_3_short "Code girth = 6" dvbs2 --rate 2/3 --short --girth
ok_line girth_dvbs2_3_4_short "Code girth = 8" dvbs2 --rate 3/4 --short --girth
ok_line girth_dvbs2_4_5_short "Code girth = 6" dvbs2 --rate 4/5 --short --girth
ok_line girth_dvbs2_5_6_short "Code girth = 6" dvbs2 --rate 5/6 --short --girth
ok_line girth_dvbs2_8_9_short "Code girth = 6" dvbs2 --rate 8/9 --short --girth
ok_line girth_ccsds_1_2_4096 "Code girth = 8" ccsds --rate 1/2 --block-size 4096 --girth
ok_line girth_ccsds_2_3_1024 "Code girth = 4" ccsds --rate 2/3 --block-size 1024 --girth
ok_line girth_ccsds_2_3_4096 "Code girth = 6" ccsds --rate 2/3 --block-size 4096 --girth
ok_line girth_ccsds_4_5_1024 "Code girth = 4" ccsds --rate 4/5 --block-size 1024 --girth
ok_line girth_ccsds_4_5_4096 "Code girth = 4" ccsds --rate 4/5 --block-size 4096 --girth
ok_line girth_ccsds_4_5_16384 "Code girth = 4" ccsds --rate 4/5 --block-size 16384 --girth

# ---------------------------------------------------------------------------
# C. Pseudorandom constructions (deterministic for a given seed)
# ---------------------------------------------------------------------------
ok_stdout peg_6_12_3_0 peg 6 12 3 0
ok_stdout peg_50_100_3_7 peg 50 100 3 7
ok_stdout peg_4_3_2_0 peg 4 3 2 0
ok_stdout peg_0_0_0_0 peg 0 0 0 0
ok_stdout peg_5_7_0_1 peg 5 7 0 1
ok_stdout peg_200_400_4_123 peg 200 400 4 123
# with --girth the alist goes to stdout and the girth to stderr
CHECKS=$((CHECKS + 1))
"$BIN" peg 6 12 3 0 --girth > "$T/out" 2> "$T/err" || fail "peg --girth: exit status"
compare_sum peg_6_12_3_0 "$T/out"
echo "Code girth = 4" > "$T/line"
cmp -s "$T/line" "$T/err" || fail "peg --girth: stderr is '$(cat "$T/err")'"
"$BIN" peg 30 10 1 5 --girth > "$T/out" 2> "$T/err" || fail "peg --girth (no cycles): exit status"
compare_sum peg_30_10_1_5 "$T/out"
echo "Code girth = infinity (there are no cycles)" > "$T/line"
cmp -s "$T/line" "$T/err" || fail "peg --girth (no cycles): stderr is '$(cat "$T/err")'"
ok_stdout mn_20_40_6_3_0 mackay-neal 20 40 6 3 0 --backtrack-cols 5 --backtrack-trials 100
ok_stdout mn_20_40_6_3_5 mackay-neal 20 40 6 3 5 --backtrack-cols 5 --backtrack-trials 100
ok_stdout mn_30_60_9_3_2_g6 mackay-neal 30 60 9 3 2 --min-girth 6 --girth-trials 100000 --backtrack-cols 5 --backtrack-trials 100
ok_stdout mn_40_60_4_2_1_g8 mackay-neal 40 60 4 2 1 --min-girth 8 --girth-trials 10000 --backtrack-cols 5 --backtrack-trials 100
bad_has mn_girth_fail "exceeded girth trials" mackay-neal 30 60 6 3 7 --backtrack-cols 5 --backtrack-trials 1000 --min-girth 6 --girth-trials 1000
ok_stdout mn_30_60_6_3_7_uniform mackay-neal 30 60 6 3 7 --backtrack-cols 5 --backtrack-trials 1000 --uniform
ok_stdout mn_5_10_4_2_3_uniform mackay-neal 5 10 4 2 3 --uniform
bad_has mn_fail "exceeded backtrack trials" mackay-neal 3 6 1 3 0

# ---------------------------------------------------------------------------
# D. systematic: reads an alist file and prints the converted matrix
# ---------------------------------------------------------------------------
# An irregular 3 x 9 matrix with an empty column, written in several equivalent
# ways. All of them are the same matrix, so the output must be the same.
cat > "$T/m1.alist" <<'EOF'
9 3
3 6
3 2 0 1 2 2 2 1 2
6 6 5
1 2 3
1 3 0
0 0 0
2 0 0
1 2 0
2 3 0
1 3 0
2 0 0
1 3 0
1 2 5 7 9 0
1 4 5 6 8 0
1 2 6 7 9 0
EOF
# no padding, no row lists, no final newline
printf '9 3\n3 6\n3 2 0 1 2 2 2 1 2\n6 6 5\n1 2 3\n1 3\n\n2\n1 2\n2 3\n1 3\n2\n1 3' > "$T/m2.alist"
# CR LF line ends, tabs, plus signs, leading zeros, repeated entries, entries
# out of order, junk after the sizes and in the lines that are not used
printf '9 3 junk\r\nwhat ever\r\n\r\n? ?\r\n3 +1 2\r\n\t3\t1  1 3\r\n0\r\n002\r\n2 1 2 1\r\n 3 2 \r\n1 0 3 0\r\n2 0 0 0 0 0 0 0\r\n+3 +1\r\nthese lines\r\nare not read\r\n' > "$T/m3.alist"
# other kinds of white space (no-break space, ideographic space, vertical tab,
# form feed, line separator)
printf '9\302\2403\n\n\n\n1\343\200\2002\0133\n1\0143\n\342\200\250\n2\n1 2\n2 3\n1 3\n2\n1 3\n' > "$T/m4.alist"
ok_stdout sys_m systematic "$T/m1.alist"
cp "$T/out" "$T/sys_m.out"
for v in 2 3 4; do
    "$BIN" systematic "$T/m$v.alist" > "$T/out" 2> "$T/err" || fail "systematic m$v: exit status: $(cat "$T/err")"
    compare_sum sys_m "$T/out"
done
# the output of systematic can be read back
ok_stdout sys_m_twice systematic "$T/sys_m.out"
# matrices with all-zero columns or rows only
printf '4 2\n0 0\n0 0 0 0\n0 0\n\n\n\n\n\n\n' > "$T/z.alist"
bad_has sys_zero "the parity check matrix does not have full rank" systematic "$T/z.alist"
printf '0 0\n0 0\n\n\n' > "$T/e.alist"
bad_has sys_empty "the parity check matrix does not have full rank" systematic "$T/e.alist"
# a square identity matrix stays as it is
printf '3 3\n1 1\n1 1 1\n1 1 1\n1\n2\n3\n1\n2\n3\n' > "$T/i.alist"
ok_stdout sys_identity systematic "$T/i.alist"
# rank deficient, and more rows than columns
printf '4 2\n1 4\n1 1 1 1\n4 4\n1 2\n1 2\n1 2\n1 2\n' > "$T/r.alist"
bad_has sys_rank "the parity check matrix does not have full rank" systematic "$T/r.alist"
printf '2 3\n2 2\n2 2\n1 1 2\n1 2\n1 3\n' > "$T/o.alist"
bad_has sys_over "the parity check matrix has more rows than columns" systematic "$T/o.alist"
# the AR4JA matrices need the conversion; peg matrices usually do too
"$BIN" ccsds --rate 4/5 --block-size 1024 > "$T/ar4ja.alist"
ok_stdout sys_ar4ja systematic "$T/ar4ja.alist"
cp "$T/out" "$T/ar4ja_sys.alist"
"$BIN" peg 50 100 3 7 > "$T/peg.alist"
ok_stdout sys_peg systematic "$T/peg.alist"
cp "$T/out" "$T/peg_sys.alist"
"$BIN" dvbs2 --rate 8/9 --short > "$T/dvbs2.alist"
# malformed files
printf '' > "$T/b0.alist"
bad_has alist_empty "alist first line does not contain enough elements" systematic "$T/b0.alist"
printf '12\n' > "$T/b1.alist"
bad_has alist_one_size "alist first line does not contain enough elements" systematic "$T/b1.alist"
printf 'a 3\n' > "$T/b2.alist"
bad_has alist_ncols "ncols is not a number" systematic "$T/b2.alist"
printf '3 -1\n' > "$T/b3.alist"
bad_has alist_nrows "nrows is not a number" systematic "$T/b3.alist"
printf '3 2\n1 1\n1 1 1\n1 1\n1\n2' > "$T/b4.alist"
bad_has alist_short "alist does not contain expected number of lines" systematic "$T/b4.alist"
printf '3 2\n1 1\n1 1 1\n1 1\n1\n2\n1.5\n' > "$T/b5.alist"
bad_has alist_not_number "row value is not a number" systematic "$T/b5.alist"
printf '3 2\n1 1\n1 1 1\n1 1\n1\n2\n3\n' > "$T/b6.alist"
bad_has alist_row_range "row value exceeds the number of rows" systematic "$T/b6.alist"
printf '3 2\n1 1\n1 1 1\n1 1\n1\n2\n18446744073709551616\n' > "$T/b7.alist"
bad_has alist_overflow "row value is not a number" systematic "$T/b7.alist"
printf '3 2\n1 1\n1 1 1\n1 1\n1\n2\n+\n' > "$T/b8.alist"
bad_has alist_plus "row value is not a number" systematic "$T/b8.alist"
bad sys_missing 1 systematic "$T/does-not-exist.alist"
printf '3 2\n1 1\n1 1 1\n1 1\n1\n2\n\377\n' > "$T/b9.alist"
bad sys_not_utf8 1 systematic "$T/b9.alist"
bad sys_no_args 2 systematic

# ---------------------------------------------------------------------------
# E. encode
# ---------------------------------------------------------------------------
# staircase code (k = 14400, n = 16200), general codes (k = 50, n = 100 and
# k = 1024, n = 1408) and the small irregular code above (k = 6, n = 9)
bits 30000 1 > "$T/in_dvbs2"
bits 650 2 > "$T/in_peg"
bits 3000 3 > "$T/in_ar4ja"
bits 60 4 > "$T/in_m"
encode enc_dvbs2 0 "$T/dvbs2.alist" "$T/in_dvbs2"
encode enc_peg 0 "$T/peg_sys.alist" "$T/in_peg"
encode enc_peg_punct 0 "$T/peg_sys.alist" "$T/in_peg" --puncturing 1,0,1,1
encode enc_ar4ja 0 "$T/ar4ja_sys.alist" "$T/in_ar4ja"
encode enc_ar4ja_punct 0 "$T/ar4ja_sys.alist" "$T/in_ar4ja" --puncturing 1,1,1,1,1,1,1,1,1,1,0
encode enc_m 0 "$T/sys_m.out" "$T/in_m"
encode enc_m_punct 0 "$T/sys_m.out" "$T/in_m" --puncturing 0,1,1
encode enc_m_punct_all 0 "$T/sys_m.out" "$T/in_m" --puncturing 0,0,0
# the lengths: complete words only
[ "$(wc -c < "$T/encoded")" -eq 0 ] || fail "encode with everything punctured wrote something"
"$BIN" encode "$T/peg_sys.alist" "$T/in_peg" "$T/encoded" || fail "encode peg: exit status"
[ "$(wc -c < "$T/encoded")" -eq 1300 ] || fail "encode peg: wrong output length"
# the systematic part of each codeword is the input word, with bytes other
# than 1 read as 0
printf 'abc\001\001\002\001\000\001\001\001\001' > "$T/in_odd"
encode enc_m_odd 0 "$T/sys_m.out" "$T/in_odd"
printf '\000\000\000\001\001\000\001\001\000' > "$T/line"
dd if="$T/encoded" bs=1 count=6 2> /dev/null > "$T/out"
printf '\000\000\000\001\001\000' | cmp -s - "$T/out" || fail "encode: first word is not systematic"
# empty input, and input shorter than a word
: > "$T/in_empty"
encode enc_empty 0 "$T/sys_m.out" "$T/in_empty"
printf '\001\001\001\001\001' > "$T/in_short"
encode enc_short 0 "$T/sys_m.out" "$T/in_short"
[ "$(wc -c < "$T/encoded")" -eq 0 ] || fail "encode of an incomplete word wrote something"
# errors
encode enc_not_invertible 1 "$T/m1.alist" "$T/in_m"
encode enc_bad_pattern 1 "$T/sys_m.out" "$T/in_m" --puncturing 1,2,1
encode enc_bad_pattern2 1 "$T/sys_m.out" "$T/in_m" --puncturing 1,,1
encode enc_pattern_size 1 "$T/sys_m.out" "$T/in_m" --puncturing 1,1
encode enc_bad_alist 1 "$T/b5.alist" "$T/in_m"
encode enc_no_alist 1 "$T/does-not-exist.alist" "$T/in_m"
encode enc_no_input 1 "$T/sys_m.out" "$T/does-not-exist.bin"
bad enc_no_args 2 encode "$T/sys_m.out"

# ---------------------------------------------------------------------------
# F. Invalid arguments of the code generation subcommands: exit status 1 and
#    a message that names the offending value (2 and the usage text for errors
#    in the syntax of the command line)
# ---------------------------------------------------------------------------
bad_has dvbs2_9_10_short "9/10" dvbs2 --rate 9/10 --short
bad_has dvbs2_9_10_short_girth "9/10" dvbs2 --rate 9/10 --short --girth
bad_has dvbs2_9_10_short_is_short "short" dvbs2 --rate 9/10 --short
bad_has dvbs2_7_8_is_normal "normal" dvbs2 --rate 7/8
# strings that are not exactly one of the eleven rates, for both frame sizes
for r in 7/8 2/4 6/10 4/6 1/1 0/1 1/0 10/9 1/5 4/9 11/15 7/9 37/45 \
    01/2 1/02 +1/2 1/+2 "1/2 " " 1/2" "1 /2" "1/ 2" 1//2 1/2/3 /2 1/ / "" \
    1:2 1-2 '1\2' 0.5 .5 1/2short 1/2s R1_2 r1/2 half \
    256/257 257/514 1/256 99999999999999999999/2 1/99999999999999999999 \
    '½' '１/２' '1/２' '1／2' '١/٢'; do
    bad "dvbs2_invalid_normal[$r]" 1 dvbs2 --rate "$r"
    bad "dvbs2_invalid_short[$r]" 1 dvbs2 --rate "$r" --short
    bad "dvbs2_invalid_girth[$r]" 1 dvbs2 --rate "$r" --girth
done
bad dvbs2_negative 2 dvbs2 --rate -1/2
bad dvbs2_negative_eq 1 dvbs2 --rate=-1/2
bad dvbs2_no_rate 2 dvbs2
bad dvbs2_no_rate_value 2 dvbs2 --rate
bad dvbs2_unknown_flag 2 dvbs2 --rate 1/2 --long
bad dvbs2_twice 2 dvbs2 --rate 1/2 --rate 2/3
# ccsds: every combination of a rate and a size, valid or not
for r in 1/2 2/3 4/5 3/4 7/8 1/3 5/6 8/9 0/1 9/10 2/4 01/2 +1/2 "1/2 " " 1/2" 1//2 / "" 12 1/23 '１/２' half; do
    for k in 0 1 512 1023 1024 1025 2048 4096 8192 16384 16385 32768 65536 18446744073709551615; do
        case "$r:$k" in
            1/2:1024 | 1/2:4096 | 1/2:16384 | 2/3:1024 | 2/3:4096 | 2/3:16384 | 4/5:1024 | 4/5:4096 | 4/5:16384)
                # valid: checked again here only for the small ones
                if [ $k = 1024 ]; then
                    ok_stdout ccsds_$(echo $r | tr / _)_$k ccsds --rate $r --block-size $k
                fi
                ;;
            *)
                bad "ccsds_invalid[$r:$k]" 1 ccsds --rate "$r" --block-size $k
                ;;
        esac
    done
done
bad_has ccsds_rate "7/8" ccsds --rate 7/8 --block-size 1024
bad_has ccsds_rate_both "3/4" ccsds --rate 3/4 --block-size 1000
bad_has ccsds_size "1000" ccsds --rate 1/2 --block-size 1000
bad_has ccsds_size0 "k = 0" ccsds --rate 4/5 --block-size 0 --girth
bad ccsds_size_nan 2 ccsds --rate 1/2 --block-size big
bad ccsds_size_neg 2 ccsds --rate 1/2 --block-size -1024
bad ccsds_size_overflow 2 ccsds --rate 1/2 --block-size 18446744073709551616
bad ccsds_no_size 2 ccsds --rate 1/2
bad c2_extra 2 ccsds-c2 --girth
bad c2_positional 2 ccsds-c2 1024
bad peg_nan 2 peg 6 12 x 0
bad no_subcommand 2
bad unknown_subcommand 2 dvbs3 --rate 1/2
bad wrong_case 2 DVBS2 --rate 1/2
# --help and --version are not errors
CHECKS=$((CHECKS + 2))
"$BIN" --version > "$T/out" 2> "$T/err" || fail "--version: exit status"
[ -s "$T/out" ] && [ ! -s "$T/err" ] || fail "--version: output"
"$BIN" dvbs2 --help > "$T/out" 2> "$T/err" || fail "--help: exit status"
[ -s "$T/out" ] && [ ! -s "$T/err" ] || fail "--help: output"

# ---------------------------------------------------------------------------
# G. ber: one result line per Eb/N0, with consistent numbers
# ---------------------------------------------------------------------------
ber_check ber_peg "$T/peg_sys.alist" 50 0 2.05 1 3
ber_check ber_peg_single "$T/peg_sys.alist" 50 1.5 1.5 0.1 1
ber_check ber_peg_fine "$T/peg_sys.alist" 50 -1 0.51 0.25 7 --max-iter 20
ber_check ber_peg_punct "$T/peg_sys.alist" 50 1 3.05 1 3 --puncturing 1,1,1,0
ber_check ber_m "$T/sys_m.out" 6 0 4.05 2 3 --decoder Aminstarf32
ber_check ber_dvbs2 "$T/dvbs2.alist" 14400 1.0 1.6 0.5 2 --decoder HLAminstarf32 --max-iter 10
CHECKS=$((CHECKS + 3))
"$BIN" ber --min-ebn0 0 --max-ebn0 1 --step-ebn0 1 "$T/does-not-exist.alist" > "$T/out" 2> "$T/err"
[ $? -eq 1 ] && [ -s "$T/err" ] || fail "ber with a missing file: exit status or message"
no_panic ber_missing
"$BIN" ber --min-ebn0 0 --max-ebn0 1 --step-ebn0 1 --puncturing 1,x "$T/peg_sys.alist" > "$T/out" 2> "$T/err"
[ $? -eq 1 ] && [ -s "$T/err" ] || fail "ber with a bad pattern: exit status or message"
no_panic ber_pattern
"$BIN" ber --min-ebn0 0 --max-ebn0 1 --step-ebn0 1 "$T/b5.alist" > "$T/out" 2> "$T/err"
[ $? -eq 1 ] && [ -s "$T/err" ] || fail "ber with a bad alist: exit status or message"
no_panic ber_bad_alist


if [ -n "$RECORD" ]; then
    exit 0
fi
if [ $FAILS -ne 0 ]; then
    echo "$FAILS of $CHECKS checks failed" >&2
    exit 1
fi
echo "all $CHECKS checks passed"
exit 0
