// Rewrite 2 of 3 (C08-p3): the alist writer assembles every line in a
// reusable buffer (own decimal rendering), hands it to the sink with one
// write_str per line, computes the weights in a first pass and the sorted
// lists in a second one through a reused min-heap. The writer tests below
// (exact text, structure, every kind of sink, failing sinks, many-digit
// numbers) are the ones that matter most for it.
//
// Demonstration for property C08: "alist text and matrices round-trip
// losslessly and the parser is total".
//
// Everything is checked against an independent model kept in this file:
//  * a matrix is modelled as (nrows, ncols, BTreeSet of ones);
//  * `reference_text` renders the alist text the format prescribes from the
//    model alone (header, maximum weights, weight lines, sorted 1-based
//    index lists, optional zero padding);
//  * `reference_parse` states which texts are alists and which matrix they
//    denote.
// The crate must agree with the model on random matrices of every shape and
// density (writer, both paddings, every kind of fmt::Write sink including
// ones that fail), and on a large family of texts (valid, mutated, truncated,
// token soups, out-of-range indices, exotic white space), never panicking.
//
// Only the public API of the crate and std are used. All randomness comes
// from a fixed-seed generator, so the run is deterministic. Every test body
// runs under a watchdog.

use ldpc_toolbox::sparse::SparseMatrix;
use std::collections::BTreeSet;
use std::fmt;
use std::panic::{AssertUnwindSafe, catch_unwind, resume_unwind};
use std::sync::mpsc;
use std::time::Duration;

// ---------------------------------------------------------------- utilities

struct Rng(u64);

impl Rng {
    fn new(seed: u64) -> Rng {
        Rng(seed.wrapping_mul(0x9E37_79B9_7F4A_7C15) | 1)
    }

    fn next(&mut self) -> u64 {
        // xorshift64*
        let mut x = self.0;
        x ^= x >> 12;
        x ^= x << 25;
        x ^= x >> 27;
        self.0 = x;
        x.wrapping_mul(0x2545_F491_4F6C_DD1D)
    }

    fn below(&mut self, n: usize) -> usize {
        assert!(n > 0);
        ((self.next() >> 11) % (n as u64)) as usize
    }

    fn chance(&mut self, num: usize, den: usize) -> bool {
        self.below(den) < num
    }

    fn pick<T: Copy>(&mut self, items: &[T]) -> T {
        items[self.below(items.len())]
    }

    fn shuffle<T>(&mut self, v: &mut [T]) {
        for i in (1..v.len()).rev() {
            let j = self.below(i + 1);
            v.swap(i, j);
        }
    }
}

fn with_watchdog<F: FnOnce() + Send + 'static>(name: &str, secs: u64, f: F) {
    let (tx, rx) = mpsc::channel();
    let handle = std::thread::spawn(move || {
        f();
        let _ = tx.send(());
    });
    match rx.recv_timeout(Duration::from_secs(secs)) {
        Ok(()) => handle.join().unwrap(),
        Err(mpsc::RecvTimeoutError::Timeout) => panic!("{name}: timed out after {secs} s"),
        Err(mpsc::RecvTimeoutError::Disconnected) => match handle.join() {
            Err(e) => resume_unwind(e),
            Ok(()) => panic!("{name}: worker vanished"),
        },
    }
}

// -------------------------------------------------------------------- model

#[derive(Debug, Clone, PartialEq, Eq)]
struct Model {
    nrows: usize,
    ncols: usize,
    ones: BTreeSet<(usize, usize)>,
}

/// Reads a matrix through the public accessors, cross-checking them.
fn model_of(h: &SparseMatrix) -> Model {
    let nrows = h.num_rows();
    let ncols = h.num_cols();
    let all: Vec<(usize, usize)> = h.iter_all().collect();
    let ones: BTreeSet<(usize, usize)> = all.iter().copied().collect();
    assert_eq!(ones.len(), all.len(), "iter_all yields a one twice");
    for &(r, c) in &ones {
        assert!(r < nrows && c < ncols, "one out of range");
        assert!(h.contains(r, c));
    }
    let mut by_rows = BTreeSet::new();
    for r in 0..nrows {
        assert_eq!(h.row_weight(r), h.iter_row(r).count());
        for &c in h.iter_row(r) {
            assert!(by_rows.insert((r, c)), "row list holds a one twice");
        }
    }
    let mut by_cols = BTreeSet::new();
    for c in 0..ncols {
        assert_eq!(h.col_weight(c), h.iter_col(c).count());
        for &r in h.iter_col(c) {
            assert!(by_cols.insert((r, c)), "column list holds a one twice");
        }
    }
    assert_eq!(by_rows, ones, "row lists disagree with iter_all");
    assert_eq!(by_cols, ones, "column lists disagree with iter_all");
    Model { nrows, ncols, ones }
}

fn join(v: &[usize]) -> String {
    v.iter()
        .map(|x| x.to_string())
        .collect::<Vec<_>>()
        .join(" ")
}

/// The alist text prescribed by the format, from the model alone.
fn reference_text(m: &Model, padding: bool) -> String {
    let mut col_lists: Vec<Vec<usize>> = vec![Vec::new(); m.ncols];
    let mut row_lists: Vec<Vec<usize>> = vec![Vec::new(); m.nrows];
    // BTreeSet order is (row, col) lexicographic: row lists come out sorted,
    // and so do column lists (rows are visited in increasing order).
    for &(r, c) in &m.ones {
        col_lists[c].push(r + 1);
        row_lists[r].push(c + 1);
    }
    let col_w: Vec<usize> = col_lists.iter().map(Vec::len).collect();
    let row_w: Vec<usize> = row_lists.iter().map(Vec::len).collect();
    let max_col = col_w.iter().copied().max().unwrap_or(0);
    let max_row = row_w.iter().copied().max().unwrap_or(0);
    let mut out = String::new();
    out.push_str(&format!("{} {}\n", m.ncols, m.nrows));
    out.push_str(&format!("{} {}\n", max_col, max_row));
    out.push_str(&join(&col_w));
    out.push('\n');
    out.push_str(&join(&row_w));
    out.push('\n');
    for (lists, maxw) in [(&col_lists, max_col), (&row_lists, max_row)] {
        for list in lists {
            let mut list = list.clone();
            if padding {
                // MacKay: every list has the maximum weight of its direction,
                // filled with zeros; an empty list is a single zero at least.
                while list.len() < maxw.max(1) {
                    list.push(0);
                }
            }
            out.push_str(&join(&list));
            out.push('\n');
        }
    }
    out
}

/// Independent check of the structure of an alist text (not by comparison
/// with `reference_text`): header, maximum weights, weights, sorted 1-based
/// lists, padding discipline.
fn check_structure(text: &str, m: &Model, padding: bool) {
    assert!(text.ends_with('\n'));
    let lines: Vec<&str> = text[..text.len() - 1].split('\n').collect();
    assert_eq!(lines.len(), 4 + m.ncols + m.nrows, "line count");
    let nums = |l: &str| -> Vec<usize> {
        if l.is_empty() {
            return Vec::new();
        }
        l.split(' ')
            .map(|t| {
                assert!(
                    !t.is_empty() && t.bytes().all(|b| b.is_ascii_digit()),
                    "bad token {t:?} in line {l:?}"
                );
                assert!(t == "0" || !t.starts_with('0'), "leading zero in {t:?}");
                t.parse::<usize>().unwrap()
            })
            .collect()
    };
    assert_eq!(nums(lines[0]), vec![m.ncols, m.nrows]);
    let col_w = nums(lines[2]);
    let row_w = nums(lines[3]);
    assert_eq!(col_w.len(), m.ncols);
    assert_eq!(row_w.len(), m.nrows);
    let max_col = col_w.iter().copied().max().unwrap_or(0);
    let max_row = row_w.iter().copied().max().unwrap_or(0);
    assert_eq!(nums(lines[1]), vec![max_col, max_row]);
    let mut seen_by_cols = BTreeSet::new();
    let mut seen_by_rows = BTreeSet::new();
    for k in 0..(m.ncols + m.nrows) {
        let is_col = k < m.ncols;
        let idx = if is_col { k } else { k - m.ncols };
        let (weight, maxw, limit) = if is_col {
            (col_w[idx], max_col, m.nrows)
        } else {
            (row_w[idx], max_row, m.ncols)
        };
        let list = nums(lines[4 + k]);
        if padding {
            assert_eq!(list.len(), maxw.max(1), "padded list length");
        } else {
            assert_eq!(list.len(), weight, "unpadded list length");
        }
        let (real, pad) = list.split_at(weight);
        assert!(pad.iter().all(|&x| x == 0), "padding must be zeros");
        assert!(real.iter().all(|&x| 1 <= x && x <= limit), "index range");
        assert!(real.windows(2).all(|w| w[0] < w[1]), "list not sorted");
        for &x in real {
            if is_col {
                seen_by_cols.insert((x - 1, idx));
            } else {
                seen_by_rows.insert((idx, x - 1));
            }
        }
    }
    assert_eq!(seen_by_cols, m.ones);
    assert_eq!(seen_by_rows, m.ones);
}

/// Which texts are alists, and which matrix they denote. Also returns the
/// matrix built through the public API by inserting the ones in text order.
fn reference_parse(text: &str) -> Result<(Model, SparseMatrix), &'static str> {
    let lines: Vec<&str> = text.split('\n').collect();
    let mut header = lines[0].split_whitespace();
    let ncols: usize = header
        .next()
        .ok_or("no ncols")?
        .parse()
        .map_err(|_| "bad ncols")?;
    let nrows: usize = header
        .next()
        .ok_or("no nrows")?
        .parse()
        .map_err(|_| "bad nrows")?;
    assert!(nrows <= 5000 && ncols <= 5000, "generator bug: huge sizes");
    let mut ones = BTreeSet::new();
    let mut h = SparseMatrix::new(nrows, ncols);
    for col in 0..ncols {
        // lines 1, 2, 3 (maximum weights, weights) are not interpreted
        let line = lines.get(4 + col).ok_or("missing column line")?;
        for tok in line.split_whitespace() {
            let row: usize = tok.parse().map_err(|_| "bad row")?;
            if row == 0 {
                continue;
            }
            if row > nrows {
                return Err("row out of range");
            }
            ones.insert((row - 1, col));
            h.insert(row - 1, col);
        }
    }
    Ok((Model { nrows, ncols, ones }, h))
}

/// True if the sizes declared by the text are small or unreadable (the
/// property only speaks about moderate declared dimensions).
fn moderate(text: &str) -> bool {
    let first = text.split('\n').next().unwrap_or("");
    first
        .split_whitespace()
        .take(2)
        .all(|t| t.parse::<usize>().map(|v| v <= 2000).unwrap_or(true))
}

fn parse_guarded(text: &str) -> Result<SparseMatrix, String> {
    match catch_unwind(AssertUnwindSafe(|| SparseMatrix::from_alist(text))) {
        Ok(r) => r,
        Err(_) => panic!("from_alist panicked on {text:?}"),
    }
}

/// Compares the parser with the model on one text. Returns whether the text
/// was accepted.
fn check_parse(text: &str) -> bool {
    assert!(moderate(text));
    let got = parse_guarded(text);
    let want = reference_parse(text);
    match (got, want) {
        (Ok(h), Ok((m, h_ref))) => {
            assert_eq!(model_of(&h), m, "wrong matrix for {text:?}");
            assert!(h == h_ref, "differs from insertion in text order: {text:?}");
            // what was parsed can be written and read again
            for padding in [true, false] {
                let t = if padding {
                    h.alist()
                } else {
                    h.alist_no_padding()
                };
                assert_eq!(t, reference_text(&m, padding), "rewrite of {text:?}");
                let back = parse_guarded(&t).expect("own output rejected");
                assert_eq!(model_of(&back), m);
            }
            true
        }
        (Err(msg), Err(_)) => {
            assert!(!msg.trim().is_empty(), "empty error message for {text:?}");
            false
        }
        (Ok(_), Err(why)) => panic!("accepted a text that is not an alist ({why}): {text:?}"),
        (Err(msg), Ok(_)) => panic!("rejected a valid alist with {msg:?}: {text:?}"),
    }
}

// --------------------------------------------------------------- generators

fn random_matrix(rng: &mut Rng, nrows: usize, ncols: usize, num: usize, den: usize) -> SparseMatrix {
    let mut entries = Vec::new();
    for r in 0..nrows {
        for c in 0..ncols {
            if rng.chance(num, den) {
                entries.push((r, c));
            }
        }
    }
    rng.shuffle(&mut entries);
    let mut h = SparseMatrix::new(nrows, ncols);
    for &(r, c) in &entries {
        match rng.below(4) {
            0 => h.toggle(r, c),
            _ => h.insert(r, c),
        }
    }
    // a few redundant or cancelling operations, so that the lists have seen
    // removals too
    for _ in 0..rng.below(4) {
        let (r, c) = (rng.below(nrows), rng.below(ncols));
        let had = h.contains(r, c);
        h.toggle(r, c);
        h.toggle(r, c);
        assert_eq!(h.contains(r, c), had);
        h.remove(r, c);
        if had {
            h.insert(r, c);
        }
    }
    h
}

fn random_shape(rng: &mut Rng) -> (usize, usize) {
    match rng.below(10) {
        0 => (1, 1),
        1 => (1, 1 + rng.below(12)),
        2 => (1 + rng.below(12), 1),
        3 => (2 + rng.below(3), 20 + rng.below(30)),
        4 => (20 + rng.below(30), 2 + rng.below(3)),
        _ => (1 + rng.below(12), 1 + rng.below(12)),
    }
}

fn random_density(rng: &mut Rng) -> (usize, usize) {
    match rng.below(8) {
        0 => (0, 1),  // all-zero matrix
        1 => (1, 1),  // all-ones matrix
        2 => (1, 20), // many empty rows and columns
        3 => (9, 10),
        4 => (1, 2),
        _ => (1, 2 + rng.below(8)),
    }
}

// ------------------------------------------------------------------- writer

/// A sink that records the pieces it is given.
struct Pieces(Vec<String>);

impl fmt::Write for Pieces {
    fn write_str(&mut self, s: &str) -> fmt::Result {
        self.0.push(s.to_string());
        Ok(())
    }
}

/// A sink that fails at its k-th call (and at every later one).
struct FailAtCall {
    calls: usize,
    fail_at: usize,
    buf: String,
    failed: bool,
}

impl fmt::Write for FailAtCall {
    fn write_str(&mut self, s: &str) -> fmt::Result {
        if self.failed || self.calls >= self.fail_at {
            self.failed = true;
            return Err(fmt::Error);
        }
        self.calls += 1;
        self.buf.push_str(s);
        Ok(())
    }
}

/// A sink with a limited capacity in bytes.
struct FailAfterBytes {
    budget: usize,
    buf: String,
    failed: bool,
}

impl fmt::Write for FailAfterBytes {
    fn write_str(&mut self, s: &str) -> fmt::Result {
        if self.failed || self.buf.len() + s.len() > self.budget {
            self.failed = true;
            return Err(fmt::Error);
        }
        self.buf.push_str(s);
        Ok(())
    }
}

fn write_to<W: fmt::Write>(h: &SparseMatrix, w: &mut W, padding: bool) -> fmt::Result {
    if padding {
        h.write_alist(w)
    } else {
        h.write_alist_no_padding(w)
    }
}

fn check_matrix(h: &SparseMatrix, rng: &mut Rng, exhaustive_faults: bool) {
    let m = model_of(h);
    for padding in [true, false] {
        let text = if padding {
            h.alist()
        } else {
            h.alist_no_padding()
        };
        assert_eq!(text, reference_text(&m, padding), "padding={padding} {m:?}");
        check_structure(&text, &m, padding);

        // the same text reaches any sink, in pieces or not
        let mut s = String::from("prefix|");
        write_to(h, &mut s, padding).unwrap();
        assert_eq!(s, format!("prefix|{text}"));
        let mut p = Pieces(Vec::new());
        write_to(h, &mut p, padding).unwrap();
        assert_eq!(p.0.concat(), text);

        // lossless round trip
        let back = parse_guarded(&text).expect("own output rejected");
        assert_eq!(model_of(&back), m);
        assert!(check_parse(&text));

        // failing sinks: an error of the sink is reported, nothing else is
        let ncalls = p.0.len();
        let call_points: Vec<usize> = if exhaustive_faults {
            (0..=ncalls + 1).collect()
        } else {
            let mut v = vec![0, 1, ncalls / 2, ncalls.saturating_sub(1), ncalls, ncalls + 1];
            for _ in 0..4 {
                v.push(rng.below(ncalls + 1));
            }
            v
        };
        for k in call_points {
            let mut w = FailAtCall {
                calls: 0,
                fail_at: k,
                buf: String::new(),
                failed: false,
            };
            let r = write_to(h, &mut w, padding);
            assert_eq!(r.is_err(), w.failed, "fail at call {k}: {r:?}");
            assert!(text.starts_with(&w.buf), "sink got something else");
            if r.is_ok() {
                assert_eq!(w.buf, text);
            }
        }
        let byte_points: Vec<usize> = if exhaustive_faults {
            (0..=text.len() + 1).collect()
        } else {
            let mut v = vec![0, 1, 3, text.len() / 2, text.len() - 1, text.len(), text.len() + 1];
            for _ in 0..4 {
                v.push(rng.below(text.len() + 1));
            }
            v
        };
        for b in byte_points {
            let mut w = FailAfterBytes {
                budget: b,
                buf: String::new(),
                failed: false,
            };
            let r = write_to(h, &mut w, padding);
            assert_eq!(r.is_err(), w.failed, "budget {b}: {r:?}");
            assert_eq!(r.is_err(), b < text.len(), "budget {b}: {r:?}");
            assert!(text.starts_with(&w.buf), "sink got something else");
            if r.is_ok() {
                assert_eq!(w.buf, text);
            }
        }
    }
    // both forms denote the same matrix
    let a = parse_guarded(&h.alist()).unwrap();
    let b = parse_guarded(&h.alist_no_padding()).unwrap();
    assert!(a == b);
}

#[test]
fn writer_and_round_trip_on_random_matrices() {
    with_watchdog("writer_and_round_trip_on_random_matrices", 600, || {
        let mut rng = Rng::new(0xC08_0001);
        // every small shape, zero matrix and full matrix, exhaustive faults
        for nrows in 1..=4 {
            for ncols in 1..=4 {
                for (num, den) in [(0, 1), (1, 1), (1, 2), (1, 4)] {
                    let h = random_matrix(&mut rng, nrows, ncols, num, den);
                    check_matrix(&h, &mut rng, true);
                }
            }
        }
        for _ in 0..400 {
            let (nrows, ncols) = random_shape(&mut rng);
            let (num, den) = random_density(&mut rng);
            let h = random_matrix(&mut rng, nrows, ncols, num, den);
            check_matrix(&h, &mut rng, false);
        }
        // larger sparse matrices, multi-digit indices and weights
        for &(nrows, ncols, den) in &[(60, 150, 20), (150, 60, 15), (120, 120, 3), (1, 300, 2), (300, 1, 2)] {
            let h = random_matrix(&mut rng, nrows, ncols, 1, den);
            check_matrix(&h, &mut rng, false);
        }
        // degenerate shapes that the API allows
        for (nrows, ncols) in [(0, 0), (0, 3), (3, 0)] {
            let h = SparseMatrix::new(nrows, ncols);
            check_matrix(&h, &mut rng, true);
        }
    });
}

#[test]
fn writer_is_insensitive_to_construction_history() {
    with_watchdog("writer_is_insensitive_to_construction_history", 300, || {
        let mut rng = Rng::new(0xC08_0002);
        for _ in 0..150 {
            let (nrows, ncols) = random_shape(&mut rng);
            let (num, den) = random_density(&mut rng);
            let h1 = random_matrix(&mut rng, nrows, ncols, num, den);
            let m = model_of(&h1);
            // same set of ones, other histories: by rows descending, by
            // set_col with repeated indices, through clear_row/clear_col
            let mut h2 = SparseMatrix::new(nrows, ncols);
            for &(r, c) in m.ones.iter().rev() {
                h2.insert(r, c);
            }
            let mut h3 = random_matrix(&mut rng, nrows, ncols, 1, 2);
            for c in 0..ncols {
                let mut rows: Vec<usize> = m.ones.iter().filter(|e| e.1 == c).map(|e| e.0).collect();
                let extra = rows.clone();
                rows.extend(extra);
                rng.shuffle(&mut rows);
                h3.set_col(c, rows.iter());
            }
            let mut h4 = random_matrix(&mut rng, nrows, ncols, 1, 2);
            for r in 0..nrows {
                h4.clear_row(r);
            }
            for c in 0..ncols {
                h4.clear_col(c);
            }
            for r in 0..nrows {
                let mut cols: Vec<usize> = m.ones.iter().filter(|e| e.0 == r).map(|e| e.1).collect();
                rng.shuffle(&mut cols);
                h4.insert_row(r, cols.iter());
            }
            for h in [&h2, &h3, &h4] {
                assert_eq!(model_of(h), m);
                assert_eq!(h.alist(), h1.alist());
                assert_eq!(h.alist_no_padding(), h1.alist_no_padding());
            }
            assert_eq!(h1.alist(), reference_text(&m, true));
            assert_eq!(h1.alist_no_padding(), reference_text(&m, false));
        }
    });
}

// ------------------------------------------------------------------- parser

#[test]
fn parser_on_hand_written_texts() {
    with_watchdog("parser_on_hand_written_texts", 300, || {
        let accepted: &[&str] = &[
            // the all-zero matrix in many spellings
            "1 1\n0 0\n0\n0\n0\n0\n",
            "1 1\n0 0\n0\n0\n\n\n",
            "1 1\n0 0\n0\n0\n",
            "1 1\n\n\n\n",
            "1 1\n\n\n\n0",
            "1 1\n\n\n\n0 0 0 0",
            // no column at all: nothing after the sizes is needed
            "0 0",
            "0 0\n",
            "0 5",
            "0 5\njunk",
            "0 5\n1 2\n3 4\n5 6\n7 8\n9 x\n",
            // one
            "1 1\n1 1\n1\n1\n1\n1\n",
            "1 1\n1 1\n1\n1\n1",
            "1 1\n1 1\n1\n1\n1\n",
            "1 1\n1 1\n1\n1\n1\nthis line is about rows and is not read\n",
            // lines 2-4 are not interpreted
            "1 1\nx y\nfoo\n-3 1.5\n1\n1\n",
            "2 2\n\n\n\n1 2\n2 1\n",
            // more tokens on the first line
            "2 3 and more\n1 1\n1 1\n1 1 0\n1\n3\n",
            // plus sign, leading zeros
            "+2 +3\n1 1\n1 1\n1 1 0\n+1\n003\n",
            "2 3\n1 1\n1 1\n1 1 0\n+0 1 00\n0\n",
            // repeated and unsorted indices
            "2 3\n0 0\n0 0\n0 0 0\n3 1 3 1 2 2\n2 2 2\n",
            "2 3\n0 0\n0 0\n0 0 0\n3 0 1 0 0 0 0 0 0 2\n0\n",
            // exotic white space: CR LF, tabs, form feed, vertical tab,
            // no-break space, em space, ideographic space, next line
            "2 3\r\n1 1\r\n1 1\r\n1 1 0\r\n1\r\n3\r\n",
            "\t2\t3\t\n1 1\n1 1\n1 1 0\n\t1 \t\n 3\t\n",
            "2\u{a0}3\n1 1\n1 1\n1 1 0\n1\u{2003}2\u{3000}\n\u{85}3\u{c}\u{b}\n",
            "  2   3  \n\n\n\n   \n   \n",
            // a lone CR does not end a line
            "1 1\r\n\r\n\r\n\r\n1\r1\r",
            // rows part missing or damaged: it is not read
            "3 2\n1 2\n1 1 1\n2 1\n1\n1\n2\n",
            "3 2\n1 2\n1 1 1\n2 1\n1\n1\n2\n9 9 9\nzzz\n",
            "3 2\n1 2\n1 1 1\n2 1\n1\n1\n2",
        ];
        for text in accepted {
            assert!(check_parse(text), "should be accepted: {text:?}");
        }
        let rejected: &[&str] = &[
            "",
            "\n",
            " ",
            "\n1 1\n0 0\n0\n0\n0\n0\n",
            "1",
            "1\n1\n",
            "x 1\n",
            "1 x\n",
            "-1 1\n",
            "1 -1\n",
            "1.0 1\n",
            "1 1e0\n",
            "0x1 1\n",
            "+ 1\n",
            "1 +\n",
            "++1 1\n",
            "1_0 1\n",
            "\u{661} 1\n", // ARABIC-INDIC DIGIT ONE
            "\u{ff11} 1\n", // FULLWIDTH DIGIT ONE
            "99999999999999999999999999 1\n",
            "1 99999999999999999999999999\n",
            "18446744073709551616 1\n",
            "1 340282366920938463463374607431768211456\n",
            // too few lines
            "1 1",
            "1 1\n",
            "1 1\n0 0",
            "1 1\n0 0\n0",
            "1 1\n0 0\n0\n0",
            "1 1\r0 0\r0\r0\r0\r0\r",
            "2 2\n\n\n\n1 2",
            "3 1\n\n\n\n1\n1",
            // the sizes are swapped by the author of the file
            "2 1\n\n\n\n1\n2\n",
            // out of range
            "1 1\n\n\n\n2\n",
            "1 1\n\n\n\n1 2\n",
            "1 1\n\n\n\n0 0 0 2\n",
            "2 3\n\n\n\n1\n4\n",
            "2 3\n\n\n\n1\n18446744073709551615\n",
            "2 3\n\n\n\n1\n18446744073709551616\n",
            "2 3\n\n\n\n1\n99999999999999999999999999999999999999999999\n",
            "3 0\n\n\n\n\n\n1\n",
            // things that are not numbers in the column lists
            "2 3\n\n\n\n1\n-1\n",
            "2 3\n\n\n\n1\n-0\n",
            "2 3\n\n\n\n1 a\n2\n",
            "2 3\n\n\n\n1,2\n2\n",
            "2 3\n\n\n\n1\n2.\n",
            "2 3\n\n\n\n1\n+\n",
            "2 3\n\n\n\n1\n\u{0}\n",
            "2 3\n\n\n\n1\n2\u{200b}\n", // ZERO WIDTH SPACE is not white space
            "2 3\n\n\n\n\u{feff}1\n2\n", // byte order mark
            // the last column line counts even if earlier ones were fine
            "3 3\n\n\n\n1\n2\nx",
        ];
        for text in rejected {
            assert!(!check_parse(text), "should be rejected: {text:?}");
        }
        // "3 0": three columns, zero rows: only zeros may appear
        assert!(check_parse("3 0\n\n\n\n\n0\n0 0\n"));
        assert!(check_parse("3 0\n0 0\n0 0 0\n\n0\n0\n0\n"));
    });
}

const SOUP: &[&str] = &[
    "0", "0", "1", "1", "2", "2", "3", "3", "4", "5", "6", "7", "8", "9", "10", "11", "12", "13",
    "17", "40", "+1", "+0", "00", "007", "-1", "-0", "1.5", "x", "a1", "1a", ",", "1,2", "+", "-",
    "١", "1", "18446744073709551615", "18446744073709551616", "99999999999999999999999",
    "\u{0}", "é", "\u{200b}", "1e3", "0x2", "_",
];

const SEPARATORS: &[&str] = &[
    " ", " ", " ", " ", " ", "\n", "\n", "\n", "\n", "\r\n", "\t", "  ", " \n", "\n\n", "\r",
    "\u{a0}", "\u{2003}", "\u{3000}", "\u{c}", "\u{b}", "\u{85}", "\u{2028}",
];

fn token_soup(rng: &mut Rng) -> String {
    let mut s = String::new();
    // start with something that looks like sizes most of the time
    if rng.chance(4, 5) {
        s.push_str(&format!("{} {}", rng.below(5), rng.below(5)));
        s.push_str(rng.pick(&["\n", "\n", "\n", " ", "\r\n", " 7\n"]));
    }
    for _ in 0..rng.below(40) {
        if rng.chance(5, 6) {
            s.push_str(&rng.below(5).to_string());
        } else {
            s.push_str(rng.pick(SOUP));
        }
        s.push_str(rng.pick(SEPARATORS));
    }
    s
}

fn mutate(rng: &mut Rng, text: &str) -> String {
    let chars: Vec<char> = text.chars().collect();
    let mut lines: Vec<String> = text.split('\n').map(String::from).collect();
    match rng.below(16) {
        0 => {
            // truncate
            chars[..rng.below(chars.len() + 1)].iter().collect()
        }
        1 => {
            // delete a character
            let mut c = chars.clone();
            if !c.is_empty() {
                c.remove(rng.below(c.len()));
            }
            c.into_iter().collect()
        }
        2 => {
            // insert a character
            let mut c = chars.clone();
            let ch = rng.pick(&[
                '0', '1', '2', '9', ' ', '\n', '\r', '\t', '-', '+', 'x', '.', '\u{a0}', '\u{0}',
            ]);
            c.insert(rng.below(c.len() + 1), ch);
            c.into_iter().collect()
        }
        3 => {
            // replace a character
            let mut c = chars.clone();
            if !c.is_empty() {
                let i = rng.below(c.len());
                c[i] = rng.pick(&['0', '1', '3', '7', ' ', '\n', '-', 'q', '+']);
            }
            c.into_iter().collect()
        }
        4 => {
            // delete a line
            lines.remove(rng.below(lines.len()));
            lines.join("\n")
        }
        5 => {
            // duplicate a line
            let i = rng.below(lines.len());
            let l = lines[i].clone();
            lines.insert(i, l);
            lines.join("\n")
        }
        6 => {
            // swap two lines
            let i = rng.below(lines.len());
            let j = rng.below(lines.len());
            lines.swap(i, j);
            lines.join("\n")
        }
        7 => {
            // replace one token of one line by a number that may be out of
            // range, or by junk
            let i = rng.below(lines.len());
            let mut toks: Vec<String> = lines[i].split(' ').map(String::from).collect();
            let j = rng.below(toks.len());
            toks[j] = if rng.chance(1, 4) {
                rng.pick(SOUP).to_string()
            } else {
                rng.below(16).to_string()
            };
            lines[i] = toks.join(" ");
            lines.join("\n")
        }
        8 => {
            // shuffle and repeat the tokens of a line
            let i = rng.below(lines.len());
            let mut toks: Vec<String> = lines[i].split(' ').map(String::from).collect();
            let extra: Vec<String> = toks.iter().filter(|_| rng.chance(1, 2)).cloned().collect();
            toks.extend(extra);
            rng.shuffle(&mut toks);
            lines[i] = toks.join(" ");
            lines.join("\n")
        }
        9 => text.replace('\n', "\r\n"),
        10 => {
            // other spacing
            let sep = rng.pick(&["  ", "\t", " \u{a0}", "\u{3000}", " \r "]);
            text.replace(' ', sep)
        }
        11 => {
            // drop the final newline, or add things after it
            match rng.below(3) {
                0 => text.strip_suffix('\n').unwrap_or(text).to_string(),
                1 => format!("{text}\n\n"),
                _ => format!("{text}{}", token_soup(rng)),
            }
        }
        12 => {
            // one newline becomes a space or a lone CR: two lines merge
            let newlines: Vec<usize> = chars
                .iter()
                .enumerate()
                .filter(|(_, c)| **c == '\n')
                .map(|(i, _)| i)
                .collect();
            let mut c = chars.clone();
            if !newlines.is_empty() {
                c[rng.pick(&newlines)] = rng.pick(&[' ', '\r']);
            }
            c.into_iter().collect()
        }
        13 => {
            // damage the lines that are never interpreted
            for l in lines.iter_mut().skip(1).take(3) {
                if rng.chance(2, 3) {
                    *l = token_soup(rng).replace('\n', " ");
                }
            }
            lines.join("\n")
        }
        14 => {
            // zero padding added or removed by hand in one line
            let i = rng.below(lines.len());
            if rng.chance(1, 2) {
                lines[i].push_str(" 0 0");
            } else {
                lines[i] = lines[i].replace(" 0", "");
            }
            lines.join("\n")
        }
        _ => {
            // pad with blank space around every line
            lines
                .iter()
                .map(|l| format!(" {l}\t"))
                .collect::<Vec<_>>()
                .join("\n")
        }
    }
}

#[test]
fn parser_is_total_and_agrees_with_the_model() {
    with_watchdog("parser_is_total_and_agrees_with_the_model", 600, || {
        let mut rng = Rng::new(0xC08_0003);
        let mut accepted = 0usize;
        let mut rejected = 0usize;
        let mut tally = |ok: bool| {
            if ok {
                accepted += 1;
            } else {
                rejected += 1;
            }
        };

        // token soups
        for _ in 0..4000 {
            let text = token_soup(&mut rng);
            if moderate(&text) {
                tally(check_parse(&text));
            }
        }

        // valid texts and their mutations
        for _ in 0..700 {
            let (nrows, ncols) = match rng.below(4) {
                0 => (1 + rng.below(3), 1 + rng.below(3)),
                _ => (1 + rng.below(9), 1 + rng.below(9)),
            };
            let (num, den) = random_density(&mut rng);
            let h = random_matrix(&mut rng, nrows, ncols, num, den);
            let text = if rng.chance(1, 2) {
                h.alist()
            } else {
                h.alist_no_padding()
            };
            assert!(check_parse(&text));
            for _ in 0..12 {
                let mut t = text.clone();
                for _ in 0..(1 + rng.below(3)) {
                    t = mutate(&mut rng, &t);
                }
                if moderate(&t) {
                    tally(check_parse(&t));
                }
            }
        }

        // every truncation of some valid texts, with both line endings
        for _ in 0..25 {
            let (nrows, ncols) = (1 + rng.below(6), 1 + rng.below(6));
            let h = random_matrix(&mut rng, nrows, ncols, 1, 2);
            for text in [h.alist(), h.alist_no_padding(), h.alist().replace('\n', "\r\n")] {
                for (pos, _) in text.char_indices() {
                    tally(check_parse(&text[..pos]));
                }
                tally(check_parse(&text));
            }
        }

        // every single index of a valid text replaced by every small value:
        // accepted exactly when it is within range
        for _ in 0..12 {
            let (nrows, ncols) = (1 + rng.below(5), 1 + rng.below(5));
            let h = random_matrix(&mut rng, nrows, ncols, 1, 2);
            let text = h.alist();
            let lines: Vec<&str> = text.split('\n').collect();
            for i in 4..4 + ncols {
                let toks: Vec<&str> = lines[i].split(' ').collect();
                for j in 0..toks.len() {
                    for v in 0..nrows + 3 {
                        let vs = v.to_string();
                        let mut t2 = toks.clone();
                        t2[j] = &vs;
                        let l2 = t2.join(" ");
                        let mut lines2 = lines.clone();
                        lines2[i] = &l2;
                        let mutated = lines2.join("\n");
                        let ok = check_parse(&mutated);
                        assert_eq!(ok, v <= nrows, "index {v} with {nrows} rows: {mutated:?}");
                        tally(ok);
                    }
                }
            }
        }

        assert!(accepted > 1500, "too few accepted texts: {accepted}");
        assert!(rejected > 1500, "too few rejected texts: {rejected}");
    });
}

#[test]
fn writer_with_many_digits() {
    with_watchdog("writer_with_many_digits", 600, || {
        // indices and weights around every power of ten up to 10^5
        let marks = [
            0usize, 8, 9, 10, 98, 99, 100, 101, 998, 999, 1000, 9998, 9999, 10000, 10001, 99998,
            99999, 100000, 100001, 100002,
        ];
        for transpose in [false, true] {
            let (nrows, ncols) = if transpose { (100_003, 3) } else { (3, 100_003) };
            let mut h = SparseMatrix::new(nrows, ncols);
            for &k in marks.iter().rev() {
                for j in 0..3 {
                    if j != 1 || k % 2 == 0 {
                        if transpose {
                            h.insert(k, j);
                        } else {
                            h.insert(j, k);
                        }
                    }
                }
            }
            // one long line with weight 1001 (four digits in the weight lines)
            for k in (0..100_003).step_by(100).rev() {
                if transpose {
                    h.insert(k, 2);
                } else {
                    h.insert(2, k);
                }
            }
            let m = model_of(&h);
            for padding in [true, false] {
                let text = if padding {
                    h.alist()
                } else {
                    h.alist_no_padding()
                };
                assert!(text == reference_text(&m, padding), "wide matrix, padding={padding}");
                let mut p = Pieces(Vec::new());
                write_to(&h, &mut p, padding).unwrap();
                assert!(p.0.concat() == text);
                let back = parse_guarded(&text).expect("own output rejected");
                assert!(model_of(&back) == m);
                for budget in [0, 7, text.len() / 3, text.len() - 1, text.len()] {
                    let mut w = FailAfterBytes {
                        budget,
                        buf: String::new(),
                        failed: false,
                    };
                    let r = write_to(&h, &mut w, padding);
                    assert_eq!(r.is_err(), w.failed);
                    assert_eq!(r.is_err(), budget < text.len());
                    assert!(text.starts_with(&w.buf));
                }
            }
        }
    });
}
