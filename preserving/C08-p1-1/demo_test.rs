// Demo for change 1 (alist writer restructured: helper functions, one reused
// scratch buffer, unified padding rule). Public API only.
//
// The expected text is produced here by an independent reference writer working
// from a BTreeSet of the ones, and compared byte for byte.

use ldpc_toolbox::sparse::SparseMatrix;
use std::collections::BTreeSet;

struct Rng(u64);

impl Rng {
    fn next(&mut self) -> u64 {
        // xorshift64*
        self.0 ^= self.0 >> 12;
        self.0 ^= self.0 << 25;
        self.0 ^= self.0 >> 27;
        self.0.wrapping_mul(0x2545F4914F6CDD1D)
    }
    fn below(&mut self, n: usize) -> usize {
        (self.next() % (n as u64)) as usize
    }
}

fn join(v: &[usize]) -> String {
    v.iter()
        .map(|x| x.to_string())
        .collect::<Vec<_>>()
        .join(" ")
}

/// Independent reference for the alist text.
fn reference_alist(nrows: usize, ncols: usize, ones: &BTreeSet<(usize, usize)>, pad: bool) -> String {
    let mut cols = vec![Vec::new(); ncols];
    let mut rows = vec![Vec::new(); nrows];
    for &(r, c) in ones {
        // BTreeSet iteration is sorted by (r, c), so both kinds of lists come
        // out sorted
        cols[c].push(r + 1);
        rows[r].push(c + 1);
    }
    let maxc = cols.iter().map(|v| v.len()).max().unwrap_or(0);
    let maxr = rows.iter().map(|v| v.len()).max().unwrap_or(0);
    let mut s = String::new();
    s += &format!("{} {}\n", ncols, nrows);
    s += &format!("{} {}\n", maxc, maxr);
    s += &join(&cols.iter().map(|v| v.len()).collect::<Vec<_>>());
    s += "\n";
    s += &join(&rows.iter().map(|v| v.len()).collect::<Vec<_>>());
    s += "\n";
    for (lists, max) in [(&cols, maxc), (&rows, maxr)] {
        for l in lists.iter() {
            let mut l = l.clone();
            if pad {
                if l.is_empty() {
                    l.push(0);
                }
                while l.len() < max {
                    l.push(0);
                }
            }
            s += &join(&l);
            s += "\n";
        }
    }
    s
}

fn check(h: &SparseMatrix, nrows: usize, ncols: usize, ones: &BTreeSet<(usize, usize)>) {
    assert_eq!(h.num_rows(), nrows);
    assert_eq!(h.num_cols(), ncols);
    let padded = reference_alist(nrows, ncols, ones, true);
    let unpadded = reference_alist(nrows, ncols, ones, false);
    assert_eq!(h.alist(), padded);
    assert_eq!(h.alist_no_padding(), unpadded);

    // the writer entry points agree with the String entry points, also when
    // appending to a non-empty buffer
    let mut buf = String::from("prefix|");
    h.write_alist(&mut buf).unwrap();
    assert_eq!(buf, format!("prefix|{}", padded));
    let mut buf = String::from("prefix|");
    h.write_alist_no_padding(&mut buf).unwrap();
    assert_eq!(buf, format!("prefix|{}", unpadded));

    // round trip
    for text in [&padded, &unpadded] {
        let h2 = SparseMatrix::from_alist(text).unwrap();
        assert_eq!(h2.num_rows(), nrows);
        assert_eq!(h2.num_cols(), ncols);
        let got: BTreeSet<(usize, usize)> = h2.iter_all().collect();
        assert_eq!(&got, ones);
        assert_eq!(h2.alist(), padded);
        assert_eq!(h2.alist_no_padding(), unpadded);
    }
    if ncols > 0 {
        assert_eq!(
            SparseMatrix::from_alist(&padded).unwrap(),
            SparseMatrix::from_alist(&unpadded).unwrap()
        );
    }
}

fn random_matrix(rng: &mut Rng, nrows: usize, ncols: usize, fill_permille: usize) {
    let mut cells: Vec<(usize, usize)> = Vec::new();
    for r in 0..nrows {
        for c in 0..ncols {
            if rng.below(1000) < fill_permille {
                cells.push((r, c));
            }
        }
    }
    // shuffle so that the internal lists are not sorted
    for i in (1..cells.len()).rev() {
        let j = rng.below(i + 1);
        cells.swap(i, j);
    }
    let mut h = SparseMatrix::new(nrows, ncols);
    let mut ones = BTreeSet::new();
    for &(r, c) in &cells {
        h.insert(r, c);
        ones.insert((r, c));
    }
    check(&h, nrows, ncols, &ones);
    // remove roughly half and check again (this leaves empty rows/columns)
    for &(r, c) in &cells {
        if rng.below(2) == 0 {
            h.remove(r, c);
            ones.remove(&(r, c));
        }
    }
    check(&h, nrows, ncols, &ones);
}

#[test]
fn writer_random_matrices() {
    let mut rng = Rng(0x9E3779B97F4A7C15);
    let shapes = [
        (1, 1),
        (1, 2),
        (2, 1),
        (1, 17),
        (17, 1),
        (2, 2),
        (3, 5),
        (5, 3),
        (8, 8),
        (4, 12),
        (13, 29),
        (40, 11),
    ];
    for &(nrows, ncols) in &shapes {
        for &fill in &[0, 30, 150, 500, 900, 1000] {
            for _ in 0..4 {
                random_matrix(&mut rng, nrows, ncols, fill);
            }
        }
    }
}

#[test]
fn writer_all_zero_and_degenerate_shapes() {
    for &(nrows, ncols) in &[(1, 1), (1, 4), (4, 1), (3, 3), (0, 0), (0, 3), (3, 0)] {
        let h = SparseMatrix::new(nrows, ncols);
        let ones = BTreeSet::new();
        let padded = reference_alist(nrows, ncols, &ones, true);
        let unpadded = reference_alist(nrows, ncols, &ones, false);
        assert_eq!(h.alist(), padded);
        assert_eq!(h.alist_no_padding(), unpadded);
        let h2 = SparseMatrix::from_alist(&padded).unwrap();
        assert_eq!(h2, h);
        let h3 = SparseMatrix::from_alist(&unpadded).unwrap();
        assert_eq!(h3, h);
    }
    // explicit texts
    assert_eq!(SparseMatrix::new(1, 1).alist(), "1 1\n0 0\n0\n0\n0\n0\n");
    assert_eq!(SparseMatrix::new(1, 1).alist_no_padding(), "1 1\n0 0\n0\n0\n\n\n");
    assert_eq!(SparseMatrix::new(2, 3).alist(), "3 2\n0 0\n0 0 0\n0 0\n0\n0\n0\n0\n0\n");
    assert_eq!(
        SparseMatrix::new(2, 3).alist_no_padding(),
        "3 2\n0 0\n0 0 0\n0 0\n\n\n\n\n\n"
    );
    assert_eq!(SparseMatrix::new(0, 2).alist(), "2 0\n0 0\n0 0\n\n0\n0\n");
    assert_eq!(SparseMatrix::new(2, 0).alist(), "0 2\n0 0\n\n0 0\n0\n0\n");
    assert_eq!(SparseMatrix::new(0, 0).alist(), "0 0\n0 0\n\n\n");
}

#[test]
fn writer_explicit_irregular() {
    // one heavy row, one heavy column, one empty row and one empty column,
    // inserted in descending order so that the internal lists are reversed
    let mut h = SparseMatrix::new(4, 5);
    for c in (0..4).rev() {
        h.insert(0, c);
    }
    for r in (0..3).rev() {
        h.insert(r, 1);
    }
    let padded = "5 4\n3 4\n1 3 1 1 0\n4 1 1 0\n1 0 0\n1 2 3\n1 0 0\n1 0 0\n0 0 0\n1 2 3 4\n2 0 0 0\n2 0 0 0\n0 0 0 0\n";
    let unpadded = "5 4\n3 4\n1 3 1 1 0\n4 1 1 0\n1\n1 2 3\n1\n1\n\n1 2 3 4\n2\n2\n\n";
    assert_eq!(h.alist(), padded);
    assert_eq!(h.alist_no_padding(), unpadded);

    // only one of the two directions is all empty cannot happen, but maximum
    // weight 1 with empty lists can: padding is a single zero
    let mut h = SparseMatrix::new(2, 2);
    h.insert(1, 0);
    assert_eq!(h.alist(), "2 2\n1 1\n1 0\n0 1\n2\n0\n0\n1\n");
    assert_eq!(h.alist_no_padding(), "2 2\n1 1\n1 0\n0 1\n2\n\n\n1\n");

    // set_row / set_col / clear_row / clear_col / toggle
    let mut h = SparseMatrix::new(3, 4);
    h.set_row(1, [3usize, 0, 2].iter());
    h.set_col(2, [2usize, 0].iter());
    h.toggle(0, 0);
    h.toggle(1, 0);
    h.clear_row(2);
    let ones: BTreeSet<(usize, usize)> = h.iter_all().collect();
    assert_eq!(
        ones,
        BTreeSet::from([(0, 0), (0, 2), (1, 3)])
    );
    check(&h, 3, 4, &ones);
}

struct FailingWriter;

impl std::fmt::Write for FailingWriter {
    fn write_str(&mut self, _s: &str) -> std::fmt::Result {
        Err(std::fmt::Error)
    }
}

#[test]
fn writer_propagates_errors() {
    let mut h = SparseMatrix::new(3, 3);
    h.insert(1, 2);
    assert!(h.write_alist(&mut FailingWriter).is_err());
    assert!(h.write_alist_no_padding(&mut FailingWriter).is_err());
    assert!(SparseMatrix::new(1, 1).write_alist(&mut FailingWriter).is_err());
}
