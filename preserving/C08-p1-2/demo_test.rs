// Demo for change 2 (alist parser restructured: header helper, per-column helper,
// O(1) duplicate detection with a per-row marker instead of insert()'s search).
// Public API only.
//
// The library parser is compared against an independent reference parser written
// here: same success/error classification, same error message, same dimensions
// and the same adjacency lists in the same order.

use ldpc_toolbox::sparse::SparseMatrix;
use std::collections::BTreeSet;

struct Rng(u64);

impl Rng {
    fn next(&mut self) -> u64 {
        // xorshift64*
        self.0 ^= self.0 >> 12;
        self.0 ^= self.0 << 25;
        self.0 ^= self.0 >> 27;
        self.0.wrapping_mul(0x2545F4914F6CDD1D)
    }
    fn below(&mut self, n: usize) -> usize {
        (self.next() % (n as u64)) as usize
    }
}

struct Parsed {
    nrows: usize,
    ncols: usize,
    cols: Vec<Vec<usize>>,
    rows: Vec<Vec<usize>>,
}

fn reference_parse(text: &str) -> Result<Parsed, String> {
    let lines: Vec<&str> = text.split('\n').collect();
    let header: Vec<&str> = lines[0].split_whitespace().collect();
    let not_enough = "alist first line does not contain enough elements";
    if header.is_empty() {
        return Err(not_enough.to_string());
    }
    let ncols: usize = header[0]
        .parse()
        .map_err(|_| "ncols is not a number".to_string())?;
    if header.len() < 2 {
        return Err(not_enough.to_string());
    }
    let nrows: usize = header[1]
        .parse()
        .map_err(|_| "nrows is not a number".to_string())?;
    let mut cols: Vec<Vec<usize>> = vec![Vec::new(); ncols];
    let mut rows: Vec<Vec<usize>> = vec![Vec::new(); nrows];
    for c in 0..ncols {
        let idx = 4 + c;
        if idx >= lines.len() {
            return Err("alist does not contain expected number of lines".to_string());
        }
        for tok in lines[idx].split_whitespace() {
            let r: usize = tok
                .parse()
                .map_err(|_| "row value is not a number".to_string())?;
            if r == 0 {
                continue;
            }
            if r > nrows {
                return Err("row value exceeds the number of rows".to_string());
            }
            if !cols[c].contains(&(r - 1)) {
                cols[c].push(r - 1);
                rows[r - 1].push(c);
            }
        }
    }
    Ok(Parsed {
        nrows,
        ncols,
        cols,
        rows,
    })
}

/// Returns true if the text was accepted.
fn compare(text: &str) -> bool {
    let expected = reference_parse(text);
    let got = SparseMatrix::from_alist(text);
    match (expected, got) {
        (Err(e), Err(g)) => {
            assert_eq!(e, g, "different error for {:?}", text);
            false
        }
        (Ok(p), Ok(h)) => {
            assert_eq!(h.num_rows(), p.nrows, "nrows for {:?}", text);
            assert_eq!(h.num_cols(), p.ncols, "ncols for {:?}", text);
            for c in 0..p.ncols {
                let col: Vec<usize> = h.iter_col(c).copied().collect();
                assert_eq!(col, p.cols[c], "column {} for {:?}", c, text);
                assert_eq!(h.col_weight(c), p.cols[c].len());
            }
            for r in 0..p.nrows {
                let row: Vec<usize> = h.iter_row(r).copied().collect();
                assert_eq!(row, p.rows[r], "row {} for {:?}", r, text);
                assert_eq!(h.row_weight(r), p.rows[r].len());
            }
            // the same matrix built through the public insert() interface
            let mut h2 = SparseMatrix::new(p.nrows, p.ncols);
            for c in 0..p.ncols {
                for &r in &p.cols[c] {
                    assert!(h.contains(r, c));
                    h2.insert(r, c);
                }
            }
            assert_eq!(h, h2, "matrix differs from insert()-built one for {:?}", text);
            // and what was parsed can be written and parsed again
            let again = SparseMatrix::from_alist(&h.alist()).unwrap();
            let a: BTreeSet<(usize, usize)> = again.iter_all().collect();
            let b: BTreeSet<(usize, usize)> = h.iter_all().collect();
            assert_eq!(a, b);
            let again = SparseMatrix::from_alist(&h.alist_no_padding()).unwrap();
            let a: BTreeSet<(usize, usize)> = again.iter_all().collect();
            assert_eq!(a, b);
            true
        }
        (Ok(_), Err(g)) => panic!("rejected ({}) but should be accepted: {:?}", g, text),
        (Err(e), Ok(_)) => panic!("accepted but should be rejected ({}): {:?}", e, text),
    }
}

fn random_matrix(rng: &mut Rng) -> SparseMatrix {
    let nrows = 1 + rng.below(9);
    let ncols = 1 + rng.below(12);
    let fill = [0, 100, 300, 700, 1000][rng.below(5)];
    let mut cells = Vec::new();
    for r in 0..nrows {
        for c in 0..ncols {
            if rng.below(1000) < fill {
                cells.push((r, c));
            }
        }
    }
    for i in (1..cells.len()).rev() {
        let j = rng.below(i + 1);
        cells.swap(i, j);
    }
    let mut h = SparseMatrix::new(nrows, ncols);
    for (r, c) in cells {
        h.insert(r, c);
    }
    h
}

const JUNK: [&str; 16] = [
    "x", "-1", "+2", "1.0", "99999999999999999999999", "0", "00", "007", "1e1", "0x1", "1_0", "٣",
    "-0", "+0", "1,2", "+",
];

fn mutate(rng: &mut Rng, text: &str) -> String {
    let mut lines: Vec<Vec<String>> = text
        .split('\n')
        .map(|l| l.split(' ').map(|t| t.to_string()).collect())
        .collect();
    let nmut = 1 + rng.below(3);
    for _ in 0..nmut {
        let li = rng.below(lines.len());
        match rng.below(9) {
            0 => {
                // replace a token by junk
                let ti = rng.below(lines[li].len());
                lines[li][ti] = JUNK[rng.below(JUNK.len())].to_string();
            }
            1 => {
                // replace a token by a small number (possibly out of range,
                // possibly a duplicate)
                let ti = rng.below(lines[li].len());
                lines[li][ti] = rng.below(14).to_string();
            }
            2 => {
                // duplicate a token in the line (in a random position)
                let ti = rng.below(lines[li].len());
                let tok = lines[li][ti].clone();
                let pos = rng.below(lines[li].len() + 1);
                lines[li].insert(pos, tok);
            }
            3 => {
                // delete a line
                if lines.len() > 1 {
                    lines.remove(li);
                }
            }
            4 => {
                // duplicate a line
                let l = lines[li].clone();
                lines.insert(li, l);
            }
            5 => {
                // swap two lines
                let lj = rng.below(lines.len());
                lines.swap(li, lj);
            }
            6 => {
                // delete a token
                if lines[li].len() > 1 {
                    let ti = rng.below(lines[li].len());
                    lines[li].remove(ti);
                }
            }
            7 => {
                // reverse the tokens of a line (changes the insertion order)
                lines[li].reverse();
            }
            _ => {
                // append extra tokens
                lines[li].push(rng.below(5).to_string());
                lines[li].push(JUNK[rng.below(JUNK.len())].to_string());
            }
        }
    }
    let seps = [" ", "  ", "\t", " \t ", "\u{a0}", "\u{2003}"];
    let eol = ["\n", "\r\n", " \n", "\t\r\n"][rng.below(4)];
    let sep = if rng.below(3) == 0 {
        seps[rng.below(seps.len())]
    } else {
        " "
    };
    let mut out = lines
        .iter()
        .map(|l| l.join(sep))
        .collect::<Vec<_>>()
        .join(eol);
    if rng.below(4) == 0 {
        // truncate at a random character boundary
        let mut cut = rng.below(out.len() + 1);
        while !out.is_char_boundary(cut) {
            cut -= 1;
        }
        out.truncate(cut);
    }
    out
}

#[test]
fn parser_valid_alists() {
    let mut rng = Rng(0xD1B54A32D192ED03);
    let mut accepted = 0;
    for _ in 0..600 {
        let h = random_matrix(&mut rng);
        for text in [h.alist(), h.alist_no_padding()] {
            assert!(compare(&text));
            // without the final newline, with CRLF, with leading/trailing blanks
            assert!(compare(text.strip_suffix('\n').unwrap()));
            assert!(compare(&text.replace('\n', "\r\n")));
            assert!(compare(&text.replace('\n', " \t\n  ")));
            // anything may follow the column section
            assert!(compare(&format!("{}garbage -5 x\n\n", text)));
            let parsed = SparseMatrix::from_alist(&text).unwrap();
            let a: BTreeSet<(usize, usize)> = parsed.iter_all().collect();
            let b: BTreeSet<(usize, usize)> = h.iter_all().collect();
            assert_eq!(a, b);
            accepted += 1;
        }
    }
    assert_eq!(accepted, 1200);
}

#[test]
fn parser_mutated_alists() {
    let mut rng = Rng(0xA0761D6478BD642F);
    let mut accepted = 0;
    let mut rejected = 0;
    for _ in 0..1500 {
        let h = random_matrix(&mut rng);
        let text = if rng.below(2) == 0 {
            h.alist()
        } else {
            h.alist_no_padding()
        };
        for _ in 0..4 {
            let m = mutate(&mut rng, &text);
            if compare(&m) {
                accepted += 1;
            } else {
                rejected += 1;
            }
        }
    }
    // both outcomes are well represented
    assert!(accepted > 500, "accepted {}", accepted);
    assert!(rejected > 500, "rejected {}", rejected);
}

#[test]
fn parser_token_soups() {
    let mut rng = Rng(0xE7037ED1A0B428DB);
    let vocab = [
        "0", "1", "2", "3", "4", "5", "6", "7", "8", "9", "10", "12", "+3", "-1", "x", "1.5", "",
        "\t", "\r", "00", "03",
    ];
    let mut accepted = 0;
    for _ in 0..6000 {
        let nlines = rng.below(14);
        let mut text = String::new();
        for i in 0..nlines {
            let ntok = rng.below(6);
            for j in 0..ntok {
                if j > 0 {
                    text.push(' ');
                }
                // bias the first lines towards numbers so that a good share
                // of the soups have a valid header
                let k = if i == 0 {
                    rng.below(13)
                } else {
                    rng.below(vocab.len())
                };
                text.push_str(vocab[k]);
            }
            if i + 1 < nlines || rng.below(2) == 0 {
                text.push('\n');
            }
        }
        if compare(&text) {
            accepted += 1;
        }
    }
    assert!(accepted > 50, "accepted {}", accepted);
}

#[test]
fn parser_explicit_cases() {
    let err = |t: &str| SparseMatrix::from_alist(t).unwrap_err();
    let not_enough = "alist first line does not contain enough elements";
    assert_eq!(err(""), not_enough);
    assert_eq!(err("\n"), not_enough);
    assert_eq!(err("   \n1 1\n"), not_enough);
    assert_eq!(err("3"), not_enough);
    assert_eq!(err("3\n4\n"), not_enough);
    assert_eq!(err("x"), "ncols is not a number");
    assert_eq!(err("x y"), "ncols is not a number");
    assert_eq!(err("-3 2"), "ncols is not a number");
    assert_eq!(err("3 y"), "nrows is not a number");
    assert_eq!(err("3 2.0"), "nrows is not a number");
    let lines = "alist does not contain expected number of lines";
    assert_eq!(err("1 1"), lines);
    assert_eq!(err("1 1\n"), lines);
    assert_eq!(err("1 1\n1 1\n1\n1"), lines);
    assert_eq!(err("2 1\n1 1\n1 1\n1\n1"), lines);
    assert_eq!(err("1 1\n1 1\n1\n1\nz"), "row value is not a number");
    assert_eq!(err("1 1\n1 1\n1\n1\n-1"), "row value is not a number");
    assert_eq!(err("1 1\n1 1\n1\n1\n2"), "row value exceeds the number of rows");
    assert_eq!(err("1 0\n0 0\n0\n\n1"), "row value exceeds the number of rows");
    // the first problem found is the one reported
    assert_eq!(err("2 1\n1 1\n1 1\n1\n1 2 z"), "row value exceeds the number of rows");
    assert_eq!(err("2 1\n1 1\n1 1\n1\n1 z 2"), "row value is not a number");
    assert_eq!(err("2 1\n1 1\n1 1\n1\nz"), "row value is not a number");
    assert_eq!(err("3 1\n1 1\n1 1\n1\n1\n2"), "row value exceeds the number of rows");

    // accepted
    for t in [
        "1 1\n1 1\n1\n1\n1\n1\n",
        "1 1\n1 1\n1\n1\n1",
        "1 1\n\n\n\n1",
        "1 1\nfoo\nbar\nbaz\n1",
        "1 1 extra tokens\n1 1\n1\n1\n1 0 0 1 1 0\n",
        "+1 +1\n1 1\n1\n1\n+1\n",
        "1 1\n1 1\n1\n1\n\n",
        "1 1\n1 1\n1\n1\n0\n",
        "1 1\n1 1\n1\n1\n0 0 0 0\n",
        "0 0",
        "0 5",
        "0 0\n0 0\n\n\n",
        "3 0\n0 0\n0 0 0\n\n0\n\n0 0\n",
        "2 3\n2 2\n2 2\n1 2 1\n3 1\n2 3\n",
        "2 3\n2 2\n2 2\n1 2 1\n3 1 3 3 1\n2 0 3 2 0\n",
        "2 3\r\n2 2\r\n2 2\r\n1 2 1\r\n1 2\r\n2 3\r\n1\r\n1 2\r\n2\r\n",
    ] {
        assert!(compare(t), "{:?}", t);
    }

    // the order inside a column is the order in the text, duplicates and
    // padding zeros are ignored, rows list the columns in increasing order
    let h = SparseMatrix::from_alist("3 4\n0 0\n\n\n4 2 0 4 1 2\n\n3 0 1 3 0\n").unwrap();
    assert_eq!(h.iter_col(0).copied().collect::<Vec<_>>(), vec![3, 1, 0]);
    assert_eq!(h.iter_col(1).count(), 0);
    assert_eq!(h.iter_col(2).copied().collect::<Vec<_>>(), vec![2, 0]);
    assert_eq!(h.iter_row(0).copied().collect::<Vec<_>>(), vec![0, 2]);
    assert_eq!(h.iter_row(1).copied().collect::<Vec<_>>(), vec![0]);
    assert_eq!(h.iter_row(2).copied().collect::<Vec<_>>(), vec![2]);
    assert_eq!(h.iter_row(3).copied().collect::<Vec<_>>(), vec![0]);

    // the same row in different columns is not a duplicate
    let h = SparseMatrix::from_alist("4 2\n0 0\n\n\n1\n1\n2 1\n1 1 2 2 1\n").unwrap();
    assert_eq!(h.iter_row(0).copied().collect::<Vec<_>>(), vec![0, 1, 2, 3]);
    assert_eq!(h.iter_row(1).copied().collect::<Vec<_>>(), vec![2, 3]);
    assert_eq!(h.iter_col(2).copied().collect::<Vec<_>>(), vec![1, 0]);
    assert_eq!(h.iter_col(3).copied().collect::<Vec<_>>(), vec![0, 1]);

    // moderately large dimensions with nothing in them
    let h = SparseMatrix::from_alist(&format!("1000 2000\n0 0\n\n\n{}", "\n".repeat(1000))).unwrap();
    assert_eq!(h.num_rows(), 2000);
    assert_eq!(h.num_cols(), 1000);
    assert_eq!(h.iter_all().count(), 0);
}
