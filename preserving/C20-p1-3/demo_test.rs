//! Demo for the `ber` subcommand: the result files contain the test details,
//! the table header and exactly one line per requested Eb/N0, whose numbers
//! satisfy the statistics identities. Also covers the parsing of puncturing
//! patterns.

use ldpc_toolbox::{cli::ber::parse_puncturing_pattern, systematic::parity_to_systematic};
use std::{
    fs,
    path::{Path, PathBuf},
    process::{Command, Output, Stdio},
};

const BIN: &str = env!("CARGO_BIN_EXE_ldpc-toolbox");

const HEADER: &str = "  Eb/N0 |   Frames | Bit errs | Frame er | False de |     BER |     FER | Avg iter | Avg corr | Throughp | Elapsed\n\
--------|----------|----------|----------|----------|---------|---------|----------|----------|----------|----------\n";

struct Dir(PathBuf);

impl Dir {
    fn new(name: &str) -> Dir {
        let p = std::env::temp_dir().join(format!(
            "ldpc-toolbox-ber-demo-{}-{}",
            name,
            std::process::id()
        ));
        let _ = fs::remove_dir_all(&p);
        fs::create_dir_all(&p).unwrap();
        Dir(p)
    }
    fn path(&self, f: &str) -> PathBuf {
        self.0.join(f)
    }
    // Writes the alist of a small systematic code (n = 60, k = 30)
    fn alist(&self) -> PathBuf {
        let h = ldpc_toolbox::peg::Config {
            nrows: 30,
            ncols: 60,
            wc: 3,
        }
        .run(0)
        .unwrap();
        let h = parity_to_systematic(&h).unwrap();
        let p = self.path("code.alist");
        fs::write(&p, h.alist()).unwrap();
        p
    }
}

impl Drop for Dir {
    fn drop(&mut self) {
        let _ = fs::remove_dir_all(&self.0);
    }
}

#[test]
fn puncturing_patterns() {
    assert_eq!(parse_puncturing_pattern("1"), Ok(vec![true]));
    assert_eq!(parse_puncturing_pattern("0"), Ok(vec![false]));
    assert_eq!(
        parse_puncturing_pattern("1,1,1,0"),
        Ok(vec![true, true, true, false])
    );
    assert_eq!(
        parse_puncturing_pattern("0,1,0,0,1"),
        Ok(vec![false, true, false, false, true])
    );
    // All the patterns up to length 10
    for len in 1..=10 {
        for mask in 0..1u32 << len {
            let v: Vec<bool> = (0..len).map(|j| (mask >> j) & 1 == 1).collect();
            let s = v
                .iter()
                .map(|&b| if b { "1" } else { "0" })
                .collect::<Vec<_>>()
                .join(",");
            assert_eq!(parse_puncturing_pattern(&s), Ok(v));
        }
    }
    let long = vec!["1"; 5000].join(",");
    assert_eq!(parse_puncturing_pattern(&long), Ok(vec![true; 5000]));
    for bad in [
        "", ",", "1,", ",1", "1,,0", "2", "1,2", "2,1", "1,0,x", "x,1,0", "1 ,0", "1, 0", " 1", "1 ",
        "10", "01", "1;0", "1.0", "true", "1,0\n", "\n", "-1", "+1", "１", "1,0,", ",,", "0,0,0,00",
    ] {
        assert_eq!(
            parse_puncturing_pattern(bad),
            Err("invalid puncturing pattern"),
            "{bad:?}"
        );
    }
}

#[derive(Debug, Clone, Copy)]
struct Case {
    min: f64,
    max: f64,
    step: f64,
    frame_errors: u64,
    bch: u64,
    puncturing: Option<&'static str>,
    ldpc_file: bool,
}

// Same computation as documented for the subcommand: Eb/N0's from the minimum
// in multiples of the step up to the maximum
fn expected_ebn0s(c: &Case) -> Vec<String> {
    let num = ((c.max - c.min) / c.step).floor() as usize + 1;
    (0..num)
        .map(|j| format!("{:7.2}", (c.min + j as f64 * c.step) as f32))
        .collect()
}

fn run_ber(alist: &Path, c: &Case, out: Option<&Path>, out_ldpc: Option<&Path>) -> Output {
    let mut cmd = Command::new(BIN);
    cmd.arg("ber")
        .arg(alist)
        .arg(format!("--min-ebn0={}", c.min))
        .arg(format!("--max-ebn0={}", c.max))
        .arg(format!("--step-ebn0={}", c.step))
        .arg(format!("--frame-errors={}", c.frame_errors))
        .arg(format!("--bch-max-errors={}", c.bch));
    if let Some(p) = c.puncturing {
        cmd.arg("--puncturing").arg(p);
    }
    if let Some(o) = out {
        cmd.arg("--output-file").arg(o);
    }
    if let Some(o) = out_ldpc {
        cmd.arg("--output-file-ldpc").arg(o);
    }
    cmd.stdin(Stdio::null()).output().unwrap()
}

struct Row {
    ebn0: String,
    frames: u64,
    bit_errors: u64,
    frame_errors: u64,
    false_decodes: u64,
    line: String,
}

// Checks a line of results and the identities between its numbers
fn parse_row(line: &str, k: u64) -> Row {
    let cols: Vec<&str> = line.split(" | ").collect();
    assert_eq!(cols.len(), 11, "{line:?}");
    let int = |s: &str| -> u64 {
        assert_eq!(s.len(), 8.max(s.trim().len()));
        s.trim().parse().unwrap()
    };
    let frames = int(cols[1]);
    let bit_errors = int(cols[2]);
    let frame_errors = int(cols[3]);
    let false_decodes = int(cols[4]);
    assert!(frames >= 1);
    assert!(frame_errors <= frames);
    assert!(bit_errors >= frame_errors);
    assert!(bit_errors <= k * frame_errors);
    let ber = bit_errors as f64 / (k as f64 * frames as f64);
    let fer = frame_errors as f64 / frames as f64;
    assert_eq!(cols[5], format!("{ber:7.2e}"), "BER in {line:?}");
    assert_eq!(cols[6], format!("{fer:7.2e}"), "FER in {line:?}");
    let avg_iter: f64 = cols[7].trim().parse().unwrap();
    assert!((0.0..=100.0).contains(&avg_iter));
    let avg_corr: f64 = cols[8].trim().parse().unwrap();
    if frame_errors == frames {
        assert!(avg_corr.is_nan());
    } else {
        assert!((0.0..=100.0).contains(&avg_corr));
    }
    let throughput: f64 = cols[9].trim().parse().unwrap();
    assert!(throughput >= 0.0);
    humantime::parse_duration(cols[10]).unwrap();
    Row {
        ebn0: cols[0].to_string(),
        frames,
        bit_errors,
        frame_errors,
        false_decodes,
        line: line.to_string(),
    }
}

// Checks a results file and returns its rows
fn check_file(contents: &str, details: &str, title: Option<&str>, c: &Case, k: u64) -> Vec<Row> {
    let mut preamble = details.to_string();
    if let Some(t) = title {
        preamble.push_str(&format!("\n{t}\n\n"));
    }
    preamble.push_str(HEADER);
    assert!(
        contents.starts_with(&preamble),
        "wrong preamble:\n{contents}"
    );
    let table = &contents[preamble.len()..];
    assert!(table.ends_with('\n'));
    let rows: Vec<Row> = table.lines().map(|l| parse_row(l, k)).collect();
    // One line per Eb/N0
    let ebn0s = expected_ebn0s(c);
    assert_eq!(
        rows.iter().map(|r| r.ebn0.clone()).collect::<Vec<_>>(),
        ebn0s
    );
    rows
}

fn check_case(dir: &Dir, alist: &Path, c: &Case) {
    let out = dir.path("results.txt");
    let out_ldpc = dir.path("results_ldpc.txt");
    let _ = fs::remove_file(&out);
    let _ = fs::remove_file(&out_ldpc);
    // Stale contents are replaced
    fs::write(&out, "stale\n".repeat(1000)).unwrap();
    let ret = run_ber(alist, c, Some(&out), c.ldpc_file.then_some(&*out_ldpc));
    assert!(ret.status.success(), "{c:?}: {ret:?}");
    assert!(ret.stderr.is_empty(), "{c:?}: {ret:?}");
    let stdout = String::from_utf8(ret.stdout).unwrap();
    // The details are what comes first in stdout, up to an empty line
    let details = &stdout[..stdout.find("\n\n").unwrap() + 2];
    let n_cw = 60;
    let k = 30;
    let frame = match c.puncturing {
        Some(p) => n_cw / p.split(',').count() * p.matches('1').count(),
        None => n_cw,
    };
    let mut want = format!(
        "BER TEST PARAMETERS\n\
         -------------------\n\
         Simulation:\n \
         - Minimum Eb/N0: {:.2} dB\n \
         - Maximum Eb/N0: {:.2} dB\n \
         - Eb/N0 step: {:.2} dB\n \
         - Number of frame errors: {}\n\
         Channel:\n \
         - Modulation: BPSK\n\
         LDPC code:\n \
         - alist: {}\n",
        c.min,
        c.max,
        c.step,
        c.frame_errors,
        alist.display()
    );
    if let Some(p) = c.puncturing {
        want.push_str(&format!(" - Puncturing pattern: {p}\n"));
    }
    want.push_str(&format!(
        " - Information bits (k): {k}\n \
         - Codeword size (N_cw): {n_cw}\n \
         - Frame size (N): {frame}\n \
         - Code rate: {:.3}\n\
         LDPC decoder:\n \
         - Implementation: Phif64\n \
         - Maximum iterations: 100\n",
        k as f64 / frame as f64
    ));
    if c.bch > 0 {
        want.push_str(&format!(
            "BCH decoder:\n - Maximum bit errors correctable: {}\n",
            c.bch
        ));
    }
    want.push('\n');
    assert_eq!(details, want);

    let contents = fs::read_to_string(&out).unwrap();
    let title = (c.bch > 0).then_some("LDPC+BCH results");
    let rows = check_file(&contents, details, title, c, k);
    for r in &rows {
        // The simulation of an Eb/N0 stops with the requested frame errors
        assert_eq!(r.frame_errors, c.frame_errors, "{}", r.line);
        // The line has also been shown in stdout
        assert!(stdout.contains(&format!("{}\n", r.line)), "{}", r.line);
    }
    // The header is shown in stdout too
    assert!(stdout.contains(HEADER));

    if c.bch > 0 && c.ldpc_file {
        let contents = fs::read_to_string(&out_ldpc).unwrap();
        let rows_ldpc = check_file(&contents, details, Some("LDPC-only results"), c, k);
        assert_eq!(rows.len(), rows_ldpc.len());
        for (r, l) in rows.iter().zip(&rows_ldpc) {
            assert_eq!(r.frames, l.frames);
            assert_eq!(r.false_decodes, l.false_decodes);
            // BCH only removes errors
            assert!(l.frame_errors >= r.frame_errors);
            assert!(l.bit_errors >= r.bit_errors);
            // the frames that BCH corrects have at most c.bch errors each
            assert!(l.bit_errors - r.bit_errors <= c.bch * (l.frame_errors - r.frame_errors));
            // Columns that do not depend on the code
            let a: Vec<&str> = r.line.split(" | ").collect();
            let b: Vec<&str> = l.line.split(" | ").collect();
            for j in [0, 1, 4, 7, 9, 10] {
                assert_eq!(a[j], b[j]);
            }
        }
    } else {
        // The LDPC-only file is only for BCH
        assert!(!out_ldpc.exists());
    }
}

#[test]
fn result_files() {
    let dir = Dir::new("results");
    let alist = dir.alist();
    let ranges = [
        // (min, max, step, number of Eb/N0's)
        (0.0, 2.05, 0.1, 21),
        (-1.0, 1.05, 0.5, 5),
        (-1.5, 0.5, 0.5, 5),
        (1.0, 1.0, 0.25, 1),
        (0.5, 0.74, 0.25, 1),
        (0.5, 0.75, 0.25, 2),
        (-2.0, 2.0, 1.0, 5),
        (0.25, 3.0, 1.5, 2),
        (0.0, 1.0, 5.0, 1),
        // maximum below the minimum: only the minimum
        (1.0, 0.0, 0.5, 1),
        (2.0, -3.0, 1.0, 1),
        // downwards
        (2.0, 0.0, -0.5, 5),
        (1.0, -1.2, -1.0, 3),
        // rounding in the display
        (0.125, 0.5, 0.125, 4),
        (1.004, 1.1, 0.033, 3),
        (-0.004, 0.0, 0.002, 3),
    ];
    for (j, &(min, max, step, num)) in ranges.iter().enumerate() {
        let c = Case {
            min,
            max,
            step,
            frame_errors: [3, 10, 1][j % 3],
            bch: [0, 2, 0, 1][j % 4],
            puncturing: [None, Some("1,1,1,0"), Some("1,1"), Some("1,0,1,1,1")][j % 4],
            ldpc_file: j % 2 == 1 || j % 8 == 0,
        };
        assert_eq!(expected_ebn0s(&c).len(), num, "{c:?}");
        check_case(&dir, &alist, &c);
    }
    // Other combinations of BCH, puncturing and files
    for bch in [0, 1, 3] {
        for puncturing in [None, Some("1"), Some("1,1,0"), Some("0,1,1,1,1,1")] {
            for ldpc_file in [false, true] {
                let c = Case {
                    min: -0.5,
                    max: 0.6,
                    step: 0.5,
                    frame_errors: 4,
                    bch,
                    puncturing,
                    ldpc_file,
                };
                check_case(&dir, &alist, &c);
            }
        }
    }
}

#[test]
fn long_run_with_progress_updates() {
    // Each Eb/N0 takes long enough for several progress reports to be sent;
    // they are not results, and they only appear in the terminal
    let dir = Dir::new("long");
    let alist = dir.alist();
    for (bch, ldpc_file) in [(0, false), (2, true)] {
        let c = Case {
            min: -2.0,
            max: -1.0,
            step: 0.5,
            frame_errors: 5000,
            bch,
            puncturing: Some("1,1,1,0"),
            ldpc_file,
        };
        check_case(&dir, &alist, &c);
    }
}

#[test]
fn without_result_files() {
    let dir = Dir::new("nofiles");
    let alist = dir.alist();
    let c = Case {
        min: 0.0,
        max: 1.0,
        step: 0.5,
        frame_errors: 5,
        bch: 0,
        puncturing: None,
        ldpc_file: false,
    };
    let ret = run_ber(&alist, &c, None, None);
    assert!(ret.status.success());
    let stdout = String::from_utf8(ret.stdout).unwrap();
    assert!(stdout.starts_with("BER TEST PARAMETERS\n"));
    assert!(stdout.contains(HEADER));
    for e in expected_ebn0s(&c) {
        let final_line = stdout
            .lines()
            .filter(|l| l.starts_with(&format!("{e} | ")))
            .last()
            .unwrap();
        let row = parse_row(final_line, 30);
        assert_eq!(row.frame_errors, 5);
    }
    // Only the LDPC-only file, which is not written without BCH
    let out_ldpc = dir.path("ldpc.txt");
    let ret = run_ber(&alist, &c, None, Some(&out_ldpc));
    assert!(ret.status.success());
    assert!(!out_ldpc.exists());
    // ... and is written with BCH
    let c = Case { bch: 1, ..c };
    let ret = run_ber(&alist, &c, None, Some(&out_ldpc));
    assert!(ret.status.success());
    let stdout = String::from_utf8(ret.stdout).unwrap();
    let details = &stdout[..stdout.find("\n\n").unwrap() + 2];
    let contents = fs::read_to_string(&out_ldpc).unwrap();
    check_file(&contents, details, Some("LDPC-only results"), &c, 30);
}

fn assert_clean_failure(ret: &Output, what: &str) {
    assert!(!ret.status.success(), "{what}: should fail");
    let code = ret.status.code().expect("killed by a signal");
    assert_ne!(code, 101, "{what}: panicked: {ret:?}");
    let stderr = String::from_utf8_lossy(&ret.stderr);
    assert!(!stderr.trim().is_empty(), "{what}: no message");
    assert!(!stderr.contains("panicked"), "{what}: {stderr}");
}

#[test]
fn errors() {
    let dir = Dir::new("errors");
    let alist = dir.alist();
    let out = dir.path("out.txt");
    let c = Case {
        min: 0.0,
        max: 0.0,
        step: 1.0,
        frame_errors: 2,
        bch: 0,
        puncturing: None,
        ldpc_file: false,
    };
    for p in ["", "2", "1,,1", "1,1,", "a,b", "1 ,0"] {
        let c = Case {
            puncturing: Some(p),
            ..c
        };
        let ret = run_ber(&alist, &c, Some(&out), None);
        assert_clean_failure(&ret, &format!("pattern {p:?}"));
        assert_eq!(
            String::from_utf8_lossy(&ret.stderr).trim_end(),
            "invalid puncturing pattern"
        );
        // Found before creating the file
        assert!(!out.exists());
    }
    let ret = run_ber(&dir.path("missing.alist"), &c, Some(&out), None);
    assert_clean_failure(&ret, "missing alist");
    assert!(!out.exists());
    fs::write(dir.path("bad.alist"), "60 30\n3 x\n").unwrap();
    let ret = run_ber(&dir.path("bad.alist"), &c, Some(&out), None);
    assert_clean_failure(&ret, "bad alist");
    assert!(!out.exists());
    let ret = run_ber(&alist, &c, Some(&dir.path("nodir/out.txt")), None);
    assert_clean_failure(&ret, "output file in missing directory");
    let c_bch = Case { bch: 1, ..c };
    let ret = run_ber(&alist, &c_bch, Some(&out), Some(&dir.path("nodir/out.txt")));
    assert_clean_failure(&ret, "LDPC output file in missing directory");
    // Pattern length that does not divide the codeword size
    let c_bad = Case {
        puncturing: Some("1,1,1,1,1,1,0"),
        ..c
    };
    let ret = run_ber(&alist, &c_bad, None, None);
    assert_clean_failure(&ret, "pattern of length 7");
    if Path::new("/dev/full").exists() {
        let ret = run_ber(&alist, &c, Some(Path::new("/dev/full")), None);
        assert_clean_failure(&ret, "/dev/full");
        let ret = run_ber(&alist, &c_bch, Some(&out), Some(Path::new("/dev/full")));
        assert_clean_failure(&ret, "/dev/full for LDPC");
        // not used without BCH
        let ret = run_ber(&alist, &c, Some(&out), Some(Path::new("/dev/full")));
        assert!(ret.status.success());
    }
}
