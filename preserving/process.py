#!/usr/bin/env python3
"""process.py <PID> <round> [check ids...]: property-PRESERVING changes written by sub-agents
(/tmp/agents/<PID>-<round>/<i>/): confirm (suite passes with the patch, the demonstration passes with and
without it), run the registered quick checks against it in /repo (apply, run, revert) — they must stay quiet —
and keep it under /verif/preserving/."""
import sys, os, json, subprocess, shutil, re
pid, rnd = sys.argv[1], sys.argv[2]
checks = sys.argv[3:] or [pid]
src = f'/tmp/agents/{pid}-{rnd}'
for i in sorted(os.listdir(src)):
    d = f'{src}/{i}'
    if not os.path.isfile(f'{d}/patch.diff'):
        continue
    name = f'{pid}-{rnd}-{i}'
    conf = subprocess.run(['/verif/seeded/confirm.sh', d], capture_output=True, text=True).stdout.strip().splitlines()[-1:]
    conf = conf[0] if conf else 'CONFIRM_FAILED'
    ok = conf == 'SUITE_WITH_PATCH=pass DEMO_WITH_PATCH=pass DEMO_WITHOUT_PATCH=pass'
    print(name, conf, flush=True)
    det = {}
    out = subprocess.run(['/verif/sensitivity/try.sh', f'{d}/patch.diff'] + checks, capture_output=True, text=True).stdout
    for line in out.splitlines():
        m = re.match(r'\S+ (\S+) exit=(\d+) ?(.*)', line)
        if m:
            det[m.group(1)] = {'exit': int(m.group(2)), 'detail': m.group(3)[:400]}
    print('   ', json.dumps(det), flush=True)
    dst = f'/verif/preserving/{name}'
    os.makedirs(dst, exist_ok=True)
    for f in os.listdir(d):
        if os.path.isfile(f'{d}/{f}'):
            shutil.copy(f'{d}/{f}', dst)
    meta = {}
    try:
        meta = json.load(open(f'{d}/meta.json'))
    except Exception:
        pass
    meta['confirmed'] = {'how': 'seeded/confirm.sh: existing suite passes with the patch; the demonstration passes with and without it', 'result': conf}
    meta['checks_run'] = det
    meta['quiet'] = all(v['exit'] == 0 for v in det.values())
    json.dump(meta, open(f'{dst}/meta.json', 'w'), indent=1)
