// ---------------------------------------------------------------------------
// Shared support code (test-local pseudorandom generator, fingerprints,
// reference graph algorithms, property checkers, timeouts).
// ---------------------------------------------------------------------------

use ldpc_toolbox::mackay_neal::{self, FillPolicy};
use ldpc_toolbox::peg;
use ldpc_toolbox::sparse::{Node, SparseMatrix};
use std::collections::VecDeque;
use std::sync::mpsc;
use std::time::Duration;

/// Runs `f` in its own thread and fails the test if it does not finish in time.
fn with_timeout<F: FnOnce() + Send + 'static>(secs: u64, f: F) {
    let (tx, rx) = mpsc::channel();
    let handle = std::thread::spawn(move || {
        f();
        let _ = tx.send(());
    });
    match rx.recv_timeout(Duration::from_secs(secs)) {
        Ok(()) => handle.join().unwrap(),
        Err(mpsc::RecvTimeoutError::Disconnected) => {
            // the closure panicked: propagate the panic
            if let Err(e) = handle.join() {
                std::panic::resume_unwind(e);
            }
            panic!("worker disappeared");
        }
        Err(mpsc::RecvTimeoutError::Timeout) => panic!("timed out after {secs} s"),
    }
}

/// Small deterministic generator for test inputs (splitmix64).
struct TestRng(u64);

impl TestRng {
    fn next(&mut self) -> u64 {
        self.0 = self.0.wrapping_add(0x9e3779b97f4a7c15);
        let mut z = self.0;
        z = (z ^ (z >> 30)).wrapping_mul(0xbf58476d1ce4e5b9);
        z = (z ^ (z >> 27)).wrapping_mul(0x94d049bb133111eb);
        z ^ (z >> 31)
    }
    fn below(&mut self, n: usize) -> usize {
        (self.next() % (n as u64)) as usize
    }
}

struct Fnv(u64);

impl Fnv {
    fn new() -> Fnv {
        Fnv(0xcbf29ce484222325)
    }
    fn byte(&mut self, b: u8) {
        self.0 ^= b as u64;
        self.0 = self.0.wrapping_mul(0x100000001b3);
    }
    fn bytes(&mut self, b: &[u8]) {
        for &x in b {
            self.byte(x);
        }
    }
    fn num(&mut self, n: u64) {
        self.bytes(&n.to_le_bytes());
    }
}

/// Fingerprint of a matrix: alist text plus the stored order of each column
/// and row.
fn fingerprint(h: &SparseMatrix) -> u64 {
    let mut f = Fnv::new();
    f.bytes(h.alist().as_bytes());
    for c in 0..h.num_cols() {
        f.num(u64::MAX);
        for &r in h.iter_col(c) {
            f.num(r as u64);
        }
    }
    for r in 0..h.num_rows() {
        f.num(u64::MAX - 1);
        for &c in h.iter_row(r) {
            f.num(c as u64);
        }
    }
    f.0
}

fn neighbours(h: &SparseMatrix, node: Node) -> Vec<Node> {
    match node {
        Node::Row(r) => h.iter_row(r).map(|&c| Node::Col(c)).collect(),
        Node::Col(c) => h.iter_col(c).map(|&r| Node::Row(r)).collect(),
    }
}

fn flat(h: &SparseMatrix, node: Node) -> usize {
    match node {
        Node::Row(r) => r,
        Node::Col(c) => h.num_rows() + c,
    }
}

/// Plain textbook breadth-first search.
fn ref_bfs(h: &SparseMatrix, root: Node) -> (Vec<Option<usize>>, Vec<Option<usize>>) {
    let n = h.num_rows() + h.num_cols();
    let mut dist: Vec<Option<usize>> = vec![None; n];
    let mut queue = VecDeque::new();
    dist[flat(h, root)] = Some(0);
    queue.push_back(root);
    while let Some(u) = queue.pop_front() {
        let d = dist[flat(h, u)].unwrap();
        for v in neighbours(h, u) {
            let slot = &mut dist[flat(h, v)];
            if slot.is_none() {
                *slot = Some(d + 1);
                queue.push_back(v);
            }
        }
    }
    let cols = dist.split_off(h.num_rows());
    (dist, cols)
}

/// Local girth with a maximum, written as a queue of (node, parent, length)
/// path heads: the first time a path head reaches an already visited node, a
/// closed walk through the root has been found.
fn ref_local_girth(h: &SparseMatrix, root: Node, max: usize) -> Option<usize> {
    let n = h.num_rows() + h.num_cols();
    let mut dist: Vec<Option<usize>> = vec![None; n];
    let mut queue: VecDeque<(Node, Option<Node>, usize)> = VecDeque::new();
    dist[flat(h, root)] = Some(0);
    queue.push_back((root, None, 0));
    while let Some((u, parent, len)) = queue.pop_front() {
        for v in neighbours(h, u) {
            if Some(v) == parent {
                continue;
            }
            let slot = &mut dist[flat(h, v)];
            if let Some(d) = *slot {
                let total = d + len + 1;
                return if total <= max { Some(total) } else { None };
            }
            *slot = Some(len + 1);
            if len + 1 < max {
                queue.push_back((v, Some(u), len + 1));
            }
        }
    }
    None
}

/// Girth by the standard algorithm: from every node, a full breadth-first
/// search; every non-tree edge (u, v) closes a walk of length
/// dist(u) + dist(v) + 1; the minimum over everything is the girth.
fn true_girth(h: &SparseMatrix) -> Option<usize> {
    let n = h.num_rows() + h.num_cols();
    let mut best: Option<usize> = None;
    let all_nodes = (0..h.num_rows())
        .map(Node::Row)
        .chain((0..h.num_cols()).map(Node::Col));
    for root in all_nodes {
        let mut dist: Vec<Option<usize>> = vec![None; n];
        let mut parent: Vec<Option<Node>> = vec![None; n];
        let mut queue = VecDeque::new();
        dist[flat(h, root)] = Some(0);
        queue.push_back(root);
        while let Some(u) = queue.pop_front() {
            let du = dist[flat(h, u)].unwrap();
            for v in neighbours(h, u) {
                if parent[flat(h, u)] == Some(v) {
                    continue;
                }
                match dist[flat(h, v)] {
                    None => {
                        dist[flat(h, v)] = Some(du + 1);
                        parent[flat(h, v)] = Some(u);
                        queue.push_back(v);
                    }
                    Some(dv) => {
                        let len = du + dv + 1;
                        if best.is_none_or(|b| len < b) {
                            best = Some(len);
                        }
                    }
                }
            }
        }
    }
    best
}

fn random_matrix(rng: &mut TestRng, nrows: usize, ncols: usize, ones: usize) -> SparseMatrix {
    let mut h = SparseMatrix::new(nrows, ncols);
    if nrows > 0 && ncols > 0 {
        for _ in 0..ones {
            h.insert(rng.below(nrows), rng.below(ncols));
        }
    }
    h
}

fn mn_config(
    nrows: usize,
    ncols: usize,
    wr: usize,
    wc: usize,
    backtrack: (usize, usize),
    girth: (Option<usize>, usize),
    fill_policy: FillPolicy,
) -> mackay_neal::Config {
    mackay_neal::Config {
        nrows,
        ncols,
        wr,
        wc,
        backtrack_cols: backtrack.0,
        backtrack_trials: backtrack.1,
        min_girth: girth.0,
        girth_trials: girth.1,
        fill_policy,
    }
}

/// Checks everything the property promises about one MacKay-Neal run and
/// returns a fingerprint of the outcome.
fn check_mackay_neal(conf: &mackay_neal::Config, seed: u64) -> u64 {
    let outcome = conf.run(seed);
    let again = conf.run(seed);
    assert_eq!(outcome, again, "not reproducible: {conf:?} seed {seed}");
    match outcome {
        Ok(h) => {
            assert_eq!(h.num_rows(), conf.nrows);
            assert_eq!(h.num_cols(), conf.ncols);
            for c in 0..conf.ncols {
                assert_eq!(h.col_weight(c), conf.wc, "{conf:?} seed {seed} col {c}");
                // the column really has wc distinct rows
                let mut rows: Vec<usize> = h.iter_col(c).copied().collect();
                rows.sort_unstable();
                rows.dedup();
                assert_eq!(rows.len(), conf.wc);
                for &r in &rows {
                    assert!(h.contains(r, c));
                    assert!(h.iter_row(r).any(|&x| x == c));
                }
            }
            let weights: Vec<usize> = (0..conf.nrows).map(|r| h.row_weight(r)).collect();
            for &w in &weights {
                assert!(w <= conf.wr, "{conf:?} seed {seed} row weight {w}");
            }
            assert_eq!(weights.iter().sum::<usize>(), conf.wc * conf.ncols);
            if let Some(g) = conf.min_girth {
                if let Some(actual) = true_girth(&h) {
                    assert!(actual >= g, "{conf:?} seed {seed}: girth {actual} < {g}");
                }
                assert_eq!(h.girth_with_max(g.saturating_sub(1)), None);
            } else if conf.fill_policy == FillPolicy::Uniform && conf.nrows > 0 {
                let lo = weights.iter().min().unwrap();
                let hi = weights.iter().max().unwrap();
                assert!(hi - lo <= 1, "{conf:?} seed {seed}: weights {weights:?}");
            }
            assert_eq!(h.alist(), again.unwrap().alist());
            fingerprint(&h)
        }
        Err(e) => {
            assert!(
                e == mackay_neal::Error::NoMoreBacktrack || e == mackay_neal::Error::NoMoreTrials,
                "{conf:?} seed {seed}: unexpected error {e:?}"
            );
            assert!(!e.to_string().is_empty());
            match e {
                mackay_neal::Error::NoMoreBacktrack => 1,
                _ => 2,
            }
        }
    }
}

/// Checks the seed search against running every seed of the range.
fn check_search(conf: &mackay_neal::Config, start: u64, tries: u64) -> u64 {
    let found = conf.search(start, tries);
    match found {
        Some((seed, h)) => {
            assert!(seed >= start && seed < start + tries, "seed {seed} out of range");
            let direct = conf.run(seed).expect("search returned a failing seed");
            assert_eq!(h, direct);
            assert_eq!(h.alist(), direct.alist());
            assert_eq!(fingerprint(&h), fingerprint(&direct));
            1
        }
        None => {
            for s in start..start + tries {
                assert!(conf.run(s).is_err(), "search missed good seed {s}: {conf:?}");
            }
            0
        }
    }
}

/// Replays a PEG result edge by edge (columns in order, rows of each column in
/// stored order) and checks that every edge obeyed the selection rule on the
/// graph that existed when it was placed. Returns a fingerprint.
fn check_peg(conf: &peg::Config, seed: u64) -> u64 {
    let outcome = conf.run(seed);
    assert_eq!(outcome, conf.run(seed), "not reproducible: {conf:?} seed {seed}");
    match outcome {
        Ok(h) => {
            assert_eq!(h.num_rows(), conf.nrows);
            assert_eq!(h.num_cols(), conf.ncols);
            let expected_weight = conf.wc.min(conf.nrows);
            let mut g = SparseMatrix::new(conf.nrows, conf.ncols);
            for c in 0..conf.ncols {
                assert_eq!(h.col_weight(c), expected_weight, "{conf:?} seed {seed} col {c}");
                for &r in h.iter_col(c) {
                    let (row_dist, _) = ref_bfs(&g, Node::Col(c));
                    assert_eq!(g.bfs(Node::Col(c)).row_nodes_distance, row_dist);
                    // candidates: unreachable checks, or else the farthest ones
                    let unreachable: Vec<usize> =
                        (0..conf.nrows).filter(|&j| row_dist[j].is_none()).collect();
                    let candidates = if !unreachable.is_empty() {
                        unreachable
                    } else {
                        let far = row_dist.iter().map(|d| d.unwrap()).max().unwrap();
                        (0..conf.nrows)
                            .filter(|&j| row_dist[j] == Some(far))
                            .collect()
                    };
                    let least = candidates.iter().map(|&j| g.row_weight(j)).min().unwrap();
                    assert!(
                        candidates.contains(&r) && g.row_weight(r) == least,
                        "{conf:?} seed {seed}: edge ({r}, {c}) breaks the selection rule"
                    );
                    assert!(!g.contains(r, c));
                    g.insert(r, c);
                }
            }
            assert_eq!(g, h);
            fingerprint(&h)
        }
        Err(e) => {
            assert_eq!(e, peg::Error::NoAvailRows);
            // only possible when there is no check node to connect to
            assert!(conf.nrows == 0 && conf.wc > 0 && conf.ncols > 0);
            assert!(!e.to_string().is_empty());
            3
        }
    }
}

/// A spread of MacKay-Neal configurations: both policies, with and without
/// girth constraint, with and without backtracking, degenerate sizes.
fn mn_configs() -> Vec<mackay_neal::Config> {
    use FillPolicy::{Random, Uniform};
    let mut v = Vec::new();
    for &policy in &[Random, Uniform] {
        v.push(mn_config(4, 8, 4, 2, (0, 0), (None, 0), policy));
        v.push(mn_config(6, 12, 6, 3, (2, 5), (None, 0), policy));
        v.push(mn_config(10, 20, 6, 3, (1, 3), (None, 0), policy));
        v.push(mn_config(10, 20, 7, 3, (3, 10), (Some(4), 0), policy));
        v.push(mn_config(12, 24, 6, 3, (2, 20), (Some(6), 50), policy));
        v.push(mn_config(30, 60, 7, 3, (4, 40), (Some(6), 300), policy));
        v.push(mn_config(30, 45, 3, 2, (3, 30), (Some(8), 300), policy));
        v.push(mn_config(40, 60, 3, 2, (3, 30), (Some(10), 500), policy));
        v.push(mn_config(45, 60, 6, 4, (0, 0), (Some(6), 400), policy));
        v.push(mn_config(25, 50, 6, 3, (2, 10), (Some(6), 150), policy));
        v.push(mn_config(9, 30, 10, 3, (5, 8), (None, 0), policy));
        v.push(mn_config(7, 15, 5, 2, (1, 1), (Some(1), 0), policy));
        v.push(mn_config(7, 15, 5, 2, (1, 1), (Some(2), 0), policy));
        v.push(mn_config(7, 15, 5, 2, (1, 1), (Some(5), 3), policy));
        // all rows needed for each column
        v.push(mn_config(3, 5, 5, 3, (0, 0), (None, 0), policy));
        v.push(mn_config(3, 5, 5, 3, (0, 0), (Some(4), 10), policy));
        // impossible: not enough room
        v.push(mn_config(3, 5, 2, 2, (2, 4), (None, 0), policy));
        v.push(mn_config(2, 4, 4, 3, (1, 2), (None, 0), policy));
        // degenerate
        v.push(mn_config(0, 0, 0, 0, (0, 0), (None, 0), policy));
        v.push(mn_config(5, 0, 3, 2, (0, 0), (Some(6), 0), policy));
        v.push(mn_config(0, 4, 3, 0, (0, 0), (None, 0), policy));
        v.push(mn_config(0, 4, 3, 1, (1, 1), (None, 0), policy));
        v.push(mn_config(5, 7, 3, 0, (0, 0), (Some(4), 0), policy));
        v.push(mn_config(5, 7, 0, 1, (2, 2), (None, 0), policy));
        v.push(mn_config(1, 6, 6, 1, (0, 0), (Some(100), 0), policy));
        v.push(mn_config(50, 100, 8, 3, (0, 0), (None, 0), policy));
        v.push(mn_config(24, 48, 6, 3, (0, 0), (None, 0), policy));
    }
    v
}

fn peg_configs() -> Vec<peg::Config> {
    let c = |nrows, ncols, wc| peg::Config { nrows, ncols, wc };
    vec![
        c(4, 8, 2),
        c(6, 12, 3),
        c(10, 20, 3),
        c(15, 30, 4),
        c(20, 25, 2),
        c(3, 6, 3),
        c(3, 6, 5),
        c(1, 4, 2),
        c(5, 1, 5),
        c(0, 0, 0),
        c(0, 3, 0),
        c(0, 3, 2),
        c(4, 0, 2),
        c(6, 9, 0),
        c(12, 12, 6),
    ]
}
// Demonstration for the rewrite of the graph searches behind the
// pseudorandom constructions (SparseMatrix::bfs, girth_at_node_with_max,
// girth_with_max). Everything is checked against reference algorithms written
// here and against fingerprints of the results the constructions gave before
// the rewrite.

const GOLDEN_MN: u64 = 0x295fad2bcf9f671e;
const GOLDEN_PEG: u64 = 0x1db4d3a82d98332b;
const GOLDEN_GIRTHS: u64 = 0xc52c229590483483;

const MAXES: [usize; 14] = [0, 1, 2, 3, 4, 5, 6, 7, 8, 9, 10, 12, 1000, usize::MAX];

fn all_nodes(h: &SparseMatrix) -> Vec<Node> {
    (0..h.num_rows())
        .map(Node::Row)
        .chain((0..h.num_cols()).map(Node::Col))
        .collect()
}

/// Compares every search the matrix offers with the reference algorithms and
/// folds the values into `f`.
fn compare_searches(h: &SparseMatrix, f: &mut Fnv) {
    let mut local_min: Option<usize> = None;
    for node in all_nodes(h) {
        let (rows, cols) = ref_bfs(h, node);
        let r = h.bfs(node);
        assert_eq!(r.row_nodes_distance, rows, "bfs rows from {node:?}\n{}", h.alist());
        assert_eq!(r.col_nodes_distance, cols, "bfs cols from {node:?}\n{}", h.alist());
        for &max in &MAXES {
            let expected = ref_local_girth(h, node, max);
            assert_eq!(
                h.girth_at_node_with_max(node, max),
                expected,
                "local girth at {node:?} max {max}\n{}",
                h.alist()
            );
            f.num(expected.map_or(0, |x| x as u64 + 1));
        }
        let unbounded = ref_local_girth(h, node, usize::MAX);
        assert_eq!(h.girth_at_node(node), unbounded);
        if let (Node::Col(_), Some(g)) = (node, unbounded) {
            if local_min.is_none_or(|m| g < m) {
                local_min = Some(g);
            }
        }
    }
    let girth = true_girth(h);
    assert_eq!(h.girth(), girth, "girth\n{}", h.alist());
    assert_eq!(local_min, girth);
    for &max in &MAXES {
        let expected = girth.filter(|&g| g <= max);
        assert_eq!(h.girth_with_max(max), expected, "girth max {max}\n{}", h.alist());
    }
    f.num(girth.map_or(0, |x| x as u64 + 1));
}

#[test]
fn searches_match_reference_on_random_matrices() {
    with_timeout(600, || {
        let mut rng = TestRng(2024);
        let mut f = Fnv::new();
        // sizes are deliberately shuffled between large and small so that any
        // working memory kept between searches is reused across sizes
        let shapes: [(usize, usize); 14] = [
            (0, 0),
            (30, 40),
            (1, 1),
            (0, 5),
            (12, 7),
            (5, 0),
            (25, 25),
            (2, 2),
            (3, 9),
            (40, 10),
            (1, 12),
            (6, 6),
            (17, 33),
            (4, 4),
        ];
        for round in 0..6 {
            for &(nrows, ncols) in &shapes {
                let cells = nrows * ncols;
                let ones = match round {
                    0 => 0,
                    1 => (nrows + ncols) / 2,
                    2 => nrows + ncols,
                    3 => (3 * (nrows + ncols)) / 2,
                    4 => 3 * (nrows + ncols),
                    _ => cells,
                };
                let h = random_matrix(&mut rng, nrows, ncols, ones);
                compare_searches(&h, &mut f);
            }
        }
        assert_eq!(f.0, GOLDEN_GIRTHS, "fingerprint of girths is {:#x}", f.0);
    });
}

#[test]
fn searches_on_structured_graphs() {
    with_timeout(600, || {
        let mut f = Fnv::new();
        // single cycles of every length, embedded in a larger empty matrix
        for k in 2..12 {
            let mut h = SparseMatrix::new(k + 3, k + 2);
            for j in 0..k {
                h.insert(j, j);
                h.insert(j, (j + 1) % k);
            }
            assert_eq!(h.girth(), Some(2 * k));
            for j in 0..k {
                for max in 0..2 * k {
                    assert_eq!(h.girth_at_node_with_max(Node::Col(j), max), None);
                    assert_eq!(h.girth_at_node_with_max(Node::Row(j), max), None);
                }
                assert_eq!(h.girth_at_node_with_max(Node::Col(j), 2 * k), Some(2 * k));
                assert_eq!(h.girth_at_node_with_max(Node::Row(j), 2 * k + 1), Some(2 * k));
            }
            assert_eq!(h.girth_with_max(2 * k - 1), None);
            assert_eq!(h.girth_with_max(2 * k), Some(2 * k));
            compare_searches(&h, &mut f);
            // a pendant path hanging from the cycle: nodes on the path see the
            // cycle only as a closed walk
            h.insert(k, 0);
            h.insert(k, k);
            h.insert(k + 1, k);
            h.insert(k + 1, k + 1);
            compare_searches(&h, &mut f);
        }
        // paths and stars (trees): no cycles at all
        let mut path = SparseMatrix::new(10, 10);
        for j in 0..10 {
            path.insert(j, j);
            if j > 0 {
                path.insert(j, j - 1);
            }
        }
        assert_eq!(path.girth(), None);
        compare_searches(&path, &mut f);
        let mut star = SparseMatrix::new(1, 9);
        for j in 0..9 {
            star.insert(0, j);
        }
        assert_eq!(star.girth(), None);
        compare_searches(&star, &mut f);
        // complete bipartite graphs
        for (n, m) in [(1, 1), (2, 2), (2, 5), (5, 2), (6, 7)] {
            let mut h = SparseMatrix::new(n, m);
            for i in 0..n {
                for j in 0..m {
                    h.insert(i, j);
                }
            }
            let expected = if n >= 2 && m >= 2 { Some(4) } else { None };
            assert_eq!(h.girth(), expected);
            compare_searches(&h, &mut f);
        }
        // two components with different girths, plus two cycles sharing a node
        let mut h = SparseMatrix::new(20, 20);
        for j in 0..5 {
            h.insert(j, j);
            h.insert(j, (j + 1) % 5);
        }
        for j in 0..3 {
            h.insert(5 + j, 5 + j);
            h.insert(5 + j, 5 + (j + 1) % 3);
        }
        assert_eq!(h.girth(), Some(6));
        assert_eq!(h.girth_with_max(5), None);
        assert_eq!(h.girth_at_node_with_max(Node::Col(0), 100), Some(10));
        assert_eq!(h.girth_at_node_with_max(Node::Col(0), 9), None);
        compare_searches(&h, &mut f);
        h.insert(10, 0);
        h.insert(10, 11);
        h.insert(11, 11);
        h.insert(11, 0);
        assert_eq!(h.girth(), Some(4));
        compare_searches(&h, &mut f);
    });
}

#[test]
fn searches_from_many_threads_with_mixed_sizes() {
    with_timeout(600, || {
        let mut rng = TestRng(77);
        let mut matrices = Vec::new();
        for j in 0..24 {
            let (nrows, ncols) = if j % 2 == 0 { (60, 90) } else { (3 + j % 5, 4 + j % 7) };
            let ones = (nrows + ncols) * (1 + j % 3);
            matrices.push(random_matrix(&mut rng, nrows, ncols, ones));
        }
        let matrices = std::sync::Arc::new(matrices);
        let workers: Vec<_> = (0..6)
            .map(|w| {
                let matrices = matrices.clone();
                std::thread::spawn(move || {
                    for round in 0..3 {
                        for (j, h) in matrices.iter().enumerate() {
                            if (j + w + round) % 3 == 0 {
                                continue;
                            }
                            for node in all_nodes(h) {
                                for max in [3, 4, 6, 8, usize::MAX] {
                                    assert_eq!(
                                        h.girth_at_node_with_max(node, max),
                                        ref_local_girth(h, node, max)
                                    );
                                }
                            }
                            assert_eq!(h.girth(), true_girth(h));
                        }
                    }
                })
            })
            .collect();
        for w in workers {
            w.join().unwrap();
        }
    });
}

#[test]
fn nodes_outside_the_graph_are_rejected() {
    with_timeout(60, || {
        let mut h = SparseMatrix::new(3, 5);
        h.insert(0, 0);
        h.insert(1, 4);
        let bad = [Node::Row(3), Node::Row(4), Node::Row(7), Node::Row(100), Node::Col(5), Node::Col(8)];
        for node in bad {
            let r = std::panic::catch_unwind(|| h.bfs(node));
            assert!(r.is_err(), "bfs accepted {node:?}");
            let r = std::panic::catch_unwind(|| h.girth_at_node_with_max(node, 10));
            assert!(r.is_err(), "girth accepted {node:?}");
            // and the failed searches leave nothing behind
            assert_eq!(h.girth(), None);
            assert_eq!(h.bfs(Node::Col(4)).row_nodes_distance, vec![None, Some(1), None]);
        }
    });
}

#[test]
fn mackay_neal_honours_configuration() {
    with_timeout(900, || {
        let mut f = Fnv::new();
        for conf in mn_configs() {
            let mut distinct = std::collections::HashSet::new();
            for seed in 0..24u64 {
                let seed = seed * 0x1234567 + 3;
                let fp = check_mackay_neal(&conf, seed);
                f.num(fp);
                distinct.insert(fp);
            }
            if conf.nrows == 50 {
                assert!(distinct.len() > 6, "seeds do not explore different choices");
            }
        }
        assert_eq!(f.0, GOLDEN_MN, "fingerprint of MacKay-Neal results is {:#x}", f.0);
    });
}

#[test]
fn mackay_neal_seed_search() {
    with_timeout(900, || {
        let mut found = 0;
        let mut total = 0;
        for conf in mn_configs() {
            for (start, tries) in [(0u64, 0u64), (5, 1), (100, 7), (u64::MAX - 9, 9)] {
                found += check_search(&conf, start, tries);
                total += 1;
            }
        }
        assert!(found > 0 && found < total);
    });
}

#[test]
fn peg_follows_selection_rule() {
    with_timeout(900, || {
        let mut f = Fnv::new();
        for conf in peg_configs() {
            let mut distinct = std::collections::HashSet::new();
            for seed in 0..12u64 {
                let fp = check_peg(&conf, seed * 977 + 1);
                f.num(fp);
                distinct.insert(fp);
            }
            if conf.nrows == 15 {
                assert!(distinct.len() > 4, "seeds do not explore different choices");
            }
        }
        assert_eq!(f.0, GOLDEN_PEG, "fingerprint of PEG results is {:#x}", f.0);
    });
}
