//! Demo test for the table-driven rewrite of the 8PSK modulator and
//! demodulator. Passes with and without the change.

use ldpc_toolbox::simulation::channel::{AwgnChannel, Channel};
use ldpc_toolbox::simulation::modulation::{
    BpskDemodulator, BpskModulator, Demodulator, Modulator, Psk8Demodulator, Psk8Modulator,
};
use ndarray::{Array1, s};
use num_complex::Complex;
use std::panic::{AssertUnwindSafe, catch_unwind};

fn gf2(bit: u8) -> GF2 {
    if bit == 1 { GF2::one() } else { GF2::zero() }
}

// DVB-S2 8PSK constellation: bits (b0, b1, b2) -> point
fn reference_point(b0: u8, b1: u8, b2: u8) -> Complex<f64> {
    let a = 0.5f64.sqrt();
    match (b0, b1, b2) {
        (0, 0, 0) => Complex::new(a, a),
        (1, 0, 0) => Complex::new(0.0, 1.0),
        (1, 1, 0) => Complex::new(-a, a),
        (0, 1, 0) => Complex::new(-1.0, 0.0),
        (0, 1, 1) => Complex::new(-a, -a),
        (1, 1, 1) => Complex::new(0.0, -1.0),
        (1, 0, 1) => Complex::new(a, -a),
        (0, 0, 1) => Complex::new(1.0, 0.0),
        _ => unreachable!(),
    }
}

fn maxstar(a: f64, b: f64) -> f64 {
    a.max(b) + (-((a - b).abs())).exp().ln_1p()
}

// Exact LLRs log(P(b = 0 | y) / P(b = 1 | y)) for the three bits of a symbol,
// computed with max-* over the points in lexicographic label order.
fn reference_llrs(symbol: Complex<f64>, noise_sigma: f64) -> [f64; 3] {
    let y = symbol * (1.0 / (noise_sigma * noise_sigma));
    let mut llrs = [0.0; 3];
    for bit in 0..3 {
        let mut acc: [Option<f64>; 2] = [None, None];
        for label in 0..8u8 {
            let b = [(label >> 2) & 1, (label >> 1) & 1, label & 1];
            let p = reference_point(b[0], b[1], b[2]);
            let metric = y.re * p.re + y.im * p.im;
            let slot = &mut acc[usize::from(b[bit])];
            *slot = Some(match *slot {
                None => metric,
                Some(m) => maxstar(m, metric),
            });
        }
        llrs[bit] = acc[0].unwrap() - acc[1].unwrap();
    }
    llrs
}

fn xorshift(state: &mut u64) -> u64 {
    *state ^= *state << 13;
    *state ^= *state >> 7;
    *state ^= *state << 17;
    *state
}

fn uniform(state: &mut u64) -> f64 {
    (xorshift(state) >> 11) as f64 / (1u64 << 53) as f64
}

#[test]
fn psk8_modulator_constellation() {
    let modulator = Psk8Modulator::new();
    // every triple of bits, alone
    for label in 0..8u8 {
        let (b0, b1, b2) = ((label >> 2) & 1, (label >> 1) & 1, label & 1);
        let symbols = modulator.modulate(&Array1::from_vec(vec![gf2(b0), gf2(b1), gf2(b2)]));
        assert_eq!(symbols, vec![reference_point(b0, b1, b2)]);
        assert!((symbols[0].norm() - 1.0).abs() < 1e-15);
    }
    // Gray mapping: adjacent points differ in exactly one bit
    let label_at_angle = |j: usize| {
        let angle = std::f64::consts::FRAC_PI_4 * j as f64;
        (0..8u8)
            .find(|&label| {
                let p = reference_point((label >> 2) & 1, (label >> 1) & 1, label & 1);
                (p - Complex::from_polar(1.0, angle)).norm() < 1e-12
            })
            .unwrap()
    };
    for j in 0..8 {
        assert_eq!((label_at_angle(j) ^ label_at_angle((j + 1) % 8)).count_ones(), 1);
    }
    // empty codeword
    assert!(modulator.modulate(&Array1::<GF2>::from_vec(vec![])).is_empty());
    // long pseudo-random codewords, contiguous and as a strided view
    let mut state = 0x9e3779b97f4a7c15u64;
    for num_symbols in [1usize, 2, 5, 64, 333] {
        let bits: Vec<u8> = (0..3 * num_symbols)
            .map(|_| (xorshift(&mut state) & 1) as u8)
            .collect();
        let expected: Vec<Complex<f64>> = bits
            .chunks(3)
            .map(|b| reference_point(b[0], b[1], b[2]))
            .collect();
        let cw = Array1::from_iter(bits.iter().map(|&b| gf2(b)));
        assert_eq!(modulator.modulate(&cw), expected);
        let spaced = Array1::from_iter(
            bits.iter()
                .flat_map(|&b| [gf2(b), gf2(1 - b)]),
        );
        assert_eq!(modulator.modulate(&spaced.slice(s![..;2])), expected);
    }
    // lengths that are not a multiple of 3 are rejected
    for len in [1usize, 2, 4, 5, 7, 100] {
        let cw = Array1::from_elem(len, GF2::one());
        assert!(catch_unwind(AssertUnwindSafe(|| modulator.modulate(&cw))).is_err());
    }
}

#[test]
fn psk8_demodulator_matches_exact_formula() {
    let mut state = 0x1234567887654321u64;
    for noise_sigma in [0.01, 0.1, 0.35, 1.0, 3.0] {
        let demodulator = Psk8Demodulator::from_noise_sigma(noise_sigma);
        let mut symbols = Vec::new();
        // the constellation points, the origin, and random points
        for label in 0..8u8 {
            symbols.push(reference_point((label >> 2) & 1, (label >> 1) & 1, label & 1));
        }
        symbols.push(Complex::new(0.0, 0.0));
        for _ in 0..500 {
            symbols.push(Complex::new(
                4.0 * uniform(&mut state) - 2.0,
                4.0 * uniform(&mut state) - 2.0,
            ));
        }
        let llrs = demodulator.demodulate(&symbols);
        assert_eq!(llrs.len(), 3 * symbols.len());
        for (j, &symbol) in symbols.iter().enumerate() {
            let expected = reference_llrs(symbol, noise_sigma);
            for bit in 0..3 {
                let got = llrs[3 * j + bit];
                let tol = 1e-9 * expected[bit].abs().max(1.0);
                assert!(
                    (got - expected[bit]).abs() <= tol,
                    "sigma {noise_sigma} symbol {symbol} bit {bit}: {got} vs {}",
                    expected[bit]
                );
            }
        }
        // one symbol at a time gives the same as all at once
        for (j, &symbol) in symbols.iter().enumerate().take(40) {
            assert_eq!(demodulator.demodulate(&[symbol]), llrs[3 * j..3 * j + 3]);
        }
        assert!(demodulator.demodulate(&[]).is_empty());
    }
}

#[test]
fn psk8_modulate_demodulate_signs_and_symmetry() {
    let modulator = Psk8Modulator::new();
    let mut state = 0xfeedfacecafebeefu64;
    for noise_sigma in [0.05, 0.2, 0.5] {
        let demodulator = Psk8Demodulator::new(noise_sigma);
        let bits: Vec<u8> = (0..3 * 200).map(|_| (xorshift(&mut state) & 1) as u8).collect();
        let cw = Array1::from_iter(bits.iter().map(|&b| gf2(b)));
        let symbols = modulator.modulate(&cw);
        let llrs = demodulator.demodulate(&symbols);
        assert_eq!(llrs.len(), bits.len());
        for (&b, &l) in bits.iter().zip(llrs.iter()) {
            // positive LLR means 0
            assert_eq!(u8::from(l < 0.0), b);
            let normalized = l.abs() * noise_sigma * noise_sigma;
            assert!(normalized > 0.25 && normalized < 1.4, "{normalized}");
        }
        // small perturbations do not change the decisions
        let perturbed: Vec<Complex<f64>> = symbols
            .iter()
            .map(|&x| x + Complex::new(0.3 * uniform(&mut state) - 0.15, 0.3 * uniform(&mut state) - 0.15))
            .collect();
        let llrs = demodulator.demodulate(&perturbed);
        for (&b, &l) in bits.iter().zip(llrs.iter()) {
            assert_eq!(u8::from(l < 0.0), b);
        }
        // The constellation is symmetric with respect to the line at angle
        // 3 pi / 8 (between the points 000 and 100), and the symmetry flips b0
        // in every label, so a symbol on this line has a zero LLR for b0. Both
        // neighbouring points have b1 = 0 and b2 = 0.
        let boundary = Complex::from_polar(1.0, 3.0 * std::f64::consts::FRAC_PI_8);
        let l = demodulator.demodulate(&[boundary]);
        assert!(l[0].abs() * noise_sigma * noise_sigma < 1e-9, "{l:?}");
        assert!(l[1] > 0.0 && l[2] > 0.0, "{l:?}");
    }
}

#[test]
fn bpsk_modulation_and_scaling() {
    let modulator = BpskModulator::new();
    let bits = [1u8, 0, 0, 1, 1, 1, 0];
    let cw = Array1::from_iter(bits.iter().map(|&b| gf2(b)));
    let symbols = modulator.modulate(&cw);
    assert_eq!(symbols, [1.0, -1.0, -1.0, 1.0, 1.0, 1.0, -1.0]);
    for noise_sigma in [0.1, 0.5, 2.0] {
        let demodulator = BpskDemodulator::from_noise_sigma(noise_sigma);
        let llrs = demodulator.demodulate(&symbols);
        for (&b, &l) in bits.iter().zip(llrs.iter()) {
            let expected = if b == 1 { -2.0 } else { 2.0 } / (noise_sigma * noise_sigma);
            assert!((l - expected).abs() < 1e-9 * expected.abs());
        }
    }
}

#[test]
fn psk8_noise_through_channel_and_demodulator() {
    // With a real noisy channel at high SNR the decisions are still right and
    // the complex noise has the right variance in each component.
    let noise_sigma = 0.05;
    let channel = AwgnChannel::new(noise_sigma);
    let modulator = Psk8Modulator::new();
    let demodulator = Psk8Demodulator::new(noise_sigma);
    let mut state = 0x0123456789abcdefu64;
    let bits: Vec<u8> = (0..3 * 4000).map(|_| (xorshift(&mut state) & 1) as u8).collect();
    let cw = Array1::from_iter(bits.iter().map(|&b| gf2(b)));
    let clean = modulator.modulate(&cw);
    let mut noisy = clean.clone();
    channel.add_noise(&mut rand::rng(), &mut noisy);
    let (mut re2, mut im2, mut cross) = (0.0, 0.0, 0.0);
    for (a, b) in clean.iter().zip(noisy.iter()) {
        let d = b - a;
        re2 += d.re * d.re;
        im2 += d.im * d.im;
        cross += d.re * d.im;
    }
    let count = clean.len() as f64;
    let sigma2 = noise_sigma * noise_sigma;
    assert!((re2 / count / sigma2 - 1.0).abs() < 0.15);
    assert!((im2 / count / sigma2 - 1.0).abs() < 0.15);
    assert!((cross / count / sigma2).abs() < 0.1);
    let llrs = demodulator.demodulate(&noisy);
    for (&b, &l) in bits.iter().zip(llrs.iter()) {
        assert_eq!(u8::from(l < 0.0), b);
    }
}

#[test]
fn ber_chain_8psk_and_bpsk() {
    let h = make_h(12, 12, true);
    let patterns: [Option<&[bool]>; 4] = [
        None,
        Some(&[true, true, true, false]),
        Some(&[true, false, true, true, false, true, true, true]),
        Some(&[true, true, false, true, true, true, true, false, false, true, true, true]),
    ];
    for pattern in patterns {
        let n = transmitted_mask(24, pattern).iter().filter(|&&b| b).count();
        assert_eq!(n % 3, 0);
        for interleaving in [None, Some(3), Some(-3)] {
            check_noiseless_chain(&h, Modulation::Psk8, pattern, interleaving);
        }
        check_noiseless_chain(&h, Modulation::Bpsk, pattern, None);
    }
    let h = make_h(6, 9, false);
    check_noiseless_chain(&h, Modulation::Psk8, None, Some(-3));
    check_noiseless_chain(&h, Modulation::Psk8, Some(&[true, true, true, true, false]), Some(3));
}
// ---------------------------------------------------------------------------
// Common harness: runs a BER test through the public API with a decoder
// factory that records every LLR vector handed to the decoder.
// ---------------------------------------------------------------------------

use ldpc_toolbox::decoder::factory::DecoderFactory;
use ldpc_toolbox::decoder::{DecoderOutput, LdpcDecoder};
use ldpc_toolbox::encoder::Encoder;
use ldpc_toolbox::gf2::GF2;
use ldpc_toolbox::simulation::factory::{BerTestBuilder, Modulation};
use ldpc_toolbox::sparse::SparseMatrix;
use num_traits::{One, Zero};
use std::sync::{Arc, Mutex};

#[derive(Debug, Clone)]
struct CaptureFactory {
    frames: Arc<Mutex<Vec<Vec<f64>>>>,
}

impl std::fmt::Display for CaptureFactory {
    fn fmt(&self, f: &mut std::fmt::Formatter<'_>) -> std::fmt::Result {
        write!(f, "capture")
    }
}

impl DecoderFactory for CaptureFactory {
    fn build_decoder(&self, _h: SparseMatrix) -> Box<dyn LdpcDecoder> {
        Box::new(CaptureDecoder {
            frames: Arc::clone(&self.frames),
        })
    }
}

#[derive(Debug)]
struct CaptureDecoder {
    frames: Arc<Mutex<Vec<Vec<f64>>>>,
}

impl LdpcDecoder for CaptureDecoder {
    fn decode(
        &mut self,
        llrs: &[f64],
        max_iterations: usize,
    ) -> Result<DecoderOutput, DecoderOutput> {
        self.frames.lock().unwrap().push(llrs.to_vec());
        // Return the complement of the hard decision, so that every frame is a
        // frame error and the BER test terminates quickly.
        let codeword = llrs.iter().map(|&l| u8::from(l >= 0.0)).collect();
        Err(DecoderOutput {
            codeword,
            iterations: max_iterations,
        })
    }
}

/// Parity check matrix [A | T] with `m` rows and `k + m` columns. A is a fixed
/// pseudo-random matrix with column weight 3 and T is either a staircase
/// (dual-diagonal) matrix or a lower triangular matrix with some extra
/// entries (which forces the dense encoder).
fn make_h(k: usize, m: usize, staircase: bool) -> SparseMatrix {
    let mut h = SparseMatrix::new(m, k + m);
    let mut state = 0x2545f491u32;
    let mut next = || {
        state ^= state << 13;
        state ^= state >> 17;
        state ^= state << 5;
        state as usize
    };
    for col in 0..k {
        let mut placed = 0;
        while placed < 3.min(m) {
            let row = next() % m;
            if !h.contains(row, col) {
                h.insert(row, col);
                placed += 1;
            }
        }
    }
    for j in 0..m {
        h.insert(j, k + j);
        if j > 0 {
            h.insert(j, k + j - 1);
        }
        if !staircase && j >= 3 && j % 2 == 1 {
            h.insert(j, k + j - 3);
        }
    }
    h
}

struct ChainResult {
    frames: Vec<Vec<f64>>,
    n: usize,
    n_cw: usize,
    k: usize,
    rate: f64,
    num_frames: u64,
    error: Option<String>,
}

fn run_chain(
    h: &SparseMatrix,
    modulation: Modulation,
    pattern: Option<&[bool]>,
    interleaving: Option<isize>,
    ebn0_db: f32,
    max_frame_errors: u64,
) -> ChainResult {
    let frames = Arc::new(Mutex::new(Vec::new()));
    let ebn0s = [ebn0_db];
    let test = BerTestBuilder {
        h: h.clone(),
        decoder_implementation: CaptureFactory {
            frames: Arc::clone(&frames),
        },
        modulation,
        puncturing_pattern: pattern,
        interleaving_columns: interleaving,
        max_frame_errors,
        max_iterations: 7,
        ebn0s_db: &ebn0s,
        reporter: None,
        bch_max_errors: 0,
    }
    .build()
    .expect("building the BER test failed");
    let (n, n_cw, k, rate) = (test.n(), test.n_cw(), test.k(), test.rate());
    let (num_frames, error) = match test.run() {
        Ok(stats) => {
            assert_eq!(stats.len(), 1);
            assert_eq!(stats[0].ebn0_db, ebn0_db);
            // the decoder gets wrong every information bit that was not
            // punctured, so (nearly) every frame is a frame error
            assert!(stats[0].ldpc.frame_errors >= max_frame_errors);
            assert!(stats[0].ldpc.frame_errors <= stats[0].num_frames);
            assert!(stats[0].ldpc.bit_errors >= stats[0].ldpc.frame_errors);
            assert!(stats[0].ldpc.bit_errors <= stats[0].num_frames * k as u64);
            assert_eq!(stats[0].total_iterations, stats[0].num_frames * 7);
            assert_eq!(stats[0].false_decodes, 0);
            assert!(stats[0].num_frames >= max_frame_errors);
            (stats[0].num_frames, None)
        }
        Err(e) => (0, Some(e.to_string())),
    };
    let frames = std::mem::take(&mut *frames.lock().unwrap());
    ChainResult {
        frames,
        n,
        n_cw,
        k,
        rate,
        num_frames,
        error,
    }
}

/// Expands a block puncturing pattern to a per-bit "transmitted" mask.
fn transmitted_mask(n_cw: usize, pattern: Option<&[bool]>) -> Vec<bool> {
    match pattern {
        None => vec![true; n_cw],
        Some(p) => {
            assert_eq!(n_cw % p.len(), 0);
            let block = n_cw / p.len();
            (0..n_cw).map(|j| p[j / block]).collect()
        }
    }
}

fn bits_per_symbol(modulation: Modulation) -> f64 {
    match modulation {
        Modulation::Bpsk => 1.0,
        Modulation::Psk8 => 3.0,
    }
}

/// Checks everything that the BER chain promises about the frames given to
/// the decoder in a (nearly) noiseless run.
fn check_noiseless_chain(
    h: &SparseMatrix,
    modulation: Modulation,
    pattern: Option<&[bool]>,
    interleaving: Option<isize>,
) {
    let ebn0_db = 40.0f32;
    let what = format!("{modulation} pattern {pattern:?} interleaving {interleaving:?}");
    let res = run_chain(h, modulation, pattern, interleaving, ebn0_db, 12);
    assert_eq!(res.error, None, "{what}");
    let n_cw = h.num_cols();
    let k = h.num_cols() - h.num_rows();
    let mask = transmitted_mask(n_cw, pattern);
    let n = mask.iter().filter(|&&b| b).count();
    assert_eq!(res.n_cw, n_cw, "{what}");
    assert_eq!(res.k, k, "{what}");
    assert_eq!(res.n, n, "{what}");
    assert!((res.rate - k as f64 / n as f64).abs() < 1e-12, "{what}");
    assert!(res.frames.len() as u64 >= res.num_frames, "{what}");
    assert!(res.frames.len() >= 12, "{what}");

    let ebn0 = 10.0_f64.powf(0.1 * f64::from(ebn0_db));
    let esn0 = (k as f64 / n as f64) * bits_per_symbol(modulation) * ebn0;
    let sigma2 = 0.5 / esn0;
    let encoder = Encoder::from_h(h).unwrap();
    let systematic_transmitted = mask[..k].iter().all(|&b| b);
    let mut distinct = std::collections::HashSet::new();

    for llrs in &res.frames {
        assert_eq!(llrs.len(), n_cw, "{what}");
        for (j, &l) in llrs.iter().enumerate() {
            if mask[j] {
                assert!(l.is_finite() && l != 0.0, "{what}: position {j} llr {l}");
                let normalized = l.abs() * sigma2;
                match modulation {
                    Modulation::Bpsk => {
                        assert!((normalized - 2.0).abs() < 0.2, "{what}: scale {normalized}")
                    }
                    Modulation::Psk8 => {
                        assert!(normalized > 0.2 && normalized < 1.2, "{what}: scale {normalized}")
                    }
                }
            } else {
                assert!(l == 0.0, "{what}: punctured position {j} has llr {l}");
            }
        }
        let hard: Vec<u8> = llrs.iter().map(|&l| u8::from(l < 0.0)).collect();
        // parity checks that do not involve punctured bits must be satisfied
        for row in 0..h.num_rows() {
            if h.iter_row(row).all(|&c| mask[c]) {
                let parity = h.iter_row(row).fold(0, |acc, &c| acc ^ hard[c]);
                assert_eq!(parity, 0, "{what}: parity check {row} fails for {hard:?}");
            }
        }
        if systematic_transmitted {
            let message = ndarray::Array1::from_iter(hard[..k].iter().map(|&b| {
                if b == 1 { GF2::one() } else { GF2::zero() }
            }));
            let codeword = encoder.encode(&message);
            for j in 0..n_cw {
                if mask[j] {
                    assert_eq!(
                        hard[j],
                        u8::from(codeword[j].is_one()),
                        "{what}: position {j} is not the bit of the systematic codeword"
                    );
                }
            }
        }
        distinct.insert(hard);
    }
    // the messages are random: for k >= 6 and >= 12 frames they cannot all coincide
    assert!(distinct.len() > 1, "{what}: all the frames carry the same codeword");
}
