// Demonstration for property C12: "The BER chain hands the decoder correctly
// ordered, correctly scaled LLRs".
//
// A spying DecoderFactory records every LLR vector the BER simulation hands to
// the decoder. From the recorded frames the test checks, for BPSK and 8PSK,
// with and without puncturing and interleaving (forwards and backwards):
//
//  * every frame has codeword length and exactly-zero LLRs at the punctured
//    positions (and non-zero, finite LLRs elsewhere);
//  * the signs of the LLRs, in codeword bit order, are those of a systematic
//    codeword (re-encoding the systematic part of the staircase code gives
//    the same bits; every parity check not touching a punctured bit holds);
//  * the channel noise recovered from the LLRs (exactly for BPSK, by inverting
//    the 8PSK demodulator numerically for 8PSK) has zero mean, per-dimension
//    variance 1/(2 R m Eb/N0) with R counted after puncturing and m the bits
//    per symbol, Gaussian 4th moment and tail fractions, no correlation
//    between neighbouring samples, between real and imaginary parts, between
//    frames of a worker and between workers (lags -1, 0, 1);
//  * messages are unbiased, have no stuck positions and never repeat;
//  * n, n_cw, k and rate reported by the simulator are consistent;
//  * lists with several (also repeated) Eb/N0 values use the right noise level
//    in every frame; empty lists and failing configurations behave.
//
// All statistical tolerances are at 6 standard deviations or more, so the test
// passes with overwhelming probability for any correct implementation.

use ldpc_toolbox::{
    decoder::{DecoderOutput, LdpcDecoder, factory::DecoderFactory},
    simulation::{
        ber::{Report, Reporter, Statistics},
        factory::{BerTestBuilder, Modulation},
        modulation::{Demodulator, Psk8Demodulator},
    },
    sparse::SparseMatrix,
};
use std::{
    sync::{
        Arc, Mutex,
        atomic::{AtomicUsize, Ordering},
        mpsc,
    },
    time::Duration,
};

const TIMEOUT: Duration = Duration::from_secs(300);

// The complex type of the 8PSK channel (num_complex::Complex), named
// through the public API only.
type Complex = <Psk8Demodulator as Demodulator>::T;

#[derive(Debug, Clone)]
struct Frame {
    decoder: usize,
    llrs: Vec<f64>,
}

#[derive(Debug, Clone)]
struct Spy {
    log: Arc<Mutex<Vec<Frame>>>,
    next_id: Arc<AtomicUsize>,
}

impl Spy {
    fn new() -> Spy {
        Spy {
            log: Arc::new(Mutex::new(Vec::new())),
            next_id: Arc::new(AtomicUsize::new(0)),
        }
    }
}

impl std::fmt::Display for Spy {
    fn fmt(&self, f: &mut std::fmt::Formatter<'_>) -> std::fmt::Result {
        write!(f, "spy")
    }
}

#[derive(Debug)]
struct SpyDecoder {
    id: usize,
    log: Arc<Mutex<Vec<Frame>>>,
}

impl DecoderFactory for Spy {
    fn build_decoder(&self, _h: SparseMatrix) -> Box<dyn LdpcDecoder> {
        Box::new(SpyDecoder {
            id: self.next_id.fetch_add(1, Ordering::SeqCst),
            log: Arc::clone(&self.log),
        })
    }
}

impl LdpcDecoder for SpyDecoder {
    fn decode(
        &mut self,
        llrs: &[f64],
        _max_iterations: usize,
    ) -> Result<DecoderOutput, DecoderOutput> {
        self.log.lock().unwrap().push(Frame {
            decoder: self.id,
            llrs: llrs.to_vec(),
        });
        // The inverted hard decision: every frame is a frame error, so the
        // simulation of each Eb/N0 ends after max_frame_errors frames.
        let codeword = llrs.iter().map(|&l| u8::from(l >= 0.0)).collect();
        Err(DecoderOutput {
            codeword,
            iterations: 1,
        })
    }
}

// Deterministic pseudo-random staircase (IRA) parity check matrix.
fn make_h(m: usize, n_cw: usize, seed: u64) -> SparseMatrix {
    let k = n_cw - m;
    let mut h = SparseMatrix::new(m, n_cw);
    let mut state = seed.wrapping_mul(0x9E37_79B9_7F4A_7C15) | 1;
    let mut next = move || {
        state ^= state << 13;
        state ^= state >> 7;
        state ^= state << 17;
        state
    };
    for r in 0..m {
        let mut cols = Vec::new();
        while cols.len() < 3.min(k) {
            let c = (next() % k as u64) as usize;
            if !cols.contains(&c) {
                cols.push(c);
            }
        }
        for c in cols {
            h.insert(r, c);
        }
        h.insert(r, k + r);
        if r > 0 {
            h.insert(r, k + r - 1);
        }
    }
    // every information column is used at least once
    for c in 0..k {
        if h.col_weight(c) == 0 {
            h.insert(c % m, c);
        }
    }
    h
}

// Systematic encoder of the staircase code defined by make_h: the parity bits
// are the running sums of the information part of each row.
fn encode_staircase(h: &SparseMatrix, message: &[u8]) -> Vec<u8> {
    let m = h.num_rows();
    let k = h.num_cols() - m;
    assert_eq!(message.len(), k);
    let mut cw = message.to_vec();
    let mut acc = 0u8;
    for r in 0..m {
        acc ^= h
            .iter_row(r)
            .filter(|&&c| c < k)
            .fold(0u8, |a, &c| a ^ message[c]);
        cw.push(acc);
    }
    cw
}

#[derive(Debug, Clone)]
struct Config {
    name: &'static str,
    m: usize,
    n_cw: usize,
    modulation: Modulation,
    puncturing: Option<Vec<bool>>,
    interleaving: Option<isize>,
    ebn0s_db: Vec<f32>,
    max_frame_errors: u64,
    bch_max_errors: u64,
}

struct Outcome {
    result: Result<Vec<Statistics>, String>,
    frames: Vec<Frame>,
    reports: Vec<Report>,
    n: usize,
    n_cw: usize,
    k: usize,
    rate: f64,
    decoders_built: usize,
}

fn run_config(cfg: &Config) -> Outcome {
    let (done_tx, done_rx) = mpsc::channel();
    let cfg2 = cfg.clone();
    std::thread::spawn(move || {
        let cfg = cfg2;
        let h = make_h(cfg.m, cfg.n_cw, 12345 + cfg.n_cw as u64);
        let spy = Spy::new();
        let (report_tx, report_rx) = mpsc::channel();
        let test = BerTestBuilder {
            h,
            decoder_implementation: spy.clone(),
            modulation: cfg.modulation,
            puncturing_pattern: cfg.puncturing.as_deref(),
            interleaving_columns: cfg.interleaving,
            max_frame_errors: cfg.max_frame_errors,
            max_iterations: 10,
            ebn0s_db: &cfg.ebn0s_db,
            reporter: Some(Reporter {
                tx: report_tx,
                interval: Duration::from_millis(50),
            }),
            bch_max_errors: cfg.bch_max_errors,
        }
        .build()
        .expect("building the BER test");
        let (n, n_cw, k, rate) = (test.n(), test.n_cw(), test.k(), test.rate());
        let result = test.run().map_err(|e| e.to_string());
        let reports: Vec<Report> = report_rx.try_iter().collect();
        // let straggling workers (if any) finish their frame
        std::thread::sleep(Duration::from_millis(50));
        let frames = spy.log.lock().unwrap().clone();
        let _ = done_tx.send(Outcome {
            result,
            frames,
            reports,
            n,
            n_cw,
            k,
            rate,
            decoders_built: spy.next_id.load(Ordering::SeqCst),
        });
    });
    match done_rx.recv_timeout(TIMEOUT) {
        Ok(outcome) => outcome,
        Err(_) => panic!("config {}: the BER test did not finish in time", cfg.name),
    }
}

fn punctured_mask(cfg: &Config) -> Vec<bool> {
    // true = punctured (not transmitted)
    match &cfg.puncturing {
        None => vec![false; cfg.n_cw],
        Some(p) => {
            let block = cfg.n_cw / p.len();
            (0..cfg.n_cw).map(|i| !p[i / block]).collect()
        }
    }
}

fn bits_per_symbol(m: Modulation) -> f64 {
    match m {
        Modulation::Bpsk => 1.0,
        Modulation::Psk8 => 3.0,
    }
}

fn expected_sigma(cfg: &Config, ebn0_db: f32, n: usize) -> f64 {
    let k = cfg.n_cw - cfg.m;
    let rate = k as f64 / n as f64;
    let ebn0 = 10.0_f64.powf(f64::from(ebn0_db) / 10.0);
    (1.0 / (2.0 * rate * bits_per_symbol(cfg.modulation) * ebn0)).sqrt()
}

// transmission order: for each transmitted position, the codeword index
fn transmission_order(cfg: &Config) -> Vec<usize> {
    let mask = punctured_mask(cfg);
    let kept: Vec<usize> = (0..cfg.n_cw).filter(|&i| !mask[i]).collect();
    match cfg.interleaving {
        None => kept,
        Some(c) => {
            let cols = c.unsigned_abs();
            let rows = kept.len() / cols;
            let mut out = Vec::with_capacity(kept.len());
            // the codeword is written column-wise into a rows x cols matrix
            // and read row-wise (each row backwards if c < 0).
            for r in 0..rows {
                for j in 0..cols {
                    let col = if c < 0 { cols - 1 - j } else { j };
                    out.push(kept[col * rows + r]);
                }
            }
            out
        }
    }
}

fn psk8_point(b0: bool, b1: bool, b2: bool) -> Complex {
    let a = 0.5f64.sqrt();
    match (b0, b1, b2) {
        (false, false, false) => Complex::new(a, a),
        (true, false, false) => Complex::new(0.0, 1.0),
        (true, true, false) => Complex::new(-a, a),
        (false, true, false) => Complex::new(-1.0, 0.0),
        (false, true, true) => Complex::new(-a, -a),
        (true, true, true) => Complex::new(0.0, -1.0),
        (true, false, true) => Complex::new(a, -a),
        (false, false, true) => Complex::new(1.0, 0.0),
    }
}

// Finds u with demod_unit(u) = llrs (Gauss-Newton on the 3 equations)
fn invert_psk8(demod: &Psk8Demodulator, llrs: [f64; 3], start: Complex) -> Complex {
    let g = |u: Complex| -> [f64; 3] {
        let v = demod.demodulate(&[u]);
        [v[0], v[1], v[2]]
    };
    let mut u = start;
    for _ in 0..50 {
        let f0 = g(u);
        let r = [llrs[0] - f0[0], llrs[1] - f0[1], llrs[2] - f0[2]];
        let scale = llrs.iter().fold(1.0f64, |a, &b| a.max(b.abs()));
        if r.iter().all(|x| x.abs() < 1e-10 * scale) {
            break;
        }
        let h = 1e-4 * (1.0 + u.norm());
        let fx = g(u + Complex::new(h, 0.0));
        let fy = g(u + Complex::new(0.0, h));
        let jx = [
            (fx[0] - f0[0]) / h,
            (fx[1] - f0[1]) / h,
            (fx[2] - f0[2]) / h,
        ];
        let jy = [
            (fy[0] - f0[0]) / h,
            (fy[1] - f0[1]) / h,
            (fy[2] - f0[2]) / h,
        ];
        let a11: f64 = jx.iter().map(|x| x * x).sum();
        let a12: f64 = jx.iter().zip(jy.iter()).map(|(x, y)| x * y).sum();
        let a22: f64 = jy.iter().map(|y| y * y).sum();
        let b1: f64 = jx.iter().zip(r.iter()).map(|(x, y)| x * y).sum();
        let b2: f64 = jy.iter().zip(r.iter()).map(|(x, y)| x * y).sum();
        let det = a11 * a22 - a12 * a12;
        assert!(det.abs() > 1e-12, "singular Jacobian");
        u += Complex::new((a22 * b1 - a12 * b2) / det, (a11 * b2 - a12 * b1) / det);
    }
    let f = g(u);
    let scale = llrs.iter().fold(1.0f64, |a, &b| a.max(b.abs()));
    for i in 0..3 {
        assert!(
            (f[i] - llrs[i]).abs() < 1e-6 * scale,
            "the three LLRs of a symbol are not those of any received 8PSK symbol: {llrs:?} vs {f:?}"
        );
    }
    u
}

struct Analysed {
    // per frame: hard decision of the codeword (None at punctured positions)
    messages: Vec<Vec<u8>>,
    // per frame: noise per real dimension, in transmission order (for 8PSK:
    // re0, im0, re1, im1...)
    noise: Vec<Vec<f64>>,
    decoder: Vec<usize>,
}

// Structural checks of every frame + noise recovery, assuming the noise level
// `sigma` (checked afterwards through the statistics of the recovered noise).
fn analyse(cfg: &Config, frames: &[Frame], sigma_of_frame: &dyn Fn(&Frame) -> f64) -> Analysed {
    let k = cfg.n_cw - cfg.m;
    let h = make_h(cfg.m, cfg.n_cw, 12345 + cfg.n_cw as u64);
    let mask = punctured_mask(cfg);
    let order = transmission_order(cfg);
    let systematic_complete = mask[..k].iter().all(|&p| !p);
    let unit_demod = Psk8Demodulator::new(1.0);
    let mut out = Analysed {
        messages: Vec::new(),
        noise: Vec::new(),
        decoder: Vec::new(),
    };
    for (fidx, frame) in frames.iter().enumerate() {
        let llrs = &frame.llrs;
        assert_eq!(
            llrs.len(),
            cfg.n_cw,
            "{}: frame {fidx} does not have codeword length",
            cfg.name
        );
        for (i, &l) in llrs.iter().enumerate() {
            if mask[i] {
                assert!(
                    l == 0.0,
                    "{}: frame {fidx}: punctured position {i} has LLR {l}",
                    cfg.name
                );
            } else {
                assert!(
                    l.is_finite() && l != 0.0,
                    "{}: frame {fidx}: transmitted position {i} has LLR {l}",
                    cfg.name
                );
            }
        }
        let hard: Vec<u8> = llrs.iter().map(|&l| u8::from(l < 0.0)).collect();
        // parity checks that do not involve punctured bits
        for r in 0..cfg.m {
            if h.iter_row(r).all(|&c| !mask[c]) {
                let parity = h.iter_row(r).fold(0u8, |a, &c| a ^ hard[c]);
                assert_eq!(
                    parity, 0,
                    "{}: frame {fidx}: parity check {r} fails: not a codeword in codeword bit order",
                    cfg.name
                );
            }
        }
        if systematic_complete {
            let cw = encode_staircase(&h, &hard[..k]);
            for i in 0..cfg.n_cw {
                if !mask[i] {
                    assert_eq!(
                        cw[i], hard[i],
                        "{}: frame {fidx}: bit {i} is not that of the systematic codeword",
                        cfg.name
                    );
                }
            }
        }
        let sigma = sigma_of_frame(frame);
        let noise = match cfg.modulation {
            Modulation::Bpsk => order
                .iter()
                .map(|&i| {
                    let y = -llrs[i] * sigma * sigma / 2.0;
                    let s = if hard[i] == 1 { 1.0 } else { -1.0 };
                    y - s
                })
                .collect::<Vec<f64>>(),
            Modulation::Psk8 => {
                let mut noise = Vec::with_capacity(2 * order.len() / 3);
                for sym in order.chunks(3) {
                    let l = [llrs[sym[0]], llrs[sym[1]], llrs[sym[2]]];
                    let s = psk8_point(hard[sym[0]] == 1, hard[sym[1]] == 1, hard[sym[2]] == 1);
                    let u = invert_psk8(&unit_demod, l, s / (sigma * sigma));
                    let y = u * (sigma * sigma);
                    noise.push(y.re - s.re);
                    noise.push(y.im - s.im);
                }
                noise
            }
        };
        out.messages.push(hard[..k].to_vec());
        out.noise.push(noise);
        out.decoder.push(frame.decoder);
    }
    out
}

fn z_check(name: &str, what: &str, z: f64) {
    assert!(
        z.abs() < 6.0,
        "{name}: {what}: deviates by {z:.2} standard deviations"
    );
}

fn noise_statistics(cfg: &Config, a: &Analysed, sigma: f64, frame_filter: &dyn Fn(usize) -> bool) {
    let name = cfg.name;
    let complex = cfg.modulation == Modulation::Psk8;
    let mut n = 0.0f64;
    let (mut s1, mut s2, mut s4) = (0.0f64, 0.0f64, 0.0f64);
    let (mut lag1, mut lag1_n) = (0.0f64, 0.0f64);
    let (mut reim, mut reim_n) = (0.0f64, 0.0f64);
    let (mut lag_dim, mut lag_dim_n) = (0.0f64, 0.0f64);
    let mut tails = [0.0f64; 3];
    let (mut neg, mut first_half, mut second_half) = (0.0f64, 0.0f64, 0.0f64);
    for (f, noise) in a.noise.iter().enumerate() {
        if !frame_filter(f) {
            continue;
        }
        for (i, &x) in noise.iter().enumerate() {
            let z = x / sigma;
            n += 1.0;
            s1 += z;
            s2 += z * z;
            s4 += z * z * z * z;
            if z < 0.0 {
                neg += 1.0;
            }
            for (t, thr) in [1.0, 2.0, 3.0].iter().enumerate() {
                if z.abs() > *thr {
                    tails[t] += 1.0;
                }
            }
            if i < noise.len() / 2 {
                first_half += z * z;
            } else {
                second_half += z * z;
            }
            if i + 1 < noise.len() {
                lag1 += z * noise[i + 1] / sigma;
                lag1_n += 1.0;
            }
            if complex && i + 2 < noise.len() {
                // same component of the next symbol
                lag_dim += z * noise[i + 2] / sigma;
                lag_dim_n += 1.0;
            }
            if complex && i % 2 == 0 {
                reim += z * noise[i + 1] / sigma;
                reim_n += 1.0;
            }
        }
    }
    assert!(n > 1e4, "{name}: too few noise samples ({n})");
    z_check(name, "noise mean", s1 / n.sqrt());
    z_check(
        name,
        "noise variance vs requested Eb/N0",
        (s2 / n - 1.0) / (2.0 / n).sqrt(),
    );
    z_check(
        name,
        "noise 4th moment (Gaussianity)",
        (s4 / n - 3.0) / (96.0 / n).sqrt(),
    );
    z_check(name, "noise sign balance", (neg / n - 0.5) / (0.25 / n).sqrt());
    // P(|z| > 1), P(|z| > 2), P(|z| > 3)
    for (t, p) in [0.317_310_507_863, 0.045_500_263_896, 0.002_699_796_063]
        .iter()
        .enumerate()
    {
        z_check(
            name,
            "noise tail fraction (Gaussianity)",
            (tails[t] / n - p) / (p * (1.0 - p) / n).sqrt(),
        );
    }
    z_check(
        name,
        "noise power first half vs second half of the frame",
        (first_half - second_half) / (2.0 * n).sqrt(),
    );
    z_check(
        name,
        "correlation between neighbouring noise samples",
        lag1 / lag1_n.sqrt(),
    );
    if complex {
        z_check(
            name,
            "correlation between real and imaginary noise",
            reim / reim_n.sqrt(),
        );
        z_check(
            name,
            "correlation between the noise of neighbouring symbols",
            lag_dim / lag_dim_n.sqrt(),
        );
    }
}

fn cross_frame_statistics(cfg: &Config, a: &Analysed, sigma: f64) {
    let name = cfg.name;
    // frames of each decoder (= worker), in order
    let max_dec = a.decoder.iter().copied().max().unwrap_or(0);
    let mut per_dec: Vec<Vec<usize>> = vec![Vec::new(); max_dec + 1];
    for (f, &d) in a.decoder.iter().enumerate() {
        per_dec[d].push(f);
    }
    let per_dec: Vec<Vec<usize>> = per_dec.into_iter().filter(|v| !v.is_empty()).collect();
    let corr = |f: usize, g: usize| -> (f64, f64) {
        let s: f64 = a.noise[f]
            .iter()
            .zip(a.noise[g].iter())
            .map(|(x, y)| x * y / (sigma * sigma))
            .sum();
        (s, a.noise[f].len() as f64)
    };
    // within a worker: consecutive frames
    let (mut s, mut n) = (0.0f64, 0.0f64);
    for frames in &per_dec {
        for w in frames.windows(2) {
            let (c, m) = corr(w[0], w[1]);
            s += c;
            n += m;
        }
    }
    if n > 0.0 {
        z_check(
            name,
            "noise correlation between consecutive frames of a worker",
            s / n.sqrt(),
        );
    }
    // between workers, frame lags -1, 0, +1
    for lag in [-1isize, 0, 1] {
        let (mut s, mut n) = (0.0f64, 0.0f64);
        for (ia, fa) in per_dec.iter().enumerate() {
            for fb in per_dec.iter().skip(ia + 1) {
                for (j, &f) in fa.iter().enumerate() {
                    let jb = j as isize + lag;
                    if jb >= 0 && (jb as usize) < fb.len() {
                        let (c, m) = corr(f, fb[jb as usize]);
                        s += c;
                        n += m;
                    }
                }
            }
        }
        if n > 0.0 {
            z_check(
                name,
                "noise correlation between workers",
                s / n.sqrt(),
            );
        }
    }
}

fn message_statistics(cfg: &Config, a: &Analysed) {
    let name = cfg.name;
    let k = cfg.n_cw - cfg.m;
    let mask = punctured_mask(cfg);
    // message positions that can be observed (not punctured)
    let pos: Vec<usize> = (0..k).filter(|&i| !mask[i]).collect();
    let f = a.messages.len();
    assert!(f >= 50);
    let mut ones = 0.0f64;
    let (mut adjacent, mut adjacent_n) = (0.0f64, 0.0f64);
    let mut per_pos = vec![0usize; k];
    let mut per_mod64 = [(0.0f64, 0.0f64); 64];
    for m in &a.messages {
        for &i in &pos {
            ones += f64::from(m[i]);
            per_pos[i] += usize::from(m[i]);
            per_mod64[i % 64].0 += f64::from(m[i]);
            per_mod64[i % 64].1 += 1.0;
            if i + 1 < k && !mask[i + 1] {
                adjacent += if m[i] == m[i + 1] { 1.0 } else { -1.0 };
                adjacent_n += 1.0;
            }
        }
    }
    let total = (pos.len() * f) as f64;
    z_check(
        name,
        "fraction of ones in the messages",
        (ones / total - 0.5) / (0.25 / total).sqrt(),
    );
    if adjacent_n > 0.0 {
        z_check(
            name,
            "correlation between neighbouring message bits",
            adjacent / adjacent_n.sqrt(),
        );
    }
    for (ones, count) in per_mod64 {
        if count > 0.0 {
            z_check(
                name,
                "fraction of ones by bit position modulo 64",
                (ones / count - 0.5) / (0.25 / count).sqrt(),
            );
        }
    }
    for &i in &pos {
        // 7 sigma: there are hundreds of positions
        let c = per_pos[i];
        let z = (c as f64 / f as f64 - 0.5) / (0.25 / f as f64).sqrt();
        assert!(z.abs() < 7.0, "{name}: message bit {i} is biased ({c}/{f})");
    }
    // messages never repeat (neither within a worker nor between workers)
    let mut sorted: Vec<&Vec<u8>> = a.messages.iter().collect();
    sorted.sort();
    for w in sorted.windows(2) {
        assert!(w[0] != w[1], "{name}: a message was used twice");
    }
    // messages of different frames are uncorrelated
    let (mut agree, mut n) = (0.0f64, 0.0f64);
    for (x, y) in a.messages.iter().zip(a.messages.iter().skip(1)) {
        for &i in &pos {
            agree += if x[i] == y[i] { 1.0 } else { -1.0 };
            n += 1.0;
        }
    }
    z_check(
        name,
        "correlation between messages of different frames",
        agree / n.sqrt(),
    );
}

fn check_reported_sizes(cfg: &Config, o: &Outcome) -> usize {
    let mask = punctured_mask(cfg);
    let n = mask.iter().filter(|&&p| !p).count();
    let k = cfg.n_cw - cfg.m;
    assert_eq!(o.n_cw, cfg.n_cw, "{}: n_cw", cfg.name);
    assert_eq!(o.k, k, "{}: k", cfg.name);
    assert_eq!(o.n, n, "{}: n (frame size after puncturing)", cfg.name);
    assert!(
        (o.rate - k as f64 / n as f64).abs() < 1e-12,
        "{}: rate {} is not k/n",
        cfg.name,
        o.rate
    );
    n
}

fn check_statistics_and_reports(cfg: &Config, o: &Outcome) {
    let name = cfg.name;
    let stats = o.result.as_ref().expect("the BER test failed");
    assert_eq!(stats.len(), cfg.ebn0s_db.len(), "{name}: number of statistics");
    for (s, &e) in stats.iter().zip(cfg.ebn0s_db.iter()) {
        assert_eq!(s.ebn0_db, e, "{name}: Eb/N0 of the statistics");
        assert_eq!(s.num_frames, cfg.max_frame_errors, "{name}: num_frames");
        assert_eq!(s.ldpc.frame_errors, cfg.max_frame_errors);
        assert_eq!(s.total_iterations, cfg.max_frame_errors);
        assert_eq!(s.false_decodes, 0);
        assert_eq!(s.bch.is_some(), cfg.bch_max_errors > 0);
        if let Some(bch) = &s.bch {
            assert_eq!(bch.frame_errors, cfg.max_frame_errors);
        }
    }
    assert_eq!(
        o.reports.last(),
        Some(&Report::Finished),
        "{name}: last report"
    );
    assert_eq!(
        o.reports
            .iter()
            .filter(|r| matches!(r, Report::Finished))
            .count(),
        1
    );
    // The Statistics reports with all the frames of an Eb/N0 (the final report
    // of the Eb/N0, possibly preceded by an identical periodic one) follow
    // the Eb/N0 list and carry the returned statistics.
    let mut finals: Vec<&Statistics> = Vec::new();
    for r in &o.reports {
        if let Report::Statistics(s) = r {
            assert!(s.num_frames <= cfg.max_frame_errors);
            if s.num_frames == cfg.max_frame_errors {
                if cfg.max_frame_errors > 1
                    && finals
                        .last()
                        .is_some_and(|l| l.ebn0_db.to_bits() == s.ebn0_db.to_bits())
                {
                    continue;
                }
                finals.push(s);
            }
        }
    }
    if cfg.max_frame_errors > 1 {
        assert_eq!(finals.len(), stats.len(), "{name}: final reports");
        for (f, s) in finals.iter().zip(stats.iter()) {
            assert_eq!(f.ebn0_db, s.ebn0_db);
            assert_eq!(f.num_frames, s.num_frames);
            assert_eq!(f.ldpc.bit_errors, s.ldpc.bit_errors);
            assert_eq!(f.ldpc.frame_errors, s.ldpc.frame_errors);
            assert_eq!(
                f.bch.as_ref().map(|b| (b.bit_errors, b.frame_errors)),
                s.bch.as_ref().map(|b| (b.bit_errors, b.frame_errors))
            );
        }
    } else {
        assert!(finals.len() >= stats.len());
    }
}

fn full_check(cfg: &Config) {
    assert_eq!(cfg.ebn0s_db.len(), 1);
    let o = run_config(cfg);
    let n = check_reported_sizes(cfg, &o);
    check_statistics_and_reports(cfg, &o);
    assert!(
        o.frames.len() as u64 >= cfg.max_frame_errors,
        "{}: fewer frames decoded than counted",
        cfg.name
    );
    let sigma = expected_sigma(cfg, cfg.ebn0s_db[0], n);
    let a = analyse(cfg, &o.frames, &|_| sigma);
    noise_statistics(cfg, &a, sigma, &|_| true);
    cross_frame_statistics(cfg, &a, sigma);
    message_statistics(cfg, &a);
    // the recovered symbols have unit amplitude on average (LLR scaling)
    // (implied by the noise mean check: noise = y - s); every worker took
    // part or at least more than one did, when there are several CPUs
    let mut decs: Vec<usize> = a.decoder.clone();
    decs.sort();
    decs.dedup();
    assert!(!decs.is_empty());
    assert!(o.decoders_built >= decs.len());
}

#[test]
fn bpsk_plain() {
    full_check(&Config {
        name: "bpsk_plain",
        m: 300,
        n_cw: 601,
        modulation: Modulation::Bpsk,
        puncturing: None,
        interleaving: None,
        ebn0s_db: vec![20.0],
        max_frame_errors: 300,
        bch_max_errors: 0,
    });
}

#[test]
fn bpsk_punctured_interleaved() {
    // k = 200: parity partly punctured; 4 of 6 blocks of 100 bits are sent
    full_check(&Config {
        name: "bpsk_punctured_interleaved",
        m: 400,
        n_cw: 600,
        modulation: Modulation::Bpsk,
        puncturing: Some(vec![true, true, false, true, false, true]),
        interleaving: Some(4),
        ebn0s_db: vec![18.5],
        max_frame_errors: 300,
        bch_max_errors: 0,
    });
}

#[test]
fn bpsk_punctured_systematic_backwards() {
    // part of the systematic bits is punctured (as in CCSDS AR4JA the
    // punctured block is not necessarily parity), rows read backwards
    full_check(&Config {
        name: "bpsk_punctured_systematic_backwards",
        m: 200,
        n_cw: 600,
        modulation: Modulation::Bpsk,
        puncturing: Some(vec![true, false, true, true, true]),
        interleaving: Some(-5),
        ebn0s_db: vec![17.25],
        max_frame_errors: 300,
        bch_max_errors: 3,
    });
}

#[test]
fn psk8_plain() {
    full_check(&Config {
        name: "psk8_plain",
        m: 299,
        n_cw: 600,
        modulation: Modulation::Psk8,
        puncturing: None,
        interleaving: None,
        ebn0s_db: vec![23.0],
        max_frame_errors: 150,
        bch_max_errors: 0,
    });
}

#[test]
fn psk8_interleaved_backwards() {
    full_check(&Config {
        name: "psk8_interleaved_backwards",
        m: 299,
        n_cw: 600,
        modulation: Modulation::Psk8,
        puncturing: None,
        interleaving: Some(-3),
        ebn0s_db: vec![22.0],
        max_frame_errors: 150,
        bch_max_errors: 0,
    });
}

#[test]
fn psk8_punctured_interleaved() {
    // 3 of 4 blocks of 150 bits are sent: n = 450
    full_check(&Config {
        name: "psk8_punctured_interleaved",
        m: 299,
        n_cw: 600,
        modulation: Modulation::Psk8,
        puncturing: Some(vec![true, false, true, true]),
        interleaving: Some(3),
        ebn0s_db: vec![21.5],
        max_frame_errors: 150,
        bch_max_errors: 0,
    });
}

#[test]
fn several_ebn0_with_repeats() {
    // Every frame must use the noise level of one of the requested Eb/N0,
    // each of them is used by at least max_frame_errors frames, and the
    // aggregated noise of each level has the right variance.
    let cfg = Config {
        name: "several_ebn0_with_repeats",
        m: 299,
        n_cw: 600,
        modulation: Modulation::Bpsk,
        puncturing: Some(vec![true, true, true, false]),
        interleaving: Some(-2),
        ebn0s_db: vec![20.0, 16.0, 20.0, 18.0, 16.0, 25.5],
        max_frame_errors: 120,
        bch_max_errors: 0,
    };
    let o = run_config(&cfg);
    let n = check_reported_sizes(&cfg, &o);
    check_statistics_and_reports(&cfg, &o);
    let mut levels: Vec<f32> = cfg.ebn0s_db.clone();
    levels.sort_by(|a, b| a.partial_cmp(b).unwrap());
    levels.dedup();
    let sigmas: Vec<f64> = levels.iter().map(|&e| expected_sigma(&cfg, e, n)).collect();
    let mask = punctured_mask(&cfg);
    // classify each frame by the scale of its LLRs: mean |LLR| = 2/sigma^2
    // (up to noise), the levels are at least 2 dB apart
    let classify = |frame: &Frame| -> usize {
        let (mut s, mut c) = (0.0f64, 0.0f64);
        for (i, &l) in frame.llrs.iter().enumerate() {
            if !mask[i] {
                s += l.abs();
                c += 1.0;
            }
        }
        let sigma2 = 2.0 / (s / c);
        let (best, _) = sigmas
            .iter()
            .enumerate()
            .map(|(j, &sg)| (j, (sigma2 / (sg * sg)).ln().abs()))
            .min_by(|a, b| a.1.partial_cmp(&b.1).unwrap())
            .unwrap();
        let ratio = sigma2 / (sigmas[best] * sigmas[best]);
        assert!(
            (ratio - 1.0).abs() < 0.1,
            "a frame has an LLR scale that matches none of the requested Eb/N0 (ratio {ratio})"
        );
        best
    };
    let classes: Vec<usize> = o.frames.iter().map(classify).collect();
    let a = analyse(&cfg, &o.frames, &|f| sigmas[classify(f)]);
    for (j, &level) in levels.iter().enumerate() {
        let times = cfg.ebn0s_db.iter().filter(|&&e| e == level).count() as u64;
        let count = classes.iter().filter(|&&c| c == j).count() as u64;
        assert!(
            count >= times * cfg.max_frame_errors,
            "Eb/N0 {level}: {count} frames, expected at least {}",
            times * cfg.max_frame_errors
        );
        noise_statistics(&cfg, &a, sigmas[j], &|f| classes[f] == j);
    }
    message_statistics(&cfg, &a);
}

#[test]
fn empty_ebn0_list() {
    let cfg = Config {
        name: "empty_ebn0_list",
        m: 299,
        n_cw: 600,
        modulation: Modulation::Psk8,
        puncturing: None,
        interleaving: Some(3),
        ebn0s_db: vec![],
        max_frame_errors: 10,
        bch_max_errors: 0,
    };
    let o = run_config(&cfg);
    check_reported_sizes(&cfg, &o);
    assert_eq!(o.result, Ok(vec![]));
    assert_eq!(o.reports, vec![Report::Finished]);
    assert!(o.frames.is_empty());
}

#[test]
fn tiny_code_and_single_frame_error() {
    // k = 1, n_cw = 3: the smallest frames (one 8PSK symbol, messages of one
    // bit), one frame error per Eb/N0, the same Eb/N0 twice
    let cfg = Config {
        name: "tiny_code",
        m: 2,
        n_cw: 3,
        modulation: Modulation::Psk8,
        puncturing: None,
        interleaving: Some(-1),
        ebn0s_db: vec![24.0, 24.0],
        max_frame_errors: 1,
        bch_max_errors: 0,
    };
    let o = run_config(&cfg);
    let n = check_reported_sizes(&cfg, &o);
    check_statistics_and_reports(&cfg, &o);
    assert!(o.frames.len() >= 2);
    let sigma = expected_sigma(&cfg, 24.0, n);
    let a = analyse(&cfg, &o.frames, &|_| sigma);
    assert_eq!(a.noise.len(), o.frames.len());
    for noise in &a.noise {
        assert_eq!(noise.len(), 2);
        for x in noise {
            assert!(x.abs() < 9.0 * sigma, "noise sample {x} with sigma {sigma}");
        }
    }
}

#[test]
fn failing_configurations_return_errors() {
    // puncturing pattern length does not divide the codeword length
    let cfg = Config {
        name: "bad_puncturing",
        m: 299,
        n_cw: 600,
        modulation: Modulation::Bpsk,
        puncturing: Some(vec![true; 7]),
        interleaving: None,
        ebn0s_db: vec![5.0, 6.0],
        max_frame_errors: 10,
        bch_max_errors: 0,
    };
    let o = run_config(&cfg);
    assert!(o.result.is_err(), "bad puncturing pattern must fail");
    assert_eq!(o.reports.last(), Some(&Report::Finished));
    assert!(o.frames.is_empty());

    // frame length not divisible by the interleaver columns: workers panic
    let cfg = Config {
        name: "bad_interleaver",
        m: 299,
        n_cw: 600,
        modulation: Modulation::Bpsk,
        puncturing: None,
        interleaving: Some(7),
        ebn0s_db: vec![5.0, 6.0],
        max_frame_errors: 10,
        bch_max_errors: 0,
    };
    let o = run_config(&cfg);
    assert!(o.result.is_err(), "bad interleaver must fail");
    assert_eq!(o.reports.last(), Some(&Report::Finished));
    assert!(o.frames.is_empty());

    // 8PSK with a frame length that is not a multiple of 3
    let cfg = Config {
        name: "bad_psk8_length",
        m: 300,
        n_cw: 601,
        modulation: Modulation::Psk8,
        puncturing: None,
        interleaving: None,
        ebn0s_db: vec![5.0],
        max_frame_errors: 10,
        bch_max_errors: 0,
    };
    let o = run_config(&cfg);
    assert!(o.result.is_err(), "8PSK with n % 3 != 0 must fail");
    assert_eq!(o.reports.last(), Some(&Report::Finished));
    assert!(o.frames.is_empty());
}

// Direct checks of the public channel API (it is part of the rewritten code):
// statistics of the noise added by Channel::add_noise to real and complex
// symbols, a zero noise level, and the rejection of invalid noise levels.
#[test]
fn channel_api_noise_statistics() {
    use ldpc_toolbox::rand::{Rng as SeededRng, SeedableRng};
    use ldpc_toolbox::simulation::channel::{AwgnChannel, Channel};

    fn check(name: &str, z: &[f64]) {
        let n = z.len() as f64;
        let m1: f64 = z.iter().sum::<f64>() / n;
        let m2: f64 = z.iter().map(|x| x * x).sum::<f64>() / n;
        let m3: f64 = z.iter().map(|x| x * x * x).sum::<f64>() / n;
        let m4: f64 = z.iter().map(|x| x * x * x * x).sum::<f64>() / n;
        z_check(name, "mean", m1 * n.sqrt());
        z_check(name, "variance", (m2 - 1.0) / (2.0 / n).sqrt());
        z_check(name, "skewness", m3 / (15.0 / n).sqrt());
        z_check(name, "4th moment", (m4 - 3.0) / (96.0 / n).sqrt());
        for (t, p) in [
            (-3.0, 0.001_349_898_031_63),
            (-2.0, 0.022_750_131_948_2),
            (-1.0, 0.158_655_253_931),
            (-0.5, 0.308_537_538_726),
            (0.0, 0.5),
            (0.25, 0.598_706_325_683),
            (1.0, 0.841_344_746_069),
            (1.5, 0.933_192_798_731),
            (2.5, 0.993_790_334_674),
        ] {
            let c = z.iter().filter(|&&x| x < t).count() as f64 / n;
            z_check(name, "distribution function", (c - p) / (p * (1.0 - p) / n).sqrt());
        }
        let lag1: f64 = z.windows(2).map(|w| w[0] * w[1]).sum::<f64>() / (n - 1.0).sqrt();
        z_check(name, "lag 1 correlation", lag1);
        let lag2: f64 = z.windows(3).map(|w| w[0] * w[2]).sum::<f64>() / (n - 2.0).sqrt();
        z_check(name, "lag 2 correlation", lag2);
        let sq: f64 = z
            .windows(2)
            .map(|w| (w[0] * w[0] - 1.0) * (w[1] * w[1] - 1.0))
            .sum::<f64>()
            / (4.0 * (n - 1.0)).sqrt();
        z_check(name, "lag 1 correlation of the squares", sq);
    }

    for (seed, sigma) in [(1u64, 1.0f64), (2, 0.05), (3, 7.5)] {
        let channel = AwgnChannel::new(sigma);
        let mut rng = SeededRng::seed_from_u64(seed);
        // real channel
        let mut real = vec![0.25f64; 400_000];
        channel.add_noise(&mut rng, &mut real);
        let z: Vec<f64> = real.iter().map(|x| (x - 0.25) / sigma).collect();
        check("real channel", &z);
        // complex channel
        let offset = Complex::new(-1.0, 0.5);
        let mut complex = vec![offset; 200_000];
        channel.add_noise(&mut rng, &mut complex);
        let z: Vec<f64> = complex
            .iter()
            .flat_map(|x| [(x.re - offset.re) / sigma, (x.im - offset.im) / sigma])
            .collect();
        check("complex channel", &z);
        let re_im: f64 = z.chunks(2).map(|c| c[0] * c[1]).sum::<f64>() / (z.len() as f64 / 2.0).sqrt();
        z_check("complex channel", "correlation of real and imaginary parts", re_im);
        // empty input
        let mut empty: Vec<f64> = Vec::new();
        channel.add_noise(&mut rng, &mut empty);
        assert!(empty.is_empty());
    }

    // zero noise level: symbols are not changed
    let channel = AwgnChannel::new(0.0);
    let mut rng = SeededRng::seed_from_u64(4);
    let mut real = vec![1.0, -1.0, 0.0, 3.5];
    channel.add_noise(&mut rng, &mut real);
    assert_eq!(real, vec![1.0, -1.0, 0.0, 3.5]);
    let mut complex = vec![Complex::new(0.0, 1.0), Complex::new(-0.5, 0.0)];
    channel.add_noise(&mut rng, &mut complex);
    assert_eq!(complex, vec![Complex::new(0.0, 1.0), Complex::new(-0.5, 0.0)]);

    // invalid noise levels are rejected
    for bad in [-1.0, f64::NAN, f64::INFINITY, f64::NEG_INFINITY] {
        let r = std::panic::catch_unwind(|| AwgnChannel::new(bad));
        assert!(r.is_err(), "noise sigma {bad} was accepted");
    }
}

// Checks aimed at the life cycle of the workers: many short Eb/N0 cases in a
// row, and decoders that panic (in one worker or in all of them, in the first
// Eb/N0 case or in a later one). The BER test must never hang, must return an
// error when a worker fails, and must always send the Finished report.
#[derive(Debug, Clone)]
struct FaultySpy {
    spy: Spy,
    // the decoders with these ids (in order of construction) panic...
    first_faulty: usize,
    last_faulty: usize,
    // ...when they are given their n-th frame (counting from 1)
    panic_at_frame: usize,
    // The other decoders with id >= gate_from do not decode anything until a
    // faulty decoder has failed (so that the failure does not depend on how
    // the threads are scheduled).
    gate_from: usize,
    failed: Arc<std::sync::atomic::AtomicBool>,
}

impl FaultySpy {
    fn new(first_faulty: usize, last_faulty: usize, panic_at_frame: usize, gate_from: usize) -> FaultySpy {
        FaultySpy {
            spy: Spy::new(),
            first_faulty,
            last_faulty,
            panic_at_frame,
            gate_from,
            failed: Arc::new(std::sync::atomic::AtomicBool::new(false)),
        }
    }

    fn healthy() -> FaultySpy {
        FaultySpy::new(usize::MAX, usize::MAX, 0, usize::MAX)
    }
}

impl std::fmt::Display for FaultySpy {
    fn fmt(&self, f: &mut std::fmt::Formatter<'_>) -> std::fmt::Result {
        write!(f, "faulty spy")
    }
}

#[derive(Debug)]
struct FaultyDecoder {
    inner: Box<dyn LdpcDecoder>,
    faulty: bool,
    panic_at_frame: usize,
    frames: usize,
    gated: bool,
    failed: Arc<std::sync::atomic::AtomicBool>,
}

impl DecoderFactory for FaultySpy {
    fn build_decoder(&self, h: SparseMatrix) -> Box<dyn LdpcDecoder> {
        let id = self.spy.next_id.load(Ordering::SeqCst);
        let faulty = (self.first_faulty..=self.last_faulty).contains(&id);
        Box::new(FaultyDecoder {
            inner: self.spy.build_decoder(h),
            faulty,
            panic_at_frame: self.panic_at_frame,
            frames: 0,
            gated: !faulty && id >= self.gate_from,
            failed: Arc::clone(&self.failed),
        })
    }
}

impl LdpcDecoder for FaultyDecoder {
    fn decode(
        &mut self,
        llrs: &[f64],
        max_iterations: usize,
    ) -> Result<DecoderOutput, DecoderOutput> {
        self.frames += 1;
        if self.faulty && self.frames == self.panic_at_frame {
            self.failed.store(true, Ordering::SeqCst);
            panic!("injected decoder failure (this panic is part of the test)");
        }
        if self.gated {
            let start = std::time::Instant::now();
            while !self.failed.load(Ordering::SeqCst) && start.elapsed() < Duration::from_secs(30) {
                std::thread::sleep(Duration::from_micros(100));
            }
        }
        // slow down a little so that all the workers get to decode frames
        std::thread::sleep(Duration::from_micros(200));
        self.inner.decode(llrs, max_iterations)
    }
}

struct FaultyOutcome {
    result: Result<Vec<Statistics>, String>,
    reports: Vec<Report>,
    frames: Vec<Frame>,
}

fn run_faulty(
    factory: FaultySpy,
    ebn0s_db: Vec<f32>,
    max_frame_errors: u64,
    modulation: Modulation,
) -> FaultyOutcome {
    let (done_tx, done_rx) = mpsc::channel();
    std::thread::spawn(move || {
        let h = make_h(60, 120, 77);
        let (report_tx, report_rx) = mpsc::channel();
        let test = BerTestBuilder {
            h,
            decoder_implementation: factory.clone(),
            modulation,
            puncturing_pattern: None,
            interleaving_columns: Some(3),
            max_frame_errors,
            max_iterations: 10,
            ebn0s_db: &ebn0s_db,
            reporter: Some(Reporter {
                tx: report_tx,
                interval: Duration::from_millis(1),
            }),
            bch_max_errors: 0,
        }
        .build()
        .unwrap();
        let result = test.run().map_err(|e| e.to_string());
        let reports = report_rx.try_iter().collect();
        std::thread::sleep(Duration::from_millis(50));
        let frames = factory.spy.log.lock().unwrap().clone();
        let _ = done_tx.send(FaultyOutcome {
            result,
            reports,
            frames,
        });
    });
    done_rx
        .recv_timeout(TIMEOUT)
        .expect("the BER test did not finish in time")
}

#[test]
fn many_short_ebn0_cases() {
    // 40 Eb/N0 cases of 1 to 3 frame errors each
    let ebn0s_db: Vec<f32> = (0..40).map(|j| 12.0 + 0.5 * (j % 17) as f32).collect();
    for max_frame_errors in [1, 3] {
        let o = run_faulty(
            FaultySpy::healthy(),
            ebn0s_db.clone(),
            max_frame_errors,
            Modulation::Bpsk,
        );
        let stats = o.result.expect("the BER test failed");
        assert_eq!(stats.len(), ebn0s_db.len());
        for (s, &e) in stats.iter().zip(ebn0s_db.iter()) {
            assert_eq!(s.ebn0_db, e);
            assert_eq!(s.num_frames, max_frame_errors);
            assert_eq!(s.ldpc.frame_errors, max_frame_errors);
        }
        assert_eq!(o.reports.last(), Some(&Report::Finished));
        // every frame has the LLR scale of one of the requested Eb/N0
        // (k = 60, n = 120, BPSK: sigma^2 = 1/ebn0)
        assert!(o.frames.len() as u64 >= max_frame_errors * ebn0s_db.len() as u64);
        for frame in &o.frames {
            assert_eq!(frame.llrs.len(), 120);
            let mean_abs = frame.llrs.iter().map(|l| l.abs()).sum::<f64>() / 120.0;
            let sigma2 = 2.0 / mean_abs;
            let best = ebn0s_db
                .iter()
                .map(|&e| (sigma2 * 10.0_f64.powf(f64::from(e) / 10.0)).ln().abs())
                .fold(f64::INFINITY, f64::min);
            // the cases are 0.5 dB (12%) apart; the estimate from 120 samples
            // has a standard deviation below 2.5% (sigma <= 0.25)
            assert!(
                best < 0.15,
                "a frame has an LLR scale that matches no requested Eb/N0 ({best})"
            );
        }
    }
}

#[test]
fn failing_decoders_give_errors_and_never_hang() {
    // (first faulty decoder, last faulty decoder, frame, Eb/N0 list)
    let all = usize::MAX - 1;
    let scenarios: Vec<(usize, usize, usize, Vec<f32>, &str)> = vec![
        (0, 0, 1, vec![15.0], "first decoder fails in its first frame"),
        (0, 0, 3, vec![15.0, 16.0], "first decoder fails in its third frame"),
        (0, all, 1, vec![15.0, 16.0], "all the decoders fail in their first frame"),
        (0, all, 2, vec![15.0], "all the decoders fail in their second frame"),
    ];
    for modulation in [Modulation::Bpsk, Modulation::Psk8] {
        for (first, last, frame, ebn0s, what) in scenarios.iter().cloned() {
            let factory = FaultySpy::new(first, last, frame, 0);
            // so many frame errors that the workers cannot reach them with
            // one frame each
            let o = run_faulty(factory, ebn0s, 5000, modulation);
            assert!(o.result.is_err(), "{what}: the BER test did not fail");
            assert_eq!(
                o.reports.last(),
                Some(&Report::Finished),
                "{what}: no Finished report"
            );
        }
    }

    // A failure in a later Eb/N0 case: the decoders are built for each Eb/N0
    // case, so a decoder with id >= (decoders of the first case) belongs to a
    // later case. First find out how many decoders an Eb/N0 case uses.
    let probe = FaultySpy::healthy();
    let o = run_faulty(probe.clone(), vec![15.0], 5, Modulation::Bpsk);
    assert!(o.result.is_ok());
    let per_case = probe.spy.next_id.load(Ordering::SeqCst);
    assert!(per_case >= 1);
    // the first decoder of the second Eb/N0 case fails in its second frame
    let factory = FaultySpy::new(per_case, per_case, 2, per_case);
    let o = run_faulty(factory, vec![15.0, 16.0, 17.0], 50, Modulation::Bpsk);
    assert!(
        o.result.is_err(),
        "failure in the second Eb/N0 case: the BER test did not fail"
    );
    assert_eq!(o.reports.last(), Some(&Report::Finished));
    // the first Eb/N0 case was completed and reported
    assert!(o.reports.iter().any(|r| matches!(r,
        Report::Statistics(s) if s.ebn0_db == 15.0 && s.num_frames == 50)));
    // and the third was never started
    assert!(!o.reports.iter().any(|r| matches!(r,
        Report::Statistics(s) if s.ebn0_db == 17.0)));
}

// If the receiver of the progress reports is gone the BER test panics (it
// unwraps the result of sending the report). The worker threads must not
// outlive it: nothing is decoded any more shortly afterwards.
#[test]
fn workers_stop_when_the_ber_test_panics() {
    let factory = FaultySpy::healthy();
    let spy = factory.spy.clone();
    let (done_tx, done_rx) = mpsc::channel();
    std::thread::spawn(move || {
        let handle = std::thread::spawn(move || {
            let h = make_h(60, 120, 77);
            let (report_tx, report_rx) = mpsc::channel();
            drop(report_rx);
            let test = BerTestBuilder {
                h,
                decoder_implementation: factory,
                modulation: Modulation::Psk8,
                puncturing_pattern: None,
                interleaving_columns: None,
                max_frame_errors: 1_000_000,
                max_iterations: 10,
                ebn0s_db: &[15.0, 16.0],
                reporter: Some(Reporter {
                    tx: report_tx,
                    interval: Duration::from_millis(20),
                }),
                bch_max_errors: 0,
            }
            .build()
            .unwrap();
            let _ = test.run();
        });
        let _ = done_tx.send(handle.join().is_err());
    });
    let panicked = done_rx
        .recv_timeout(TIMEOUT)
        .expect("the BER test did not finish in time");
    assert!(panicked, "the BER test did not panic");
    std::thread::sleep(Duration::from_millis(300));
    let before = spy.log.lock().unwrap().len();
    std::thread::sleep(Duration::from_millis(500));
    let after = spy.log.lock().unwrap().len();
    assert!(before > 0);
    assert_eq!(before, after, "workers are still running");
}
